"""write_meta.py <seed-id> <before:0|1> <summary> <needs> <detected_by> [...more detected_by] : writes seeded/<id>/meta.json"""
import json, os, sys
sid, before, summary, needs, *det = sys.argv[1:]
d = os.path.join(os.path.dirname(os.path.dirname(os.path.abspath(__file__))), "seeded", sid)
meta = {"property": sid.split("-")[0], "summary": summary, "needs": needs, "detected_by": det,
        "detected_before_strengthening": bool(int(before)),
        "ran": f"tools/confirm_seed.sh /verif/seeded/{sid}; tools/run_variant.py /verif/seeded/{sid}/patch.diff --props all",
        "confirmed": {"demo_unchanged_exit": 0, "demo_patched_exit": 1,
                      "suite_with_patch": "1 failed, 1069 passed, 2 errors (same as unchanged)"}}
json.dump(meta, open(os.path.join(d, "meta.json"), "w"), indent=1)
print("wrote", d)
