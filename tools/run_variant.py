"""Runs checks against a scratch copy of /repo with a patch applied (never touches /repo or the committed evidence).

usage: run_variant.py <patch.diff> [--props C01,C02|all] [--tier quick]
Prints one line per property: <prop> rc=<n> [keys of new findings].
"""
import argparse
import json
import os
import shutil
import subprocess
import sys
import tempfile

VERIF = os.path.dirname(os.path.dirname(os.path.abspath(__file__)))
ALL = [f"C{n:02d}" for n in range(1, 21) if n != 8]


def run(patch, props, tier="quick", keep=False, quiet=False):
    scratch = tempfile.mkdtemp(prefix="verif_variant_", dir="/tmp")
    try:
        subprocess.run(["git", "-C", "/repo", "worktree", "add", "-q", "--detach", os.path.join(scratch, "repo"), "HEAD"],
                       check=True, capture_output=True)
        repo = os.path.join(scratch, "repo")
        r = subprocess.run(["git", "-C", repo, "apply", "--whitespace=nowarn", os.path.abspath(patch)], capture_output=True, text=True)
        if r.returncode != 0:
            return {"error": "patch does not apply: " + r.stderr[:300]}
        env = dict(os.environ, EMBOSS_REPO=repo, VERIF_EVIDENCE_DIR=os.path.join(scratch, "evidence"),
                   VERIF_REPLAY_DIR=os.path.join(scratch, "replay"))
        out = {}
        procs = {p: subprocess.Popen([os.path.join(VERIF, "check"), p, "--tier", tier], env=env, cwd=VERIF,
                                     stdout=subprocess.PIPE, stderr=subprocess.STDOUT, text=True) for p in props}
        for p, pr in procs.items():
            text, _ = pr.communicate()
            keys = []
            rp = os.path.join(scratch, "replay", f"{p}.{tier}.json")
            if os.path.exists(rp):
                keys = [f["key"] for f in json.load(open(rp))]
            errs = [l for l in text.splitlines() if l.startswith("ANALYSIS-ERROR")]
            out[p] = {"rc": pr.returncode, "keys": keys, "analysis_errors": errs[:3]}
        return out
    finally:
        subprocess.run(["git", "-C", "/repo", "worktree", "remove", "--force", os.path.join(scratch, "repo")], capture_output=True)
        shutil.rmtree(scratch, ignore_errors=True)
        subprocess.run(["git", "-C", "/repo", "worktree", "prune"], capture_output=True)


def main():
    ap = argparse.ArgumentParser()
    ap.add_argument("patch")
    ap.add_argument("--props", default="all")
    ap.add_argument("--tier", default="quick")
    a = ap.parse_args()
    props = ALL if a.props == "all" else a.props.split(",")
    res = run(a.patch, props, a.tier)
    if "error" in res:
        print(res["error"])
        return 2
    for p in props:
        r = res[p]
        print(f"{p} rc={r['rc']} {r['keys'][:4]} {r['analysis_errors'][:1]}")
    return 0


if __name__ == "__main__":
    sys.exit(main())
