#!/bin/bash
# Development aid: all 19 quick checks in parallel; prints only what is not OK (and a count).
cd /verif
for c in C01 C02 C03 C04 C05 C06 C07 C09 C10 C11 C12 C13 C14 C15 C16 C17 C18 C19 C20; do echo $c; done | xargs -P 10 -I{} sh -c './check {} --tier quick > /tmp/allquick_{}.log 2>&1; tail -1 /tmp/allquick_{}.log' | sort > /tmp/allquick.sum
grep -v "^OK " /tmp/allquick.sum; echo "$(grep -c '^OK ' /tmp/allquick.sum)/19 OK"
