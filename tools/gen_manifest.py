"""Writes /verif/MANIFEST.json from the claims table below (single source of truth)."""
import json
import os

VERIF = os.path.dirname(os.path.dirname(os.path.abspath(__file__)))

BASELINE_OFF = (
    "cd /repo && /venv/bin/python -m pytest -ra -q -p no:cacheprovider --timeout=900 "
    "--continue-on-collection-errors"
)

# property -> (category, text, note, technique)
CLAIMS = {}
NOT_APPLICABLE = {}


def claim(pid, text, note, technique, category="other", ref="DESIGN.md section 4"):
    CLAIMS[pid] = dict(category=category, text=text, note=note, technique=technique, ref=ref)


def na(pid, reason):
    NOT_APPLICABLE[pid] = reason


exec(open(os.path.join(VERIF, "tools", "claims.py")).read())


def main():
    checks = []
    for pid in sorted(CLAIMS):
        c = CLAIMS[pid]
        checks.append({
            "property_id": pid,
            "quick_cmd": f"./check {pid} --tier quick",
            "thorough_cmd": f"./check {pid} --tier thorough",
            "evidence_file": f"/verif/evidence/{pid}.json",
            "replay_cmd_template": f"./check {pid} --replay {{path}}",
            "engine": "sa",
            "level_claimed": {"category": c["category"], "text": c["text"], "design_ref": c["ref"]},
            "level_note": c["note"],
            "technique": c["technique"],
        })
    manifest = {
        "version": 1,
        "setup_cmd": "cd /verif && ./setup.sh",
        "hooks": {
            "guard": "EMBOSS_VERIF",
            "enable": "no hooks: every check reads /repo's working tree as source text; nothing is built or instrumented",
            "baseline_off_cmd": BASELINE_OFF,
            "source_commits": [],
            "add_only": True,
        },
        "engines": [{
            "name": "sa",
            "path": "/verif/sa",
            "serves_properties": sorted(CLAIMS),
            "kind_free_text": "repository-specific static analysis: Python ast / re._parser rules over /repo's "
                              "sources, clang 14 -fsyntax-only / -ast-dump=json over runtime/cpp headers; no "
                              "repo code is imported or executed",
        }],
        "checks": checks,
        "notes": "Static analysis only. Each check decides named structural clauses (necessary conditions) of its "
                 "property; see DESIGN.md section 4 for the clause lists and what is not decided. Exit codes: 0 ok, "
                 "1 VIOLATION, 2 ANALYSIS-ERROR (anchor vanished / floor not met / positive control silent).",
        "not_applicable": [{"property_id": p, "reason": NOT_APPLICABLE[p]} for p in sorted(NOT_APPLICABLE)],
    }
    with open(os.path.join(VERIF, "MANIFEST.json"), "w") as fh:
        json.dump(manifest, fh, indent=1)
        fh.write("\n")
    print("wrote MANIFEST.json:", len(checks), "checks,", len(NOT_APPLICABLE), "not applicable")


if __name__ == "__main__":
    main()
