#!/bin/bash
# Development aid (not a registered check): regenerates the testdata headers from /repo into /tmp/gshim/gen and runs
# the repository's own C++ tests against the gtest stand-in in /tmp/gshim.  Usage: run_cpp_tests.sh [repo root]
R=${1:-/repo}
G=/tmp/gshim
[ -f $G/main.cc ] || { echo "no gtest stand-in in $G"; exit 2; }
mkdir -p $G/gen/testdata $G/bin
cd $R
sed 's/emboss::test/emboss::test::generated/' testdata/imported.emb > testdata/imported_genfiles.emb
# the 2.6 MB cached parser is recompiled on every run unless byte code may be cached (outside the repository)
unset PYTHONDONTWRITEBYTECODE; export PYTHONPYCACHEPREFIX=/tmp/verif_pyc
./embossc --import-dir=. --import-dir=testdata --output-path=$G/gen/testdata --output-file=bcd.emb.h testdata/bcd.emb >/dev/null 2>&1
gen() { b=$(basename $1); ./embossc --import-dir=. --import-dir=testdata --output-path=$G/gen/testdata --output-file=$b.h $1 >/dev/null 2>&1 || echo "GENFAIL $b"; }
export -f gen
ls testdata/*.emb | xargs -P 8 -I{} bash -c 'gen {}'
rm -f testdata/imported_genfiles.emb
one() {
  t=$1; n=$(basename $t .cc)
  if g++ -std=c++14 -O0 -w -I$G -I$R -I$G/gen $t $G/main.cc -o $G/bin/$n 2>$G/bin/$n.err; then
    if $G/bin/$n > $G/bin/$n.out 2>&1; then echo "PASS $n"; else echo "FAIL $n: $(tail -2 $G/bin/$n.out | tr '\n' ' ')"; fi
  else echo "NOBUILD $n"; fi
  rm -f $G/bin/$n
}
export -f one; export G R
ls $R/compiler/back_end/cpp/testcode/*_test.cc $R/runtime/cpp/test/*_test.cc | xargs -P 12 -I{} bash -c 'one {}' | sort
