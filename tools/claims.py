# Claims table, exec'd by gen_manifest.py.  Keep in sync with DESIGN.md section 4.
claim("C09",
      "Translation validation of the shipped parser tables: production sets of module_ir.py, format_emb.py, "
      "doc/grammar.md and cached_parser.py are equal (R-GRAMMAR-EQ); both cached automata are bijectively "
      "isomorphic, cell for cell, to an independently constructed canonical LR(1) automaton of the source grammar "
      "(R-LR1TABLE; 16249 + 7786 states); every error cell/default error equals what error_examples yields when "
      "tokenised with the extracted pattern tables and simulated on the extracted tables, and vice versa (R-ERRCODES); "
      "the loader's validity rule and fall-back (R-LOADER) and conflict propagation (R-CONFLICT) are in place. "
      "Exhaustive over states, cells and examples; decides behaviour on all token sequences because the canonical "
      "LR(1) collection is unique up to numbering.",
      "Trusted: CPython ast, the checker's own LR(1) construction (sa/lr1ref.py), lr1.Parser.parse being the textbook "
      "driver. Not decided: that lr1.py itself would regenerate these tables (C08).",
      "AST extraction of tables + independent canonical LR(1) construction + automaton bijection",
      category="translation_validation")
na("C08", "LR(1) generator correct for every grammar: correctness of FIRST/closure/goto fixed points over arbitrary "
          "grammars quantifies over run-time sets; no path-shape rule is a necessary-and-sufficient proxy. The "
          "user-visible instance (the shipped tables) is decided under C09.")
_NOTE = ("Static decision of the named structural clauses only (necessary conditions). Trusted: CPython ast, the "
         "IR schema read from ir_data.py, the rule/exclusion tables in /verif/sa/rules (each entry one symbol + reason). ")
claim("C12", "Exact decision, over every site, of: named-node-kind exhaustiveness of symbol-table registration, dependency "
      "naming and reserved-word checks (R-NAMEDKINDS); no-precedence / ambiguity / visibility discipline of the scope "
      "search (R-NOPRECEDENCE); privacy of abbreviations (R-ABBREV); by-name parameter availability of every resolver "
      "traversal on every IR path (R-TRAVPARAM).",
      _NOTE + "Not decided: that the bound target is the intended one for arbitrary scope trees.",
      "schema-typed traversal availability analysis + who-may-read / loop-exit lints")
claim("C13", "Exact decision of: operator signature table = documented signatures (R-OPSIG); every expression position has a "
      "positional requirement (R-POSCHECK); requirements apply to roots only (R-ROOTONLY); single type-equality judgment "
      "(R-TYPEEQ); validators guard oneof alternatives (R-VALIDATORGUARD); closed chains and FunctionMapping tables "
      "exhaustive (R-DISPATCH, R-DISPATCH-FM); no orphaned validator (R-VALIDATORS).",
      _NOTE + "Not decided: acceptance of every well-typed module; message locations.",
      "exhaustiveness / dominance lints over the AST, typed by the IR schema")
claim("C14", "Exact decision of: attribute name/scope/type table agreement front end and C++ back end (R-ATTRTABLE); compared "
      "values within validated sets, byte orders backed by runtime classes (R-ATTRVALUES); all validators registered and "
      "reachable with floors (R-VALIDATORS); reserved-word check on every named kind (R-NAMEDKINDS).",
      _NOTE + "Not decided: boundary constants in individual validators; the converse direction.",
      "table agreement + call-graph reachability")
claim("C15", "Exact decision of: pass order and error discipline of the pipeline (R-PIPE); identical dependency extraction for "
      "cycle detection and ordering (R-DEPTWIN); dependency naming for every value-bearing named kind (R-NAMEDKINDS); "
      "consumers iterate fields_in_dependency_order (R-DEPORDER).",
      _NOTE + "Not decided: correctness of the SCC algorithm and of the greedy ordering.",
      "pass-order / sibling-traversal agreement lints")
claim("C16", "Exact decision of: traversal parameter availability on all IR paths (R-TRAVPARAM); exhaustiveness of closed "
      "chains and FunctionMapping tables with machine-checked exclusions (R-DISPATCH, R-DISPATCH-FM); rejection "
      "coverage of builtin words (R-FILTERCOVER); handler arity (R-HANDLER); first-contact guards and asserts "
      "(R-VALIDATORGUARD, R-FIRSTCONTACT-ASSERT); file-name role typing and format arity (R-STRROLE, R-FORMATARITY); "
      "passes return lists, pipeline splits/defers errors (R-PASSRET, R-PIPE). Five genuine findings are listed in "
      "known_findings.txt and printed as KNOWN-FINDING.",
      _NOTE + "Not decided: absence of every other exception on arbitrary text; message rendering.",
      "product-graph availability analysis, member-set flow analysis, schema-typed role lint")
claim("C17", "Exact decision of: no order-sensitive consumption of hash-ordered values (R-UNORDERED, set-typing inference with "
      "sanitisers and tabled exceptions); inventory of call-time module state equals the confirmed list, cache keyed by "
      "(text, file), counter private (R-GLOBALSTATE); no clock/random/pid/env/identity input (R-IMPURE).",
      _NOTE + "Set typing is an under-approximation (untyped containers are not followed). Not decided: byte-identity of "
      "whole outputs.",
      "unordered-iteration taint analysis + global-state inventory")
claim("C05", "Exact decision of: direction typing of every minimum/maximum assignment of the transfer functions for + - * ?: "
      "$max by abstract interpretation per operator (R-BOUNDDIR), operand coverage of modulus/modular_value (R-OPERANDS), "
      "operator meaning in constant folders and source-token tables incl. three-valued AND/OR/?: (R-CONSTFOLD), operator "
      "table exhaustiveness (R-DISPATCH-FM), registration and exemptions of the 64-bit gate (R-GATE).",
      _NOTE + "Not decided: gcd/modulus formulas, leaf ranges, infinity arithmetic helpers, tightness.",
      "abstract interpretation (Lo/Hi bound-direction lattice) of the transfer functions")
claim("C10", "Exact decision of: documented = implemented pattern tables in order, terminal/symbol agreement (R-TOKTABLE); skipped "
      "patterns are whitespace-only and no pattern matches empty, on the regex AST (R-TOKSKIP); strict-greater tie-break "
      "and literal-first order (R-TOKTIE); token text/columns/advance as linear forms over {offset, len(match)} "
      "(R-TOKPOS); Indent/Dedent pairing with the stack per block and epilogue (R-INDENT).",
      _NOTE + "Not decided: longest-match result on every string; name/number classification beyond table equality.",
      "table agreement + regex-AST check + linear-form evaluation of column arithmetic")
claim("C11", "Exact decision of: one formatter per production with matching arity (R-GRAMMAR-EQ, R-HANDLER); no formatter drops "
      "a child that can derive a non-blank token (R-FMTLINEAR, def-use closure; 22 blank drops + 1 tabled); in-place "
      "write dominated by the self-check and skipped on failure (R-FMTGUARD); self-check compares symbol and text "
      "(R-FMTSELFCHECK).",
      _NOTE + "Not decided: idempotence, layout passes, never-raises.",
      "def-use flow analysis of formatters against the grammar + dominance lint")
claim("C18", "Exact decision of: every leaf type of the IR schema has inverse conversions and supported annotation shapes "
      "(R-SERIALTYPES); SourceLocation text form is inverted flag by flag in reverse order (R-SRCLOC); one-process and "
      "two-process drivers use the same entry points, Config and to_json/from_json(EmbossIr) (R-DRIVERS).",
      _NOTE + "Not decided: equality of arbitrary IRs after a round trip; header identity.",
      "schema-driven converter exhaustiveness + driver entry-point agreement")
_CNOTE = _NOTE + "C++ facts come from clang 14 (-fsyntax-only, -ast-dump=json); no binary is produced or run. "
claim("C01", "Exact decision of: operator meaning preserved token -> IR -> Python folders -> emitted C++ name -> runtime function -> "
      "functor operator (R-CONSTFOLD, R-OPCHAIN); $-field name tables agree (R-DOLLAR); accessor guards, argument roles and "
      "null-view fall-through (R-ACCESSOR); dependency-ordered Ok/text emission (R-DEPORDER); emitted runtime names exist "
      "(R-RTSYMS).",
      _CNOTE + "Not decided: offset/size arithmetic, size = max end, parameters, [requires], prefix-monotonicity.",
      "cross-language table agreement over Python ast + clang AST")
claim("C02", "Exhaustive compile witnesses: every scalar view x every admitted width x container size x byte orderer (and EnumView "
      "x underlying type) instantiates under each standard with value types at least as wide as the field and of the declared "
      "signedness; widths outside are refused by static_assert (R-WIDTHS). Checked/unchecked read twins compute the same "
      "expression (R-TWIN); LE/BE orderers and buffer accessors are mirror images (R-MIRROR).",
      _CNOTE + "Not decided: bit numbering, masks, sign extension, BCD/float decoding values.",
      "compile-pass / compile-fail witnesses (clang type checker) + twin/mirror skeleton comparison")
claim("C03", "Exact decision of: no storage write before the CouldWriteValue/IsComplete guards in any scalar view, sibling "
      "agreement of the write interface (R-SIBLING); TryToWrite stores what UncheckedWrite stores (R-TWIN); the inverse built "
      "for x+c, x-c, c-x is the algebraic inverse, as a linear form (R-INVERSE); the virtual write template guards and "
      "forwards the transformed value (R-VWRITE).",
      _CNOTE + "Not decided: exact accept/reject boundaries, neighbour-bit preservation.",
      "sibling skeleton comparison + linear-form evaluation of the synthesised inverse")
claim("C04", "Exact decision of: no-abort methods reach aborting callees only behind a guard (R-NOABORT, callee set computed from "
      "the AST), sibling guard agreement (R-SIBLING), null view for unknown/negative locations (R-ACCESSOR), memmove behind "
      "Ok/size tests (R-COPY), no constant-operand UB in any legal instantiation (R-WIDTHS), 64-bit gate registration "
      "(R-GATE).",
      _CNOTE + "Not decided: absence of out-of-bounds access for all buffers and dynamic offsets; alignment claims.",
      "call-discipline (guard dominance) analysis over method bodies + compile witnesses")
claim("C06", "Exact decision of: attribute tests compare values of the right type and domain (R-SCHEMACMP, R-ATTRVALUES); "
      "text emission/decoding in dependency order with the same dependency extraction as cycle detection (R-DEPORDER, "
      "R-DEPTWIN); text methods exist on every view kind (R-IFACE).",
      _CNOTE + "Not decided: integer text encode/decode inverse, whole-structure round trip, option combinations.",
      "schema-typed comparison lint + ordering/interface completeness checks")
claim("C07", "Exact decision of: template placeholder completeness (R-TEMPLATE), emitted runtime names exist (R-RTSYMS), case-label "
      "dedup guards (R-CASEDEDUP), generated-identifier collision analysis with witnesses (R-SPELL; 6 known findings), "
      "admitted widths instantiate / others refused (R-WIDTHS), callable sibling signatures (R-SIBLING), interface "
      "completeness per view kind (R-IFACE), reserved words on all named kinds (R-NAMEDKINDS), integer literal rendering "
      "(R-RENDERINT), enum-case conversions (R-ENUMCASE).",
      _CNOTE + "Not decided: well-formedness of the header for every accepted program; equality of emitted constants.",
      "template/placeholder agreement, identifier-language collision analysis, compile witnesses")
claim("C19", "Exact decision of: first-name rule and duplicate-free case labels via seen-set guards (R-CASEDEDUP), enum_case "
      "conversions (R-ENUMCASE), edge-value literal rendering (R-RENDERINT), EnumView x underlying type x width witnesses "
      "(R-WIDTHS), numeric enum values (R-POSCHECK).",
      _CNOTE + "Not decided: name/value maps for arbitrary enums.",
      "guard-dominance lint + compile witnesses")
claim("C20", "Exact decision of: Equals/UncheckedEquals clause lockstep over physical fields and parameters (R-EQLOCKSTEP), sibling "
      "and twin agreement of Equals/CopyFrom (R-SIBLING, R-TWIN), interface completeness incl. parameters (R-IFACE), "
      "memmove copy behind Ok/size guards (R-COPY).",
      _CNOTE + "Not decided: byte-level post-conditions, symmetry on arbitrary buffers.",
      "lockstep / sibling / interface completeness analysis")

# Clauses added after the claim texts above were written (rules from the seeded-change rounds; DESIGN.md 3.7).
_ADDED = {
    "C01": "three-valued And/Or/Choice truth tables over the whole Maybe domain (R-KLEENE); Ok() grouping records every field on every path and emits every group (R-OKCOVER); synthesised size/$next expressions have the documented shape (R-SYNTH); intermediate and selected C++ integer types (R-INTERMEDIATE, R-INTRANGE).",
    "C02": "BCD read loop covers every bit for all widths (R-LOOPCOVER); MaskToNBits masks folded for every width (R-CPPRANGE); every OffsetBitBlock method that touches the underlying block applies offset_ (R-WINDOW).",
    "C03": "CouldWriteValue bounds of UIntView/IntView/BcdView/EnumView folded with a typed C++ constant folder for every width, keep-mask of MaskInValue for every (width, offset, size) (R-CPPRANGE); BCD write loop coverage (R-LOOPCOVER); alias write method only for virtual fields without their own [requires] (R-ALIASGUARD); window offset applied on every storage access (R-WINDOW).",
    "C04": "text decoder overflow guard dependencies (R-GUARDDEPS); static (alignment, offset) of a sub-buffer depends on parent and relative facts (R-SUBALIGN); sub-buffer size clamped with guarded unsigned difference (R-CLAMP); R-INTRANGE, R-INTERMEDIATE.",
    "C05": "leaf ranges and 64-bit predicates folded for every width (R-INTRANGE); C++ intermediate type covers result and operands (R-INTERMEDIATE).",
    "C06": "array element separators agree between writer and reader per output mode (R-ARRAYSEP, known finding); alias ordering inside anonymous bits (R-ALIASDEPS, known finding); writer and reader templates of text names get the same name expression (R-TEXTNAME); overflow guard depends on every operand (R-GUARDDEPS).",
    "C09": "the generator's reader of error_examples agrees with the checker's reader and stores messages unrewritten (R-EXAMPLEFILE).",
    "C10": "name-class patterns equal the languages documented in language-reference.md (R-NAMEREGEX); tokenizer and error printer cut lines identically (R-LINESPLIT); Indent/Dedent pairing (R-INDENT).",
    "C11": "Indent/Dedent children emitted through an indenting helper (R-FMTINDENT); children emitted in right-hand-side order (R-FMTORDER); glued seams re-tokenize unchanged (R-ADJACENCY).",
    "C12": "lookups behind a field reference use its last component (R-PATHEND); reviewed skip_descendants_of losses (R-SKIPLOSS); duplicate definitions never overwrite (R-DUPNAME).",
    "C13": "compatibility checks never excused by the checked expression itself (R-POSCHECK/own-type); positional requirements are unconditional (R-POSCHECK/conditional); enum identity (R-TYPEEQ); reviewed traversal skips (R-SKIPLOSS).",
    "C14": "flags that distinguish node kinds stay two-valued at their tests (R-DEADFLAG); reviewed traversal skips of the constraint validators (R-SKIPLOSS); in-place mutation of shared defaults (R-INCIDENTAL-PURE); boundary intervals (R-BOUNDARY).",
    "C15": "ordering places a field only after all its dependencies, Tarjan SCC clauses, self-imports keep their edge (R-TOPOGUARD, R-TARJAN, R-SELFIMPORT); reviewed traversal skips of the dependency extraction (R-SKIPLOSS).",
    "C18": "options reaching compilation defined identically in embossc and the split drivers and not rewritten (R-DRIVERFLAGS); no private encoder of location flags with exclusive or different suffixes (R-LOCENCODE).",
    "C07": "namespace validator and emitter cut the attribute into the same components (R-NSPARSE).",
    "C16": "diagnostics about an object found through a reference carry that object's file (R-FOREIGNFILE); error printer and tokenizer agree on line cutting (R-LINESPLIT); end-of-input parse errors (R-TOKENSHAPE).",
    "C19": "enum name writer/reader agreement (R-TEXTNAME), whole-string name compare (R-EXACTNAME), boundary intervals (R-BOUNDARY, R-INTRANGE).",
}
for _pid, _t in _ADDED.items():
    CLAIMS[_pid]["text"] += " Also decided: " + _t

_ADDED6 = {
    "C01": "sub-window bounds of the bit blocks (R-SUBWINDOW); has_x() hard-coded true only for a constant-true condition (R-CONSTPRESENT); case constants fit the switch operand (R-SWITCHFIT); Choice instantiated with IntermediateT == ResultT (R-CHOICETYPE).",
    "C02": "both preprocessor variants of the generic byte accessors, read side (R-BYTEPATH); the three byte orderers report the same buffer state (R-MIRROR); sub-window bounds (R-SUBWINDOW).",
    "C03": "write side of both accessor variants (R-BYTEPATH); write-through virtual fields test presence and their static range before the inverse transform (R-VWRITE); BcdView write methods take the caller's integer type (R-NARROWARG, repaired).",
    "C04": "no pointer is formed past the buffer in GetOffsetStorage (R-CLAMP); Null orderer reports the buffer's size (R-MIRROR).",
    "C05": "existence function looks up the last path component (R-PATHEND).",
    "C06": "enum text reader is the exact inverse of the writer (R-ENUMTEXT); float text precision and buffer (R-FLOATTEXT); text reader of write-through virtual fields matches their kind (R-TEXTPAIR); [text_output] carried to anonymous-bits aliases (R-ALIASATTR).",
    "C07": "text methods of virtual views take the options by const reference (R-TEXTSIG); R-TEXTPAIR, R-SWITCHFIT, R-CHOICETYPE; storage classes provide every method generated views call on them (R-STORAGEIFACE).",
    "C10": "both pattern tables are tried completely at every offset (R-TOKTIE).",
    "C12": "scope chains extend the inherited list (R-SCOPECHAIN); the head of a field reference cannot be a module (R-REFHEAD).",
    "C13": "every typing function types its expression on every exit (R-TYPEANNOT); kind guards before helpers ending in assert False (R-PRECOND); oneof members read under a guard (R-ONEOFGUARD); the prelude Flag is recognised by module and path (R-CANONNAME); reviewed skips still present (R-SKIPLOSS converse).",
    "C14": "validator/getter agreement for attribute values (R-ATTRAGREE); back-end qualifier respected by every lookup (R-ATTRBACKEND); Null byte order truth table (R-NULLORDER); array element sizes, bits-typed fields and negative locations rejected where the back end relies on it (R-ELEMSIZE, R-BITSFIELD, R-NEGLOC); type rules reach array element types (R-TYPEREACH).",
    "C16": "Field-only attributes read under isinstance (R-REFKIND); no constancy assertion before the constancy check (R-EARLYASSERT, R-CONSTNONE); int() of bounds under an infinity test (R-INFGUARD); R-TYPEANNOT, R-PRECOND, R-ONEOFGUARD, R-REFHEAD, R-ATTRAGREE, R-ATTRBACKEND, R-ELEMSIZE, R-ANONHOME.",
    "C18": "options reach the shared entry points verbatim (R-DRIVERFLAGS).",
    "C20": "TryToCopyFrom tests exactly the four documented conditions (R-COPY); bit storages implement the copy methods (R-STORAGEIFACE).",
}
for _pid, _t in _ADDED6.items():
    CLAIMS[_pid]["text"] += " Round 6: " + _t

_ADDED7 = {
    "C01": "accumulators initialised before a loop are not overwritten in it (R-LOOPACC); Ok() of a generated virtual view tests presence first (R-VIRTOK); templates that hard-code Ok() are not used for fields with [requires] (R-CONSTPRESENT).",
    "C03": "the inverse transform takes operands from the walking cursor (R-INVERSE); integer virtual fields have write overloads that test representability before narrowing (R-VIRTNARROW); array views get from every storage class what they use (R-ARRAYSTORAGE).",
    "C04": "moduli are combined by gcd, never by order (R-MODCOMBINE); the alignment DCHECK is made on the kept byte pointer (R-ALIGNCHECK); array elements are neither zero-sized nor 2**64 bits or more (R-ELEMSIZE).",
    "C05": "R-MODCOMBINE; a constant that is not a literal is read only after its bounds were computed (R-CONSTAGREE).",
    "C06": "whitespace skipped by the reader equals what ends a token (R-WSAGREE); a digit has been consumed before DecodeInteger succeeds (R-DIGITSEEN); aliases of anonymous bits members inherit the members' dependencies (R-ALIASDEPS, repaired); write/text methods of virtual views are const (R-CONSTWRITE).",
    "C07": "element views over OffsetStorageType<element_size, 0> (R-ELEMSTORAGE); enumerators unique after case conversion (R-ENUMUNIQUE); header names unescaped and unwritable ones diagnosed (R-INCLUDENAME); R-ARRAYSTORAGE, R-CONSTWRITE, R-SUBBYTE; class-level template parameters vs. type names (R-SPELL, known finding `Storage`).",
    "C09": "no mutable default argument escapes in the parser generator (R-MUTDEFAULT).",
    "C10": "the indentation prefix consists of exactly the characters the gap pattern skips (R-INDENT charset clause); lines are cut at newlines only, by tokenizer and printer alike (R-LINESPLIT).",
    "C11": "strips that measure comments are argument-less (R-FMTWIDTH).",
    "C12": "every lookup receives the caller's whole scope chain (R-SCOPECHAIN lookup clause).",
    "C13": "the operator table's argument check covers every argument (R-OPSIG).",
    "C14": "bits types fixed-size and <= 64 bits for named, inline and anonymous alike (R-BITSFIXED); documented reserved words equal the loaded ones (R-DOCWORDS); sub-byte scalars rejected in run-time sized struct fields (R-SUBBYTE); Null byte order judged by the field size for non-array fields (R-NULLORDER, specification corrected); R-BOUNDORDER.",
    "C15": "graph-building actions accumulate their edges (R-EDGEACC).",
    "C16": "leaf-only checks run as traversal actions (R-LEAFCHECK); the shared error list is not consulted per node and candidate notes skip synthetic locations (R-SHAREDERR); only diagnosable-free attributes are copied to synthetic aliases (R-ALIASATTR); located-at-found-object messages have a fallback (R-FOUNDLOC); exponents are bounded (R-POWCAP); CPython's digit limit lifted (R-INTDIGITS); bounds memoised per pass (R-BOUNDMEMO); constant references resolve to constants (R-CONSTREFKIND); R-BOUNDORDER.",
    "C17": "successors of the cycle search and reported cycle members are ordered independently of hash seed and of the anonymous-name counter (R-TARJAN order clause, R-NATSORT); module-level skeletons are only marked before being copied (R-SKELMUT); R-MUTDEFAULT.",
    "C18": "the hand-off file depends on --output-file alone (R-DRIVERFLAGS hand-off clause).",
    "C19": "8-bit enums are promoted before streaming (R-CHARSTREAM); R-ENUMUNIQUE; the $default table the back end gathers is not mutated in place (R-INCIDENTAL-PURE).",
    "C20": "bit-block copies keep the destination's other bits (R-BITCOPY); converting operator= copies parameters (R-PARAMCOPY).",
}
for _pid, _t in _ADDED7.items():
    CLAIMS[_pid]["text"] += " Round 7 and third hunt: " + _t

_ADDED8 = {
    "C01": "arrays are Ok() only after looking at every element (R-ARRAYOK).",
    "C03": "read/write accessor pairs mirror each other for the write path too (R-MIRROR); EnumView's checks and writes use one conversion of the value, evaluated for every underlying and block type (R-CPPRANGE).",
    "C04": "undefined behaviour while folding the runtime's constants and masks (R-CPPRANGE ub_only); R-ARRAYOK; no structure always contains itself (R-SELFCONTAIN); copies take the source's size (R-COPY).",
    "C05": "the constant-condition branch of ?: is selected by the condition's value (R-CHOICECONST); for $upper_bound/$lower_bound the computed type precedes folding (R-CONSTAGREE).",
    "C06": "the enum writer prints the numeric value in the enum's underlying type (R-ENUMTEXT writer clause).",
    "C07": "C++11 constexpr bodies (R-CXX11CONSTEXPR); namespaces of structures spelled in full (R-QUALNS); field readers complete (R-FIELDREADER).",
    "C10": "token regexes carry no compile flags and the rendered token table equals the tokenizer's patterns (R-TOKTABLE).",
    "C11": "rebuilt blocks indent all their parts (R-FMTPARTS).",
    "C12": "definitions are entered into their scope unconditionally (R-SCOPEFILL).",
    "C13": "diagnostics about objects of another module carry that module's file (R-FOREIGNFILE); integer externals (R-EXTINT).",
    "C14": "attribute admission is one lookup of (name, is_default) (R-ATTRKEY).",
    "C15": "accumulation in the alias helper (R-EDGEACC restart clause); alias -> member edges for anonymous bits (R-ALIASEDGE).",
    "C16": "R-EXTINT, R-FIELDREADER.",
    "C18": "enum fields of a re-read IR are enum members and no identity tests on them (R-ENUMCONV).",
    "C19": "EnumView::CouldWriteValue evaluated conjunct by conjunct for every (underlying type, block type) (R-CPPRANGE enum part).",
    "C20": "R-COPY size-of-source; R-SELFCONTAIN.",
}
for _pid, _t in _ADDED8.items():
    CLAIMS[_pid]["text"] += " Round 8 and fourth hunt: " + _t

_ADDED9 = {
    "C01": "the constant-condition branch of ?: (R-CHOICECONST) and every MaximumOperation::Do overload returns the maximum of all its arguments (R-MAXARGS).",
    "C02": "EnumView reads do not sign-extend unsigned enums (R-SIGNEXT converse clause).",
    "C03": "values shifted by a width-dependent amount have the view's own type (R-SHIFTOPERAND).",
    "C04": "every partial-output guard is `!allow_partial_output() || X.IsAggregate() || X.Ok()` (R-PARTIALGUARD).",
    "C05": "R-MAXARGS.",
    "C07": "the view class befriends its other-storage instantiations while generated code reaches their private members (R-CROSSFRIEND); reserved-word checks reach the list on every path (R-NAMEDKINDS).",
    "C09": "Parser.mark_error reports success only after storing the code or finding it stored (R-MARKERROR).",
    "C10": "Indent covers the added whitespace and a mid-file Dedent is zero-width at the end of the new leading whitespace (R-INDENT column clause).",
    "C12": "scopes only grow (R-SCOPEFILL); traversals start at the IR the pass was given (R-TRAVROOT).",
    "C13": "attribute verifiers leave early only for an absent attribute or after reporting (R-VERIFYEXIT); R-TRAVROOT.",
    "C14": "R-VERIFYEXIT; R-NAMEDKINDS must-reach clause; R-TRAVROOT.",
    "C15": "R-TRAVROOT.",
    "C16": "location flags are never read under a truth test of the location (R-LOCFLAGS).",
    "C18": "every location built by from_str carries every flag it parsed (R-SRCLOC).",
    "C19": "name-keyed arms are generated once per name, never under a membership test (R-NAMEARMS).",
}
for _pid, _t in _ADDED9.items():
    CLAIMS[_pid]["text"] += " Round 9: " + _t

_ADDED10 = {
    "C01": "`$next` continues from the previous physical field unconditionally (R-NEXTPREV).",
    "C04": "constructors that keep a size_t in a narrower member record the truncation in their ok flag (R-NARROWSTORE).",
    "C06": "a substring taken between two tested delimiters is exactly the text between them (R-SUBSTRSPAN).",
    "C09": "every error example is handed to mark_error (R-MARKERROR mark-loop clause).",
    "C10": "reserved-prefix patterns shadow every ordinary name with that prefix (R-RESERVEDPREFIX).",
    "C11": "no per-iteration temporary of one loop is read after it (R-STALELOOPVAR).",
    "C12": "nothing skips a second match before the ambiguity is reported (R-NOPRECEDENCE).",
    "C13": "`$present`'s argument is accepted only when it refers to a Field, as expression_bounds requires (R-PRESENTARG).",
    "C14": "integer-or-None helpers are never tested for truth (R-ZEROFALSY).",
    "C15": "the ordering graph has an edge for every reference-typed alternative of Expression (R-ORDEREDGES).",
    "C16": "R-SNIPPETGUARD decides the guard arithmetically (index < len) with locals substituted.",
    "C17": "the serialiser drops only None and empty lists (R-SERIALFILTER).",
    "C18": "R-SERIALFILTER; every text produced by SourceLocation.__str__ carries the flag suffix (R-SRCLOC).",
}
for _pid, _t in _ADDED10.items():
    CLAIMS[_pid]["text"] += " Round 10: " + _t
