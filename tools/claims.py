# Claims table, exec'd by gen_manifest.py.  Keep in sync with DESIGN.md section 4.
claim("C09",
      "Translation validation of the shipped parser tables: production sets of module_ir.py, format_emb.py, "
      "doc/grammar.md and cached_parser.py are equal (R-GRAMMAR-EQ); both cached automata are bijectively "
      "isomorphic, cell for cell, to an independently constructed canonical LR(1) automaton of the source grammar "
      "(R-LR1TABLE; 16249 + 7786 states); every error cell/default error equals what error_examples yields when "
      "tokenised with the extracted pattern tables and simulated on the extracted tables, and vice versa (R-ERRCODES); "
      "the loader's validity rule and fall-back (R-LOADER) and conflict propagation (R-CONFLICT) are in place. "
      "Exhaustive over states, cells and examples; decides behaviour on all token sequences because the canonical "
      "LR(1) collection is unique up to numbering.",
      "Trusted: CPython ast, the checker's own LR(1) construction (sa/lr1ref.py), lr1.Parser.parse being the textbook "
      "driver. Not decided: that lr1.py itself would regenerate these tables (C08).",
      "AST extraction of tables + independent canonical LR(1) construction + automaton bijection",
      category="translation_validation")
na("C08", "LR(1) generator correct for every grammar: correctness of FIRST/closure/goto fixed points over arbitrary "
          "grammars quantifies over run-time sets; no path-shape rule is a necessary-and-sufficient proxy. The "
          "user-visible instance (the shipped tables) is decided under C09.")
for _p in ["C01","C02","C03","C04","C05","C06","C07","C10","C11","C12","C13","C14","C15","C16","C17","C18","C19","C20"]:
    na(_p, "check under construction in this session (see DESIGN.md section 4 for the planned structural clauses)")
