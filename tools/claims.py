# Claims table, exec'd by gen_manifest.py.  Keep in sync with DESIGN.md section 4.
claim("C09",
      "Translation validation of the shipped parser tables: production sets of module_ir.py, format_emb.py, "
      "doc/grammar.md and cached_parser.py are equal (R-GRAMMAR-EQ); both cached automata are bijectively "
      "isomorphic, cell for cell, to an independently constructed canonical LR(1) automaton of the source grammar "
      "(R-LR1TABLE; 16249 + 7786 states); every error cell/default error equals what error_examples yields when "
      "tokenised with the extracted pattern tables and simulated on the extracted tables, and vice versa (R-ERRCODES); "
      "the loader's validity rule and fall-back (R-LOADER) and conflict propagation (R-CONFLICT) are in place. "
      "Exhaustive over states, cells and examples; decides behaviour on all token sequences because the canonical "
      "LR(1) collection is unique up to numbering.",
      "Trusted: CPython ast, the checker's own LR(1) construction (sa/lr1ref.py), lr1.Parser.parse being the textbook "
      "driver. Not decided: that lr1.py itself would regenerate these tables (C08).",
      "AST extraction of tables + independent canonical LR(1) construction + automaton bijection",
      category="translation_validation")
na("C08", "LR(1) generator correct for every grammar: correctness of FIRST/closure/goto fixed points over arbitrary "
          "grammars quantifies over run-time sets; no path-shape rule is a necessary-and-sufficient proxy. The "
          "user-visible instance (the shipped tables) is decided under C09.")
_NOTE = ("Static decision of the named structural clauses only (necessary conditions). Trusted: CPython ast, the "
         "IR schema read from ir_data.py, the rule/exclusion tables in /verif/sa/rules (each entry one symbol + reason). ")
claim("C12", "Exact decision, over every site, of: named-node-kind exhaustiveness of symbol-table registration, dependency "
      "naming and reserved-word checks (R-NAMEDKINDS); no-precedence / ambiguity / visibility discipline of the scope "
      "search (R-NOPRECEDENCE); privacy of abbreviations (R-ABBREV); by-name parameter availability of every resolver "
      "traversal on every IR path (R-TRAVPARAM).",
      _NOTE + "Not decided: that the bound target is the intended one for arbitrary scope trees.",
      "schema-typed traversal availability analysis + who-may-read / loop-exit lints")
claim("C13", "Exact decision of: operator signature table = documented signatures (R-OPSIG); every expression position has a "
      "positional requirement (R-POSCHECK); requirements apply to roots only (R-ROOTONLY); single type-equality judgment "
      "(R-TYPEEQ); validators guard oneof alternatives (R-VALIDATORGUARD); closed chains and FunctionMapping tables "
      "exhaustive (R-DISPATCH, R-DISPATCH-FM); no orphaned validator (R-VALIDATORS).",
      _NOTE + "Not decided: acceptance of every well-typed module; message locations.",
      "exhaustiveness / dominance lints over the AST, typed by the IR schema")
claim("C14", "Exact decision of: attribute name/scope/type table agreement front end and C++ back end (R-ATTRTABLE); compared "
      "values within validated sets, byte orders backed by runtime classes (R-ATTRVALUES); all validators registered and "
      "reachable with floors (R-VALIDATORS); reserved-word check on every named kind (R-NAMEDKINDS).",
      _NOTE + "Not decided: boundary constants in individual validators; the converse direction.",
      "table agreement + call-graph reachability")
claim("C15", "Exact decision of: pass order and error discipline of the pipeline (R-PIPE); identical dependency extraction for "
      "cycle detection and ordering (R-DEPTWIN); dependency naming for every value-bearing named kind (R-NAMEDKINDS); "
      "consumers iterate fields_in_dependency_order (R-DEPORDER).",
      _NOTE + "Not decided: correctness of the SCC algorithm and of the greedy ordering.",
      "pass-order / sibling-traversal agreement lints")
claim("C16", "Exact decision of: traversal parameter availability on all IR paths (R-TRAVPARAM); exhaustiveness of closed "
      "chains and FunctionMapping tables with machine-checked exclusions (R-DISPATCH, R-DISPATCH-FM); rejection "
      "coverage of builtin words (R-FILTERCOVER); handler arity (R-HANDLER); first-contact guards and asserts "
      "(R-VALIDATORGUARD, R-FIRSTCONTACT-ASSERT); file-name role typing and format arity (R-STRROLE, R-FORMATARITY); "
      "passes return lists, pipeline splits/defers errors (R-PASSRET, R-PIPE). Five genuine findings are listed in "
      "known_findings.txt and printed as KNOWN-FINDING.",
      _NOTE + "Not decided: absence of every other exception on arbitrary text; message rendering.",
      "product-graph availability analysis, member-set flow analysis, schema-typed role lint")
claim("C17", "Exact decision of: no order-sensitive consumption of hash-ordered values (R-UNORDERED, set-typing inference with "
      "sanitisers and tabled exceptions); inventory of call-time module state equals the confirmed list, cache keyed by "
      "(text, file), counter private (R-GLOBALSTATE); no clock/random/pid/env/identity input (R-IMPURE).",
      _NOTE + "Set typing is an under-approximation (untyped containers are not followed). Not decided: byte-identity of "
      "whole outputs.",
      "unordered-iteration taint analysis + global-state inventory")
claim("C05", "Exact decision of: direction typing of every minimum/maximum assignment of the transfer functions for + - * ?: "
      "$max by abstract interpretation per operator (R-BOUNDDIR), operand coverage of modulus/modular_value (R-OPERANDS), "
      "operator meaning in constant folders and source-token tables incl. three-valued AND/OR/?: (R-CONSTFOLD), operator "
      "table exhaustiveness (R-DISPATCH-FM), registration and exemptions of the 64-bit gate (R-GATE).",
      _NOTE + "Not decided: gcd/modulus formulas, leaf ranges, infinity arithmetic helpers, tightness.",
      "abstract interpretation (Lo/Hi bound-direction lattice) of the transfer functions")
claim("C10", "Exact decision of: documented = implemented pattern tables in order, terminal/symbol agreement (R-TOKTABLE); skipped "
      "patterns are whitespace-only and no pattern matches empty, on the regex AST (R-TOKSKIP); strict-greater tie-break "
      "and literal-first order (R-TOKTIE); token text/columns/advance as linear forms over {offset, len(match)} "
      "(R-TOKPOS); Indent/Dedent pairing with the stack per block and epilogue (R-INDENT).",
      _NOTE + "Not decided: longest-match result on every string; name/number classification beyond table equality.",
      "table agreement + regex-AST check + linear-form evaluation of column arithmetic")
claim("C11", "Exact decision of: one formatter per production with matching arity (R-GRAMMAR-EQ, R-HANDLER); no formatter drops "
      "a child that can derive a non-blank token (R-FMTLINEAR, def-use closure; 22 blank drops + 1 tabled); in-place "
      "write dominated by the self-check and skipped on failure (R-FMTGUARD); self-check compares symbol and text "
      "(R-FMTSELFCHECK).",
      _NOTE + "Not decided: idempotence, layout passes, never-raises.",
      "def-use flow analysis of formatters against the grammar + dominance lint")
claim("C18", "Exact decision of: every leaf type of the IR schema has inverse conversions and supported annotation shapes "
      "(R-SERIALTYPES); SourceLocation text form is inverted flag by flag in reverse order (R-SRCLOC); one-process and "
      "two-process drivers use the same entry points, Config and to_json/from_json(EmbossIr) (R-DRIVERS).",
      _NOTE + "Not decided: equality of arbitrary IRs after a round trip; header identity.",
      "schema-driven converter exhaustiveness + driver entry-point agreement")
for _p in ["C01","C02","C03","C04","C06","C07","C19","C20"]:
    na(_p, "check under construction in this session (see DESIGN.md section 4 for the planned structural clauses)")
