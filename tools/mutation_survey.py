"""Blind-spot survey: generic syntactic mutants of /repo's Python sources run against all quick checks.

Not a check and not registered in MANIFEST.json: a development tool that tells which functions of the
compiler no rule looks at.  For each sampled mutant (one operator applied at one ast node) the tool
  1. applies it in a scratch worktree (never in /repo), runs every quick check with EMBOSS_REPO set;
  2. if no check fires, runs the pinned pytest suite with -x to see whether the existing tests kill it.
Mutants that survive both are printed for review (most are equivalent; the rest are candidate rules).

usage: mutation_survey.py [--files a.py,b.py] [--per-function 2] [--jobs 8] [--seed 0] [--out survey.json]
       mutation_survey.py --list            # only count the candidates
"""
import argparse
import ast
import concurrent.futures as cf
import hashlib
import json
import os
import random
import shutil
import subprocess
import sys
import tempfile

VERIF = os.path.dirname(os.path.dirname(os.path.abspath(__file__)))
ALL = [f"C{n:02d}" for n in range(1, 21) if n != 8]
DEFAULT_FILES = [
    "compiler/front_end/attribute_checker.py", "compiler/front_end/constraints.py",
    "compiler/front_end/dependency_checker.py", "compiler/front_end/expression_bounds.py",
    "compiler/front_end/format_emb.py", "compiler/front_end/glue.py", "compiler/front_end/lr1.py",
    "compiler/front_end/module_ir.py", "compiler/front_end/symbol_resolver.py",
    "compiler/front_end/synthetics.py", "compiler/front_end/tokenizer.py", "compiler/front_end/type_check.py",
    "compiler/front_end/write_inference.py", "compiler/front_end/emboss_front_end.py",
    "compiler/back_end/cpp/header_generator.py", "compiler/back_end/cpp/emboss_codegen_cpp.py",
    "compiler/util/attribute_util.py", "compiler/util/error.py", "compiler/util/ir_util.py",
    "compiler/util/ir_data_utils.py", "compiler/util/ir_data_fields.py", "compiler/util/name_conversion.py",
    "compiler/util/parser_types.py", "compiler/util/traverse_ir.py", "compiler/util/resources.py",
    "compiler/util/expression_parser.py",
]
CMP = {ast.Lt: "<=", ast.LtE: "<", ast.Gt: ">=", ast.GtE: ">", ast.Eq: "!=", ast.NotEq: "==",
       ast.Is: "is not", ast.IsNot: "is", ast.In: "not in", ast.NotIn: "in"}


def _seg(src_lines, node):
    if node.lineno != node.end_lineno:
        return None
    return src_lines[node.lineno - 1][node.col_offset:node.end_col_offset]


def candidates(path, text):
    """Yields (function, operator, lineno, col, end_col, replacement)."""
    tree = ast.parse(text)
    lines = text.split("\n")
    # ast columns are utf-8 byte offsets; the compiler sources are ASCII on the lines we touch.
    out = []

    def visit(node, fn):
        if isinstance(node, (ast.FunctionDef, ast.AsyncFunctionDef)):
            fn = node.name if fn is None else fn + "." + node.name
        for child in ast.iter_child_nodes(node):
            visit(child, fn)
        if fn is None:
            return
        if isinstance(node, ast.Compare) and len(node.ops) == 1 and node.lineno == node.end_lineno:
            left, right = node.left, node.comparators[0]
            if left.end_lineno == right.lineno == node.lineno:
                new = CMP.get(type(node.ops[0]))
                if new:
                    out.append((fn, "cmp", node.lineno, left.end_col_offset, right.col_offset, " " + new + " "))
        elif isinstance(node, ast.BoolOp) and node.lineno == node.end_lineno and len(node.values) == 2:
            a, b = node.values
            new = " or " if isinstance(node.op, ast.And) else " and "
            out.append((fn, "bool", node.lineno, a.end_col_offset, b.col_offset, new))
        elif isinstance(node, ast.UnaryOp) and isinstance(node.op, ast.Not) and node.lineno == node.end_lineno:
            out.append((fn, "not", node.lineno, node.col_offset, node.operand.col_offset, ""))
        elif isinstance(node, ast.BinOp) and isinstance(node.op, (ast.Add, ast.Sub)) and node.lineno == node.end_lineno:
            if node.left.end_lineno == node.right.lineno == node.lineno and not isinstance(node.left, ast.Constant) \
                    or isinstance(getattr(node.left, "value", None), int):
                new = " - " if isinstance(node.op, ast.Add) else " + "
                gap = lines[node.lineno - 1][node.left.end_col_offset:node.right.col_offset]
                if gap.strip() in "+-" and gap.strip():
                    out.append((fn, "arith", node.lineno, node.left.end_col_offset, node.right.col_offset, new))
        elif isinstance(node, ast.Constant) and type(node.value) is int and 0 <= node.value <= 64 \
                and node.lineno == node.end_lineno:
            out.append((fn, "const", node.lineno, node.col_offset, node.end_col_offset, str(node.value + 1)))
        elif isinstance(node, ast.Expr) and isinstance(node.value, ast.Call) and node.lineno == node.end_lineno:
            out.append((fn, "delcall", node.lineno, node.col_offset, node.end_col_offset, "pass"))
        elif isinstance(node, (ast.Continue, ast.Break)):
            out.append((fn, "deljump", node.lineno, node.col_offset, node.end_col_offset, "pass"))
        elif isinstance(node, ast.If) and node.test.lineno == node.test.end_lineno:
            seg = _seg(lines, node.test)
            if seg is not None:
                out.append((fn, "negif", node.test.lineno, node.test.col_offset, node.test.end_col_offset,
                            "not (" + seg + ")"))
        elif isinstance(node, ast.Call) and len(node.args) >= 2 and node.lineno == node.end_lineno \
                and all(isinstance(a, (ast.Name, ast.Attribute)) for a in node.args[:2]):
            a, b = node.args[:2]
            sa, sb = _seg(lines, a), _seg(lines, b)
            if sa and sb and sa != sb:
                mid = lines[node.lineno - 1][a.end_col_offset:b.col_offset]
                out.append((fn, "swapargs", node.lineno, a.col_offset, b.end_col_offset, sb + mid + sa))

    visit(tree, None)
    return out


def apply(text, cand):
    fn, op, line, c0, c1, new = cand
    lines = text.split("\n")
    l = lines[line - 1]
    lines[line - 1] = l[:c0] + new + l[c1:]
    return "\n".join(lines)


def run_one(rel, cand, with_tests):
    scratch = tempfile.mkdtemp(prefix="verif_survey_", dir="/tmp")
    repo = os.path.join(scratch, "repo")
    try:
        subprocess.run(["git", "-C", "/repo", "worktree", "add", "-q", "--detach", repo, "HEAD"], check=True,
                       capture_output=True)
        path = os.path.join(repo, rel)
        text = open(path).read()
        mutated = apply(text, cand)
        try:
            compile(mutated, rel, "exec")
        except SyntaxError:
            return {"status": "syntax"}
        open(path, "w").write(mutated)
        env = dict(os.environ, EMBOSS_REPO=repo, VERIF_EVIDENCE_DIR=os.path.join(scratch, "ev"),
                   VERIF_REPLAY_DIR=os.path.join(scratch, "rp"))
        procs = {p: subprocess.Popen([os.path.join(VERIF, "check"), p, "--tier", "quick"], env=env, cwd=VERIF,
                                     stdout=subprocess.PIPE, stderr=subprocess.STDOUT, text=True) for p in ALL}
        fired, broken, keys = [], [], []
        for p, pr in procs.items():
            pr.communicate()
            if pr.returncode == 1:
                fired.append(p)
                rp = os.path.join(scratch, "rp", f"{p}.quick.json")
                if os.path.exists(rp):
                    keys += [f["key"] for f in json.load(open(rp))][:2]
            elif pr.returncode != 0:
                broken.append(p)
        res = {"fired": fired, "broken": broken, "keys": keys[:4]}
        if fired:
            res["status"] = "caught"
        elif broken:
            res["status"] = "analysis-error"
        elif with_tests:
            own = rel[:-3] + "_test.py"
            sel = [f for f in (own, "compiler/front_end/glue_test.py", "compiler/back_end/cpp/header_generator_test.py")
                   if os.path.exists(os.path.join(repo, f))]
            base = ["/venv/bin/python", "-m", "pytest", "-x", "-q", "-p", "no:cacheprovider", "--timeout=900"]
            t = subprocess.run(base + sel, cwd=repo, capture_output=True, text=True)
            tail = t.stdout.strip().splitlines()[-1] if t.stdout.strip() else ""
            if t.returncode == 0 and with_tests == "full":
                t = subprocess.run(base + ["--continue-on-collection-errors",
                                           "--deselect", "compiler/front_end/cached_parser_is_up_to_date_test.py",
                                           "--ignore", "compiler/back_end/cpp/one_golden_test.py",
                                           "--ignore", "compiler/back_end/cpp/run_one_golden_test.py"],
                                   cwd=repo, capture_output=True, text=True)
                tail = t.stdout.strip().splitlines()[-1] if t.stdout.strip() else ""
            res["tests"] = tail
            res["status"] = "survived" if t.returncode == 0 else "tests-kill"
        else:
            res["status"] = "unchecked"
        return res
    finally:
        subprocess.run(["git", "-C", "/repo", "worktree", "remove", "--force", repo], capture_output=True)
        shutil.rmtree(scratch, ignore_errors=True)


def main():
    ap = argparse.ArgumentParser()
    ap.add_argument("--files", default="")
    ap.add_argument("--per-function", type=int, default=2)
    ap.add_argument("--jobs", type=int, default=6)
    ap.add_argument("--seed", type=int, default=0)
    ap.add_argument("--ops", default="")
    ap.add_argument("--functions", default="")
    ap.add_argument("--tests", default="own", choices=["none", "own", "full"])
    ap.add_argument("--list", action="store_true")
    ap.add_argument("--out", default="/tmp/verif_survey.json")
    a = ap.parse_args()
    files = a.files.split(",") if a.files else DEFAULT_FILES
    ops = set(a.ops.split(",")) if a.ops else None
    fns = set(a.functions.split(",")) if a.functions else None
    rng = random.Random(a.seed)
    jobs = []
    for rel in files:
        text = open(os.path.join("/repo", rel)).read()
        by_fn = {}
        for c in candidates(rel, text):
            if ops and c[1] not in ops:
                continue
            if fns and c[0].split(".")[0] not in fns and c[0] not in fns:
                continue
            by_fn.setdefault(c[0], []).append(c)
        n = 0
        for fn, cs in sorted(by_fn.items()):
            rng.shuffle(cs)
            for c in cs[:a.per_function]:
                jobs.append((rel, c))
                n += 1
        print(f"{rel}: {sum(map(len, by_fn.values()))} candidates in {len(by_fn)} functions, sampled {n}")
    print("total sampled:", len(jobs))
    if a.list:
        return 0
    results = []
    with cf.ThreadPoolExecutor(max_workers=a.jobs) as ex:
        futs = {ex.submit(run_one, rel, c, None if a.tests == "none" else a.tests): (rel, c) for rel, c in jobs}
        for fu in cf.as_completed(futs):
            rel, c = futs[fu]
            r = fu.result()
            line = open(os.path.join("/repo", rel)).read().split("\n")[c[2] - 1].strip()
            rec = {"file": rel, "function": c[0], "op": c[1], "line": c[2], "text": line,
                   "new": c[5].strip(), **r}
            results.append(rec)
            print(f"{r['status']:14s} {rel}:{c[2]} {c[0]} [{c[1]} -> {c[5].strip()!r}] {r.get('fired', '')} "
                  f"{r.get('broken') or ''} :: {line[:90]}", flush=True)
            json.dump(results, open(a.out, "w"), indent=1)
    subprocess.run(["git", "-C", "/repo", "worktree", "prune"], capture_output=True)
    tally = {}
    for r in results:
        tally[r["status"]] = tally.get(r["status"], 0) + 1
    print("TALLY", tally)
    return 0


if __name__ == "__main__":
    sys.exit(main())
