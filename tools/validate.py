"""Validates MANIFEST.json and evidence/*.json against the harness schemas (python3-vt has jsonschema)."""
import glob, json, sys
import jsonschema
ok = True
m = json.load(open('/verif/MANIFEST.json'))
jsonschema.validate(m, json.load(open('/root/.vp/MANIFEST.schema.json')))
print("MANIFEST ok:", len(m['checks']), "checks")
es = json.load(open('/root/.vp/EVIDENCE.schema.json'))
for p in sorted(glob.glob('/verif/evidence/*.json')):
    try:
        jsonschema.validate(json.load(open(p)), es)
        print("ok", p)
    except Exception as e:
        ok = False
        print("BAD", p, str(e)[:300])
sys.exit(0 if ok else 1)
