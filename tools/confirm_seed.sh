#!/bin/bash
# confirm_seed.sh <seed dir with patch.diff + demo.*> : confirms the seed in a scratch worktree (never touches /repo)
set -u
SEED="$1"
S=$(mktemp -d /tmp/verif_confirm_XXXX)
git -C /repo worktree add -q --detach "$S/repo" HEAD || exit 2
DEMO=$(ls "$SEED"/demo.* | head -1)
run_demo() { case "$DEMO" in *.py) /venv/bin/python "$DEMO" "$1";; *) bash "$DEMO" "$1";; esac; }
echo "== demo on unchanged scratch copy"; run_demo "$S/repo" > "$S/d0.log" 2>&1; echo "exit=$?"; tail -2 "$S/d0.log"
echo "== apply patch"; git -C "$S/repo" apply --whitespace=nowarn "$SEED/patch.diff" && echo applied
echo "== demo with patch"; run_demo "$S/repo" > "$S/d1.log" 2>&1; echo "exit=$?"; tail -3 "$S/d1.log"
if [ "${2:-}" != "--no-tests" ]; then
echo "== test suite with patch"; (cd "$S/repo" && /venv/bin/python -m pytest -q -p no:cacheprovider --timeout=900 --continue-on-collection-errors 2>&1 | tail -1)
fi
git -C /repo worktree remove --force "$S/repo"; rm -rf "$S"; git -C /repo worktree prune
