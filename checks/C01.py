"""C01 — generated views report structure state and values as the .emb defines (structural clauses)."""
from checks.common import Ctx
from sa.report import Check
from sa.rules import flow_rules as FLW
from sa.rules import backend as B
from sa.rules import bounds_rules as R
from sa.rules import cpp_rules as C
from sa.rules import ranges as RG
from sa.rules import synth_rules as SY
from sa.rules import maybe_rules as MB
from sa.rules import window_rules as WN
from sa.rules import cpp_rules as CC
from sa.rules import traversal as TV


def main(tier):
    cx = Ctx(tier)
    chk = Check(
        "C01", tier,
        explanation=(
            "Decides structural necessary conditions of the source-to-view semantics: one operator keeps one meaning "
            "from the source token through the IR enum, the Python constant folders, the C++ function name emitted by "
            "the generator, the function template in emboss_arithmetic.h, the *Operation functor it forwards to and "
            "the binary operator in the functor's Do() (R-CONSTFOLD for the Python half, R-OPCHAIN on the clang AST for "
            "the C++ half; MaximumOperation orientation included); $-field names agree between grammar, tokenizer, "
            "synthetics and the C++ name table (R-DOLLAR); And/Or/Choice over Maybe<> have the documented three-valued truth tables on the whole finite domain, with the Maybe accessors read from emboss_maybe.h, and MaybeDo is strict (R-KLEENE); the field accessor returns a real view only under "
            "has_field ∧ offset/size known ∧ non-negative, passes (offset, size) in that order and otherwise returns "
            "the null view (R-ACCESSOR); existence/Ok checks and text I/O follow fields_in_dependency_order "
            "(R-DEPORDER) and every path of the Ok() grouping loop records the field in a group that is emitted (R-OKCOVER); the expressions synthesised for $size_in_*, $max/min_size_in_*, $next and anonymous-bits aliases "
            "have the documented shape (`$max(0, exists ? start + size : 0, ...)` over every non-virtual field, upper/lower "
            "bound of the size in the same unit) and each placeholder of a skeleton is filled with the quantity it names "
            "(R-SYNTH); every runtime name the generator emits exists (R-RTSYMS); the C++ type in which an operation is "
            "carried out is chosen from the ranges of the result and of every operand (R-INTERMEDIATE) and each C++ integer "
            "type is selected exactly for the value range it holds (R-INTRANGE, constant folding of the range tests). "
            "Not decided: offset/size arithmetic, size = max end, parameters, [requires], prefix-monotonicity."),
        assumptions=["clang 14 front end parses the runtime headers as the target compilers do"])
    r = cx.repo
    chk.run("R-CONSTFOLD", R.constfold, r, floor=30)
    chk.run("R-OPCHAIN", C.opchain_cpp, r, cx.cpp, floor=20)
    chk.run("R-KLEENE", MB.kleene, cx.cpp, floor=36)
    chk.run("R-OKTABLE", MB.oktable, cx.cpp, cx.templates, floor=8)
    chk.run("R-MIRROR", CC.mirror, cx.cpp, floor=8)
    chk.run("R-ELEMLOOP", WN.elemloops, cx.cpp, floor=5)
    chk.run("R-ARRAYELEM", WN.arrayelem, cx.cpp, floor=6)
    chk.run("R-DOLLAR", B.dollar, r, floor=10)
    chk.run("R-ACCESSOR", B.accessor, r, floor=5)
    chk.run("R-DEPORDER", B.deporder, r, clauses=("ok",), floor=3)
    chk.run("R-OKCOVER", B.okcover, r, floor=3)
    chk.run("R-RTSYMS", C.rtsyms, r, cx.cpp, cx.templates, floor=10)
    chk.run("R-SYNTH", SY.synth, r, floor=12)
    chk.run("R-NEXTPREV", SY.nextprev, r, floor=1)
    chk.run("R-INCIDENTAL-PURE", TV.incidental_pure, r, cx.schema, cx.sites, floor=8)
    chk.run("R-INTERMEDIATE", RG.intermediate, r, floor=2)
    chk.run("R-RENDERCONST", RG.renderconst, r, floor=30)
    chk.run("R-INTRANGE", RG.intrange, r, parts=('backend',), floor=4)
    chk.run("R-SUBWINDOW", WN.subwindow, cx.cpp, floor=2)
    chk.run("R-CONSTPRESENT", B.constpresent, cx.repo, cx.templates, floor=1)
    chk.run("R-SWITCHFIT", B.switchfit, cx.repo, floor=1)
    chk.run("R-CHOICETYPE", B.choicetype, cx.repo, cx.cpp, floor=2)
    chk.run("R-PARAMCOPY", B.paramcopy, cx.repo, cx.templates, floor=3)
    chk.run("R-LOOPACC", FLW.loopacc, cx.repo, floor=10, modules=("compiler/back_end/cpp/header_generator.py",))
    chk.run("R-VIRTOK", B.virtok, cx.repo, floor=2)
    chk.run("R-ARRAYOK", WN.arrayok, cx.cpp, floor=2)
    chk.run("R-CHOICECONST", R.choiceconst, cx.repo, floor=2)
    chk.run("R-MAXARGS", CC.maxargs, cx.repo, floor=60)
    return chk.finish()
