"""C10 — tokenization is lossless, position-accurate and classifies as documented (structural clauses)."""
from checks.common import Ctx
from sa.report import Check
from sa.rules import tokenizer_rules as K


def main(tier):
    cx = Ctx(tier)
    chk = Check(
        "C10", tier,
        explanation=(
            "Decides structural necessary conditions on tokenizer.py: the implemented pattern tables (pattern, symbol, "
            "order) equal the documented tables and every grammar terminal is producible / every emitted symbol is a "
            "terminal or a documented catch-all (R-TOKTABLE); patterns that emit no token match whitespace only and no "
            "pattern matches the empty string, decided on the regex AST (R-TOKSKIP); the best candidate is replaced only "
            "on strictly greater length and literals are tried before regexes (R-TOKTIE); as linear forms over "
            "{offset, len(match)}: patterns are matched at line[offset:], token text is the match, start column is "
            "offset+1, end-start is len(match), and offset advances by exactly len(match) once per iteration "
            "(R-TOKPOS); indent-stack pushes/pops pair with Indent/Dedent emissions in every block, the epilogue emits "
            "one Dedent per open level and both line kinds end in a newline token (R-INDENT). "
            "Not decided: longest-match results on every string; name/number classification beyond table equality."))
    r = cx.repo
    chk.run("R-TOKTABLE", K.toktable, r, floor=55)
    chk.run("R-NUMEXAMPLES", K.numexamples, r, floor=12)
    chk.run("R-NAMEREGEX", K.nameregex, r, floor=3)
    chk.run("R-RESERVEDPREFIX", K.reservedprefix, r, floor=9)
    chk.run("R-TOKSKIP", K.tokskip, r, floor=60)
    chk.run("R-TOKTIE", K.toktie, r, floor=3)
    chk.run("R-TOKPOS", K.tokpos, r, floor=4)
    chk.run("R-INDENT", K.indent, r, floor=10)
    chk.run("R-LINESPLIT", K.linesplit, r, side="tokenizer", floor=1)
    return chk.finish()
