"""C09 — the shipped parser tables are the parser of the documented grammar."""
from sa import grammar as G
from sa.pyfacts import Repo
from sa.report import Check
from sa.rules import grammar_rules as GR
from sa.rules import lr1_rules as L
from sa.rules import unordered as U


def main(tier):
    repo = Repo()
    chk = Check(
        "C09", tier, level="translation_validation",
        explanation=(
            "Translation validation of the generated artefact cached_parser.py: productions are extracted "
            "from the @_handles/@_formats decorators, doc/grammar.md and the cached file (evaluated from its "
            "AST, never executed); an independently written canonical LR(1) construction builds the automaton "
            "of the source grammar and a BFS bijection compares every action/goto cell of both shipped parsers; "
            "error cells are re-derived by tokenising error_examples with the extracted pattern tables and "
            "simulating the extracted tables. The canonical LR(1) collection is unique up to state numbering, "
            "so isomorphism implies identical accept/reject decisions, parse trees and error positions on every "
            "token sequence; cell-for-cell equality of error codes implies identical messages."),
        assumptions=[
            "lr1.Parser.parse is the textbook shift/reduce driver over these tables (read, not re-verified here)",
            "the checker's own LR(1) construction (sa/lr1ref.py) is correct; it shares no code with lr1.py",
        ])
    ir = G.ir_grammar(repo)
    cp = G.CachedParser(repo)
    chk.run("R-GRAMMAR-EQ", GR.grammar_eq, repo, floor=1000, control=lambda: GR.control_grammar_eq(repo))
    chk.run("R-HANDLER", GR.handler_arity, repo, floor=370, control=lambda: GR.control_handler(repo))
    iso = chk.run("R-LR1TABLE", L.isomorphism, repo, cp, ir, floor=24000,
                  control=lambda: L.control_iso(repo, cp, ir))
    err = chk.run("R-ERRCODES", L.error_codes, repo, cp, floor=250)
    chk.run("R-MARKERROR", L.markerror, repo, floor=5)
    chk.run("R-EXAMPLEFILE", L.examplefile, repo, floor=5)
    chk.run("R-DOCEXAMPLES", L.docexamples, repo, cp, floor=50)
    chk.run("R-LOADER", GR.loader, repo, floor=4)
    chk.run("R-CONFLICT", GR.conflict, repo, floor=2)
    # parser objects built in one process (module parser, then expression parser) must not share tables
    chk.run("R-MUTDEFAULT", U.mutdefault, repo, rel_suffixes=("front_end/lr1.py", "front_end/parser.py", "front_end/generate_cached_parser.py"),
            floor=25, control=lambda: U.control_mutdefault(repo))
    programs = sum(v.get("cached_states_matched", 0) for v in iso.detail.values()) + err.detail.get("examples", 0)
    chk.extra_coverage.update({
        "programs": max(programs, 1),
        "disagreements_checked": sum(r.instances for r in chk.results),
        "states": sum(v.get("reference_states", 0) for v in iso.detail.values()),
    })
    return chk.finish()
