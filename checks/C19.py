"""C19 — enum names, values and C++ representation (structural clauses)."""
from checks.common import Ctx
from sa.report import Check
from sa.rules import backend as B
from sa.rules import validators as V
from sa.rules import traversal as T
from sa.rules import ranges as RG
from sa.rules import nameconv_rules as NC
from sa.rules import cpp_rules as CC
from sa.rules import cpprange as CRX


def main(tier):
    cx = Ctx(tier)
    chk = Check(
        "C19", tier,
        explanation=(
            "Decides structural necessary conditions: the templates that render `case` labels for TryToGetNameFromEnum "
            "and EnumIsKnown are instantiated only under `value not in seen` with the seen-set updated on the same path "
            "— the first-declared-name rule and the absence of duplicate case labels (R-CASEDEDUP); names are matched by a whole-string comparison against the declared literal "
            "(R-EXACTNAME); every advertised "
            "enum_case spelling has a conversion registered from SHOUTY_CASE (R-ENUMCASE); enumerator values reach the "
            "header only through _render_integer, which handles the 64-bit edge values (R-RENDERINT); EnumView "
            "instantiates for every underlying type and width (R-WIDTHS); enum values are required to be numeric "
            "(R-POSCHECK); enum values are admitted exactly within the range of a signed/unsigned integer of maximum_bits bits, "
            "maximum_bits within 1..64, and the C++ underlying type is the first fixed-width type with at least maximum_bits "
            "bits (R-BOUNDARY, R-INTRANGE). Not decided: name/value maps for arbitrary enums."))
    r = cx.repo
    chk.run("R-CASEDEDUP", B.casededup, r, floor=3)
    chk.run("R-ENUMCASE", B.enumcase, r, floor=2)
    chk.run("R-NAMEARMS", B.namearms, r, floor=1)
    chk.run("R-ENUMTEXT", CC.enumtext, cx.cpp, floor=2, clauses=("decode",))
    chk.run("R-CASECONV", NC.caseconv, r, floor=1000)
    chk.run("R-ENUMINFER", V.enuminfer, r, floor=4)
    chk.run("R-EXACTNAME", B.exactname, r, floor=2)
    chk.run("R-TEXTNAME", B.textname, r, floor=2)
    chk.run("R-RENDERINT", B.renderint, r, floor=100)
    chk.run("R-RENDERCONST", RG.renderconst, r, floor=30)
    chk.run("R-WIDTHS", lambda: cx.widths, floor=3000)
    chk.run("R-POSCHECK", V.poscheck, r, cx.schema, cx.sites, only=("EnumValue.",), floor=9)
    chk.run("R-BOUNDARY", RG.boundary, r, floor=130)
    chk.run("R-INTRANGE", RG.intrange, r, parts=('backend',), floor=4)
    chk.run("R-CHARSTREAM", B.charstream, cx.templates, floor=1)
    chk.run("R-ENUMUNIQUE", B.enumunique, cx.repo, floor=2)
    # "enum fields accept any in-range value": the three conjuncts of EnumView::CouldWriteValue, folded with C++ semantics
    chk.run("R-CPPRANGE", CRX.cpprange, cx.cpp, parts=("enum",), floor=300)
    # `[(cpp) $default enum_case]` is scoped by the defaults table the back end's traversal carries
    chk.run("R-INCIDENTAL-PURE", T.incidental_pure, cx.repo, cx.schema, cx.sites, site_modules=("back_end/cpp/header_generator.py",), floor=1)
    return chk.finish()
