"""C15 — dependency cycles rejected, field order respects dependencies (structural clauses)."""
from checks.common import Ctx
from sa.report import Check
from sa.rules import backend as B
from sa.rules import pipeline as P
from sa.rules import traversal as T
from sa.rules import dep_rules as DR


def main(tier):
    cx = Ctx(tier)
    chk = Check(
        "C15", tier,
        explanation=(
            "Decides structural necessary conditions: cycle detection runs after symbol resolution and before every "
            "pass that recurses through references, and a pass with user-visible errors ends the pipeline (R-PIPE); "
            "cycle detection and ordering extract dependencies with the identical traversal — same action, skip set, "
            "incidental actions and parameters (R-DEPTWIN); the dependent object is named for every value-bearing "
            "named node kind (R-NAMEDKINDS, dependency-naming clause); the consumers of the order (text encode/decode, "
            "Ok checks) iterate fields_in_dependency_order (R-DEPORDER). Not decided: correctness of the SCC "
            "algorithm and of the greedy stable ordering (loops over run-time graphs)."))
    r, s = cx.repo, cx.schema
    chk.run("R-PIPE", P.pipe, r, floor=12, control=lambda: P.control_pipe(r))
    chk.run("R-TOPOGUARD", DR.topoguard, r, floor=8)
    chk.run("R-TARJAN", DR.tarjan, r, floor=10, order_clause=False)
    chk.run("R-SELFIMPORT", DR.selfimport, r, floor=2)
    chk.run("R-DEPTWIN", P.deptwin, r, s, cx.sites, floor=2)
    chk.run("R-SKIPLOSS", T.skiploss, r, s, cx.sites, modules=("dependency_checker.py",), floor=4)
    chk.run("R-TRAVROOT", T.travroot, r, s, cx.sites, modules=("dependency_checker.py",), floor=4)
    chk.run("R-NAMEDKINDS", P.namedkinds, r, s, cx.sites, floor=10)
    chk.run("R-DEPORDER", B.deporder, r, clauses=("text", "ok"), floor=3)
    chk.run("R-CYCLEPATH", DR.cyclepath, cx.repo, floor=2)
    chk.run("R-EDGEACC", DR.edgeacc, cx.repo, cx.schema, cx.sites, floor=3)
    chk.run("R-ALIASEDGE", DR.aliasedge, cx.repo, floor=2)
    chk.run("R-ORDEREDGES", DR.orderedges, cx.repo, cx.schema, cx.sites, floor=2)
    return chk.finish()
