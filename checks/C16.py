"""C16 — the compiler is total (structural clauses)."""
from checks.common import Ctx
from sa.report import Check
from sa.rules import backend as BK
from sa.rules import resolve_rules as RR
from sa.rules import dispatch as D
from sa.rules import grammar_rules as GR
from sa.rules import pipeline as P
from sa.rules import schematype as S
from sa.rules import tokenizer_rules as K
from sa.rules import synth_rules as SY
from sa.rules import ranges as RG
from sa.rules import bounds_rules as BR
from sa.rules import flow_rules as FL
from sa.rules import traversal as T
from sa.rules import validators as V


def main(tier):
    cx = Ctx(tier)
    chk = Check(
        "C16", tier,
        explanation=(
            "Decides structural necessary conditions of totality on every module reachable from the entry points: "
            "traversal actions always receive their by-name parameters on every IR shape (R-TRAVPARAM: product graph "
            "of the IR containment graph extracted from ir_data.py and pattern progress, exact cut-set test); every "
            "alternative of every closed if/elif chain (one that ends in assert False/raise) and of every subscripted "
            "FunctionMapping table is handled or excluded with a machine-checked reason (R-DISPATCH, R-DISPATCH-FM: "
            "member sets propagated through branches, asserts and calls); builtin words a later stage cannot handle are "
            "rejected at every expression position (R-FILTERCOVER); grammar handlers match their productions "
            "(R-HANDLER); first-contact attribute code guards every oneof alternative and does not assert on "
            "unverified input (R-VALIDATORGUARD, R-FIRSTCONTACT-ASSERT); IR nodes never stand in for file names and "
            "literal format strings are fully supplied (R-STRROLE, R-FORMATARITY); code that inspects a parse error's token reads "
            "only fields that both real tokens and the end-of-input marker have, or guards the access (R-TOKENSHAPE); passes return lists on every path "
            "and the pipeline splits, early-exits and defers errors (R-PASSRET, R-PIPE). "
            "Not decided: absence of every other exception on arbitrary text."),
        assumptions=["call resolution is by module/name (no dynamic dispatch on the compile path besides the "
                     "traversal and handler registries, which are modelled)"])
    r, s = cx.repo, cx.schema
    chk.run("R-TRAVPARAM", T.travparam, r, s, cx.sites, floor=150, control=lambda: T.control_travparam(r))
    dctl = D.control(r)
    chk.run("R-DISPATCH", D.closed_chain_rule, r, s, floor=60, control=lambda: dctl)
    chk.run("R-DISPATCH-FM", D.fm_flow_rule, r, s, floor=30, control=lambda: dctl)
    chk.run("R-FILTERCOVER", D.filtercover, r, s, cx.sites, floor=3)
    chk.run("R-HANDLER", GR.handler_arity, r, floor=370, control=lambda: GR.control_handler(r))
    chk.run("R-VALIDATORGUARD", V.validatorguard, r, s, floor=7, control=lambda: V.control(r))
    chk.run("R-FIRSTCONTACT-ASSERT", V.first_contact_asserts, r, floor=8)
    sctl = S.control(r)
    chk.run("R-STRROLE", S.strrole, r, s, floor=100, control=lambda: sctl)
    chk.run("R-FORMATARITY", S.formatarity, r, floor=100, control=lambda: sctl)
    chk.run("R-PASSRET", P.passret, r, floor=12, control=lambda: P.control_passret(r))
    chk.run("R-PIPE", P.pipe, r, floor=12, control=lambda: P.control_pipe(r))
    chk.run("R-TOKENSHAPE", S.tokenshape, r, floor=3)
    chk.run("R-FOREIGNFILE", S.foreignfile, r, floor=8)
    chk.run("R-SYNTHMARK", SY.synthmark, r, floor=10)
    chk.run("R-NEGEXP", RG.negexp, r, floor=3)
    chk.run("R-SYNTHLOC", P.synthloc, r, s, cx.sites, floor=1)
    chk.run("R-TEXTREAD", S.textread, r, floor=1)
    chk.run("R-SNIPPETGUARD", S.snippetguard, r, floor=1)
    chk.run("R-BOUNDINF", BR.boundinf, r, floor=1)
    chk.run("R-ERRSINK", P.errsink, r, floor=20)
    chk.run("R-ASSERTEFFECT", FL.asserteffect, r, floor=100)
    chk.run("R-LINESPLIT", K.linesplit, r, side="printer", floor=1)
    chk.run("R-REFKIND", RR.refkind, r, s, floor=10)
    chk.run("R-TYPEANNOT", FL.typeannot, cx.repo, floor=14)
    chk.run("R-ONEOFGUARD", RR.oneofguard, cx.repo, floor=25)
    chk.run("R-EARLYASSERT", V.earlyassert, cx.repo, floor=250)
    chk.run("R-CONSTNONE", V.constnone, cx.repo, floor=2)
    chk.run("R-ATTRAGREE", V.attragree, cx.repo, floor=5)
    chk.run("R-PRECOND", FL.precond, cx.repo, floor=3)
    chk.run("R-ELEMSIZE", V.elemsize, cx.repo, cx.schema, cx.sites, clauses=("none", "zero", "negative"), floor=4)
    chk.run("R-ANONHOME", SY.anonhome, cx.repo, floor=1)
    chk.run("R-INFGUARD", BR.infguard, cx.repo, floor=6)
    chk.run("R-REFHEAD", RR.refhead, cx.repo, floor=1)
    chk.run("R-ATTRBACKEND", V.attrbackend, cx.repo, floor=6)
    chk.run("R-LEAFCHECK", SY.leafcheck, cx.repo, floor=2)
    chk.run("R-INTDIGITS", P.intdigits, cx.repo, floor=1)
    chk.run("R-BOUNDMEMO", BR.boundmemo, cx.repo, floor=6)
    chk.run("R-CONSTREFKIND", RR.constrefkind, cx.repo, floor=2)
    chk.run("R-SHAREDERR", P.sharederr, cx.repo, floor=60)
    chk.run("R-FOUNDLOC", P.foundloc, cx.repo, floor=5)
    chk.run("R-POWCAP", BR.powcap, cx.repo, floor=8)
    chk.run("R-BOUNDORDER", BR.boundorder, cx.repo, floor=2)
    chk.run("R-ALIASATTR", SY.aliasattr, cx.repo, clauses=("attribute_clauses", "anonymous_own"), floor=3)
    chk.run("R-EXTINT", BR.extint, cx.repo, floor=2)
    chk.run("R-FIELDREADER", BK.fieldreader, cx.repo, floor=6)
    chk.run("R-LOCFLAGS", P.locflags, cx.repo, floor=5, control=lambda: P.control_locflags(cx.repo))
    return chk.finish()
