"""C06 — text format output reads back to the same structure (structural clauses)."""
from checks.common import Ctx
from sa.report import Check
from sa.rules import synth_rules as SYN
from sa.rules import backend as B
from sa.rules import cpp_rules as C
from sa.rules import pipeline as P
from sa.rules import schematype as S
from sa.rules import validators as V
from sa.rules import dep_rules as DR


def main(tier):
    cx = Ctx(tier)
    chk = Check(
        "C06", tier,
        explanation=(
            "Decides structural necessary conditions: the generator's tests of the text_output attribute compare values "
            "of the right type (an IR message is never compared with a literal — R-SCHEMACMP, typed by the IR schema) "
            "and of the validated domain (R-ATTRVALUES: 'Emit'/'Skip'); emission and decoding lists are built only in "
            "loops over fields_in_dependency_order (R-DEPORDER) and the order used for cycle detection is the order "
            "used for emission (R-DEPTWIN); every method the text templates call on a field view "
            "(UpdateFromTextStream, WriteToTextStream, IsAggregate, Ok) exists on every view kind (R-IFACE); the overflow "
            "guard of the text integer decoder depends on every operand of the accumulating update it protects — "
            "accumulator, base and the incoming digit — a necessary condition for rejecting exactly the overflowing "
            "numbers (R-GUARDDEPS); what the array writer puts after an element is what the array reader accepts there, in each output mode (R-ARRAYSEP: one known finding); aliases of anonymous-bits members are ordered by more than the first component of their reference (R-ALIASDEPS: one known finding); sibling text-format templates that place a name inside a C string literal (writer and reader of field names and enum names) are given the same name expression by the generator (R-TEXTNAME). "
            "Not decided: integer text encode/decode inverse, whole-structure round trip, option combinations."))
    r, s = cx.repo, cx.schema
    sctl = S.control(r)
    chk.run("R-SCHEMACMP", S.schemacmp, r, s, floor=15, control=lambda: sctl)
    chk.run("R-ATTRVALUES", V.attrvalues, r, floor=4)
    chk.run("R-DEPORDER", B.deporder, r, clauses=("text",), floor=3)
    chk.run("R-TEXTNAME", B.textname, r, floor=2)
    chk.run("R-TOPOGUARD", DR.topoguard, r, floor=6)
    chk.run("R-DEPTWIN", P.deptwin, r, s, cx.sites, floor=2)
    chk.run("R-IFACE", C.iface, cx.cpp, cx.templates, floor=80)
    chk.run("R-GUARDDEPS", C.guarddeps, cx.cpp, floor=2)
    chk.run("R-INTTEXT", C.inttext, cx.cpp, floor=25)
    chk.run("R-DIGITSEEN", C.digitseen, cx.cpp, floor=3)
    chk.run("R-CONSTWRITE", B.constwrite, cx.repo, floor=5)
    chk.run("R-LOWESTDIGIT", C.lowestdigit, cx.cpp, floor=12)
    chk.run("R-ENUMTEXT", C.enumtext, cx.cpp, floor=3)
    chk.run("R-ARRAYSEP", C.arraysep, cx.cpp, floor=3)
    chk.run("R-ALIASDEPS", DR.aliasdeps, r, floor=2)
    chk.run("R-FLOATTEXT", C.floattext, cx.repo, floor=3)
    chk.run("R-SUBSTRSPAN", C.substrspan, cx.repo, floor=1)
    chk.run("R-TEXTPAIR", B.textpair, cx.repo, cx.templates, cx.cpp, floor=4)
    chk.run("R-ALIASATTR", SYN.aliasattr, cx.repo, clauses=("carry",), floor=3)
    chk.run("R-WSAGREE", C.wsagree, cx.cpp, floor=2)
    return chk.finish()
