"""CLI: ./check Cnn [--tier quick|thorough] [--replay path]"""
import argparse
import importlib
import json
import os
import sys
import traceback

HERE = os.path.dirname(os.path.abspath(__file__))
sys.path.insert(0, os.path.dirname(HERE))


def main(argv):
    ap = argparse.ArgumentParser()
    ap.add_argument("prop")
    ap.add_argument("--tier", default=os.environ.get("VERIF_TIER", "quick"),
                    choices=["quick", "thorough"])
    ap.add_argument("--replay", default=None)
    args = ap.parse_args(argv)
    prop = args.prop.upper()
    if args.replay:
        try:
            for f in json.load(open(args.replay)):
                print(f"[{f['rule']}] {f['file']}:{f['line']} {f['function']}: {f['message']} (key={f['key']})")
        except Exception as e:
            print(f"cannot read replay file: {e}")
        print("replay: re-running the check against the current tree")
    try:
        mod = importlib.import_module(f"checks.{prop}")
    except ModuleNotFoundError:
        print(f"ANALYSIS-ERROR property={prop} no such check")
        return 2
    except Exception as e:  # a broken checker is an analysis error, not a violation
        traceback.print_exc()
        print(f"ANALYSIS-ERROR property={prop} checker does not load: {type(e).__name__}: {e}")
        return 2
    try:
        return mod.main(args.tier)
    except Exception as e:  # never let a traceback masquerade as a violation
        traceback.print_exc()
        print(f"ANALYSIS-ERROR property={prop} internal error {type(e).__name__}: {e}")
        return 2


if __name__ == "__main__":
    sys.exit(main(sys.argv[1:]))
