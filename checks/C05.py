"""C05 — inferred integer bounds are sound (structural clauses)."""
from checks.common import Ctx
from sa.report import Check
from sa.rules import bounds_rules as R
from sa.rules import dispatch as D
from sa.rules import pipeline as P
from sa.rules import cpp_rules as CPR
from sa.rules import ranges as RG
from sa.rules import resolve_rules as RR


def main(tier):
    cx = Ctx(tier)
    chk = Check(
        "C05", tier,
        explanation=(
            "Decides structural necessary conditions of bound soundness: each transfer function of expression_bounds "
            "is interpreted abstractly, per operator (the ADD/SUB swap of rmin/rmax is followed path-sensitively), and "
            "the value stored into minimum_value must type as a lower bound and maximum_value as an upper bound under "
            "the interval rules Lo+Lo, Lo-Hi, min over all four Lo/Hi products, min of lows (?:), max of lows ($max) "
            "and their duals, using the bounds of every value operand (R-BOUNDDIR); modulus and modular_value depend "
            "on the corresponding attributes of every operand (R-OPERANDS); the constant folders and the source-token "
            "tables give each operator its own meaning, including the three-valued AND/OR/?: cases (R-CONSTFOLD); "
            "every operator has a transfer function and every FunctionMapping table reached by an operator has its "
            "key (R-DISPATCH-FM); the 64-bit gate is registered over every expression position with only the "
            "documented exemptions and recurses into subexpressions (R-GATE); the C++ type generated arithmetic is carried out in is chosen from the ranges of the result and of every operand, the back-end half of 'fits one 64-bit type together with its operands' (R-INTERMEDIATE). "
            "leaf ranges of UInt/Int/Bcd fields and the gate's 64-bit predicates equal the exact value ranges of those types for "
            "every width 1..64 (R-INTRANGE, by constant folding). "
            "Not decided: the gcd/modulus formulas, the infinity arithmetic helpers, tightness."))
    r, s = cx.repo, cx.schema
    chk.run("R-BOUNDDIR", R.bounddir, r, s, floor=10, control=lambda: R.control(r))
    chk.run("R-OPERANDS", R.operands, r, s, floor=8)
    chk.run("R-COMMSYM", R.commsym, r, floor=2)
    chk.run("R-CONSTFOLD", R.constfold, r, floor=30)
    dctl = D.control(r)
    chk.run("R-DISPATCH-FM", D.fm_flow_rule, r, s, floor=30, control=lambda: dctl)
    chk.run("R-GATE", P.gate, r, s, cx.sites, floor=4)
    chk.run("R-INTRANGE", RG.intrange, r, floor=190)
    chk.run("R-INTERMEDIATE", RG.intermediate, r, floor=2)
    chk.run("R-RENDERCONST", RG.renderconst, r, floor=30)
    chk.run("R-PATHEND", RR.pathend, r, floor=2, modules=("compiler/front_end/expression_bounds.py",))
    chk.run("R-CONSTAGREE", R.constagree, cx.repo, floor=3)
    chk.run("R-MODCOMBINE", R.modcombine, cx.repo, floor=4)
    chk.run("R-CHOICECONST", R.choiceconst, cx.repo, floor=2)
    chk.run("R-MAXARGS", CPR.maxargs, cx.repo, floor=60)
    return chk.finish()
