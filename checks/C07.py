"""C07 — every module the compiler accepts yields a header that compiles (structural clauses)."""
from checks.common import Ctx
from sa.report import Check
from sa.rules import bounds_rules as BRX
from sa.rules import backend as B
from sa.rules import window_rules as WN
from sa.rules import cpp_rules as C
from sa.rules import pipeline as P
from sa.rules import ranges as RG
from sa.rules import validators as VX


def main(tier):
    cx = Ctx(tier)
    chk = Check(
        "C07", tier,
        explanation=(
            "Decides structural necessary conditions of header well-formedness: every format_template call supplies "
            "every placeholder of every template it may denote and every referenced template exists (R-TEMPLATE); "
            "every ::emboss::… name the templates or the generator's string literals emit is declared by the runtime "
            "(R-RTSYMS); templates that render `case` labels are instantiated only under a seen-set guard "
            "(R-CASEDEDUP); generated member names cannot collide with user-spellable names — member schemas of the "
            "view class against the tokenizer's name languages minus reserved words, with concrete witnesses (R-SPELL; "
            "six known findings); every width the front end admits instantiates under c++11/14/17 and widths outside "
            "are refused by a static_assert (R-WIDTHS); sibling view signatures are callable (R-SIBLING) and every "
            "method the templates call exists on every view kind (R-IFACE); reserved words are rejected for all named "
            "kinds (R-NAMEDKINDS); integer literals reach C++ only through _render_integer (R-RENDERINT); supported "
            "enum cases have conversions (R-ENUMCASE); the C++ integer type chosen for a constant or expression holds exactly the "
            "range it is chosen for, and the front end's width limits equal the runtime's (R-INTRANGE, R-BOUNDARY). Not decided: well-formedness for every accepted program."))
    r, s = cx.repo, cx.schema
    chk.run("R-TEMPLATE", B.template_rule, r, floor=80)
    chk.run("R-RTSYMS", C.rtsyms, r, cx.cpp, cx.templates, floor=10)
    chk.run("R-CASEDEDUP", B.casededup, r, floor=3)
    chk.run("R-SPELL", B.spell, r, floor=10)
    chk.run("R-WIDTHS", lambda: cx.widths, floor=3000)
    chk.run("R-SIBLING", C.sibling, cx.cpp, only_kinds=("missing", "undeducible"), floor=80, control=lambda: cx.cpp_control)
    chk.run("R-IFACE", C.iface, cx.cpp, cx.templates, floor=80)
    chk.run("R-NAMEDKINDS", P.namedkinds, r, s, cx.sites, floor=10)
    chk.run("R-RENDERINT", B.renderint, r, floor=100)
    chk.run("R-ENUMCASE", B.enumcase, r, floor=2)
    chk.run("R-NSPARSE", B.nsparse, r, floor=1)
    chk.run("R-DEPORDER", B.deporder, r, clauses=("decl",), floor=3)
    chk.run("R-SLOTAGREE", B.slotagree, r, floor=20)
    chk.run("R-HEADERGUARD", B.headerguard, r, floor=1)
    chk.run("R-PACKFORWARD", WN.packforward, cx.cpp, floor=3)
    chk.run("R-ALIASCTOR", B.aliasctor, r, floor=3)
    chk.run("R-INTRANGE", RG.intrange, r, parts=('backend',), floor=4)
    chk.run("R-BOUNDARY", RG.boundary, r, only_wider=True, floor=130)
    chk.run("R-TEXTSIG", B.textsig, r, cx.templates, floor=2)
    chk.run("R-TEXTPAIR", B.textpair, cx.repo, cx.templates, cx.cpp, floor=4)
    chk.run("R-SWITCHFIT", B.switchfit, cx.repo, floor=1)
    chk.run("R-CHOICETYPE", B.choicetype, cx.repo, cx.cpp, floor=2)
    chk.run("R-STORAGEIFACE", C.storageiface, cx.cpp, cx.templates, floor=12)
    chk.run("R-PARAMVIS", B.paramvis, cx.repo, cx.templates, floor=1)
    chk.run("R-CROSSFRIEND", B.crossfriend, cx.repo, cx.templates, floor=5)
    chk.run("R-RESUBREPL", B.resubrepl, cx.repo, floor=3)
    chk.run("R-ELEMSTORAGE", B.elemstorage, cx.repo, cx.cpp, floor=2)
    chk.run("R-ENUMUNIQUE", B.enumunique, cx.repo, floor=2)
    chk.run("R-CONSTAGREE", BRX.constagree, cx.repo, floor=3)
    chk.run("R-SUBBYTE", VX.subbyte, cx.repo, floor=3)
    chk.run("R-INCLUDENAME", B.includename, cx.repo, floor=3)
    chk.run("R-ARRAYSTORAGE", C.arraystorage, cx.repo, floor=12)
    chk.run("R-CONSTWRITE", B.constwrite, cx.repo, floor=5)
    chk.run("R-CXX11CONSTEXPR", C.cxx11constexpr, cx.repo, floor=40)
    chk.run("R-QUALNS", B.qualns, cx.repo, floor=2)
    chk.run("R-FIELDREADER", B.fieldreader, cx.repo, floor=6)
    return chk.finish()
