"""C03 — field writes are range-checked, read back exactly, touch only their own bits (structural clauses)."""
from checks.common import Ctx
from sa.report import Check
from sa.rules import cpp_rules as C
from sa.rules import write_rules as W


def main(tier):
    cx = Ctx(tier)
    chk = Check(
        "C03", tier,
        explanation=(
            "Decides structural necessary conditions: in every scalar view and in the generated virtual-field write "
            "template, no storage write precedes the CouldWriteValue and IsComplete guards, Write is TryToWrite plus a "
            "check, and the six sibling views agree on the shape of the write interface (R-SIBLING); the storage "
            "expression written by TryToWrite equals the one written by UncheckedWrite modulo casts (R-TWIN); the "
            "inverse synthesised for `let x = y + c`, `y - c`, `c - y` is the algebraic inverse, decided by evaluating "
            "the constructed Function(op, args) as a linear form over {value, other} (R-INVERSE); the virtual write "
            "template tests CouldWriteValue before forwarding and forwards the transformed value (R-VWRITE). "
            "Not decided: exact accept/reject boundaries, neighbour-bit preservation."))
    chk.run("R-SIBLING", C.sibling, cx.cpp, floor=80, control=lambda: cx.cpp_control)
    chk.run("R-TWIN", C.twin, cx.cpp, floor=40)
    chk.run("R-INVERSE", W.inverse, cx.repo, floor=3, control=lambda: W.control(cx.repo))
    chk.run("R-VWRITE", W.vwrite, cx.repo, cx.templates, floor=3)
    return chk.finish()
