"""C03 — field writes are range-checked, read back exactly, touch only their own bits (structural clauses)."""
from checks.common import Ctx
from sa.report import Check
from sa.rules import resolve_rules as RR
from sa.rules import cpp_rules as C
from sa.rules import write_rules as W
from sa.rules import window_rules as WN
from sa.rules import cpprange as CR
from sa.rules import backend as B


def main(tier):
    cx = Ctx(tier)
    chk = Check(
        "C03", tier,
        explanation=(
            "Decides structural necessary conditions: in every scalar view and in the generated virtual-field write "
            "template, no storage write precedes the CouldWriteValue and IsComplete guards, Write is TryToWrite plus a "
            "check, and the six sibling views agree on the shape of the write interface (R-SIBLING); the storage "
            "expression written by TryToWrite equals the one written by UncheckedWrite modulo casts (R-TWIN); the "
            "inverse synthesised for `let x = y + c`, `y - c`, `c - y` is the algebraic inverse, decided by evaluating "
            "the constructed Function(op, args) as a linear form over {value, other} (R-INVERSE); the virtual write "
            "template tests CouldWriteValue before forwarding and forwards the transformed value (R-VWRITE); a virtual field is made a plain alias only on paths where it was found to carry no [requires] of its own (R-ALIASGUARD, guard dominance); every OffsetBitBlock method that touches the underlying block applies the window's offset_ (R-WINDOW). "
            "The constants CouldWriteValue compares the value with (UIntView, IntView, BcdView via MaxBcd, EnumView) are folded with a typed C++ constant folder (promotions, conversions, modular arithmetic, undefined behaviour reported) for every width 1..64 and equal the language-level ranges; the masks of MaskToNBits and OffsetBitBlock::MaskInValue are folded for every (width, offset, size) and keep exactly the bits outside the field (R-CPPRANGE). "
            "Not decided: the value-dependent parts (Parameters::ValueIsOk, the conversions ConvertToBcd/ConvertToSigned), byte-level effects."))
    chk.run("R-SIBLING", C.sibling, cx.cpp, methods=('TryToWrite', 'Write', 'UncheckedWrite'), floor=80, control=lambda: cx.cpp_control)
    chk.run("R-TWIN", C.twin, cx.cpp, floor=40)
    chk.run("R-INVERSE", W.inverse, cx.repo, floor=3, control=lambda: W.control(cx.repo))
    chk.run("R-VWRITE", W.vwrite, cx.repo, cx.templates, floor=3)
    chk.run("R-ALIASGUARD", W.aliasguard, cx.repo, floor=1)
    chk.run("R-WINDOW", WN.window, cx.cpp, floor=5)
    chk.run("R-NARROWARG", C.narrowarg, cx.cpp, floor=9)
    chk.run("R-VIRTNARROW", B.virtnarrow, cx.repo, floor=5)
    chk.run("R-ARRAYSTORAGE", C.arraystorage, cx.repo, floor=12)
    chk.run("R-NARROWLIT", CR.narrowlit, cx.cpp, skip=r"IsBcd|ConvertToBinary|^Read|UncheckedRead", floor=10)
    chk.run("R-LOOPCOVER", CR.loopcover, cx.cpp, methods=("ConvertToBcd",), floor=64)
    chk.run("R-CPPRANGE", CR.cpprange, cx.cpp, floor=2000)
    chk.run("R-MIRROR", C.mirror, cx.cpp, floor=8)
    chk.run("R-SHIFTOPERAND", C.shiftoperand, cx.cpp, floor=9)
    chk.run("R-PATHEND", RR.pathend, cx.repo, floor=2, modules=("compiler/front_end/write_inference.py",))
    chk.run("R-BYTEPATH", C.bytepath, cx.repo, floor=70, side="write")
    return chk.finish()
