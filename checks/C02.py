"""C02 — scalar fields decode with the documented byte order, bit numbering and format (structural clauses)."""
from checks.common import Ctx
from sa.report import Check, RuleResult
from sa.rules import cpp_rules as C
from sa.rules import window_rules as WN
from sa.rules import cpprange as CR


def main(tier):
    cx = Ctx(tier)
    chk = Check(
        "C02", tier,
        explanation=(
            "Decides two structural necessary conditions for every legal configuration at once: (R-WIDTHS) a generated "
            "translation unit explicitly instantiates UIntView/IntView/BcdView for every width prelude.emb admits "
            "(1..64), in every container size 8..64 through BitBlock and OffsetBitBlock with the little-endian, "
            "big-endian and null byte orderers, FloatView for 32/64, FlagView, EnumView over all eight fixed-width "
            "underlying types, with static_asserts that ValueType has at least the field's width and the declared "
            "signedness and that Float value types are float/double; clang -fsyntax-only must accept it under each "
            "standard with shift-count / integer-overflow / division-by-zero diagnostics as errors, and must refuse "
            "companion units with widths 65, Float:16, Flag:2 and a 72-bit BitBlock by a static_assert (positive "
            "control). (R-TWIN, R-MIRROR) checked and unchecked read paths compute the same expression once checks are "
            "removed, and the little/big-endian orderers and buffer accessors are mirror images; (R-WINDOW) every method of a window class (data member offset_) that touches the underlying block applies offset_, directly or through its own helpers. "
            "Not decided: bit numbering, masks, sign extension, BCD and float decoding values."),
        assumptions=["no value is computed by constexpr evaluation; only type-level facts and constant-operand "
                     "diagnostics of clang are used"])
    chk.run("R-WIDTHS", lambda: cx.widths, floor=3000)
    chk.run("R-TWIN", C.twin, cx.cpp, floor=40, control=lambda: cx.cpp_control)
    chk.run("R-MIRROR", C.mirror, cx.cpp, floor=8)
    chk.run("R-WINDOW", WN.window, cx.cpp, floor=5)
    chk.run("R-SIGNEXT", C.signext, cx.cpp, floor=4)
    chk.run("R-NARROWLIT", CR.narrowlit, cx.cpp, skip=r"Write|MaskInValue|ConvertToBcd", floor=10)
    chk.run("R-BCDMASK", CR.bcdmasks, cx.cpp, floor=4)
    chk.run("R-SIGNCONV", CR.signconv, cx.cpp, floor=500)
    chk.run("R-LOOPCOVER", CR.loopcover, cx.cpp, methods=("ConvertToBinary",), floor=64)
    chk.run("R-CPPRANGE", CR.cpprange, cx.cpp, parts=("mask",), floor=260)
    chk.run("R-SUBWINDOW", WN.subwindow, cx.cpp, floor=2)
    chk.run("R-BYTEPATH", C.bytepath, cx.repo, floor=70, side="read")
    return chk.finish()
