"""C18 — the IR survives serialization; split and in-process pipelines agree (structural clauses)."""
from checks.common import Ctx
from sa.report import Check
from sa.rules import serial_rules as R
from sa.rules import schematype as ST
from sa.rules import flow_rules as FL


def main(tier):
    cx = Ctx(tier)
    chk = Check(
        "C18", tier,
        explanation=(
            "Decides structural necessary conditions: every leaf type used by an IR dataclass field (enumerated from "
            "ir_data.py) is JSON-native, an int-derived enum, or has a conversion branch in both _to_dict and "
            "_from_dict; every annotation has a shape the field-spec builder understands; unset is tested with "
            "`is not None` in both directions (R-SERIALTYPES); SourceLocation.from_str strips the flag characters "
            "__str__ appends, in reverse order, with the same flag/character mapping (R-SRCLOC), and no other function encodes the flags with one suffix dependent on the other flag being clear or with different characters (R-LOCENCODE, scan of every function that reads a flag and holds a flag character); embossc reaches "
            "parsing and generation only through the entry points the split drivers use, with the identical Config "
            "construction, and the split drivers are connected by IrDataSerializer(ir).to_json() / "
            "from_json(ir_data.EmbossIr, ...) (R-DRIVERS). Not decided: equality of arbitrary IRs after a round trip."))
    r, s = cx.repo, cx.schema
    chk.run("R-SERIALTYPES", R.serialtypes, r, s, floor=40, control=lambda: R.control(r))
    chk.run("R-COPYTYPE", ST.copytype, r, s, floor=8)
    chk.run("R-SRCLOC", R.srcloc, r, floor=4)
    chk.run("R-LOCENCODE", R.locencode, r, floor=1)
    chk.run("R-DRIVERS", R.drivers, r, floor=6)
    chk.run("R-DRIVERFLAGS", R.driverflags, r, floor=4)
    chk.run("R-ASSERTEFFECT", FL.asserteffect, r, floor=100)
    chk.run("R-ENUMCONV", R.enumconv, cx.repo, floor=2)
    chk.run("R-SERIALFILTER", R.serialfilter, cx.repo, floor=2)
    return chk.finish()
