"""C17 — compilation is a pure function of its input files (structural clauses)."""
from checks.common import Ctx
from sa.report import Check
from sa.rules import serial_rules as SRL
from sa.rules import dep_rules as DRX
from sa.rules import unordered as U
from sa.rules import synth_rules as SY


def main(tier):
    cx = Ctx(tier)
    chk = Check(
        "C17", tier,
        explanation=(
            "Decides three necessary structural clauses of determinism on every module reachable from the four "
            "entry points: (R-UNORDERED) no value whose iteration order depends on the hash seed (set/frozenset, "
            "dicts seeded from them; typed by a repository-specific inference over literals, constructors, set "
            "algebra, attributes, namedtuple fields, parameters and return summaries) is consumed in an "
            "order-sensitive way unless sanitised (sorted/min/max/len/any/all/set) or tabled with a reason; "
            "(R-GLOBALSTATE) the inventory of module-level state written at call time equals the confirmed list, "
            "the parse cache is keyed by (text, file name) and hands out copies, the anonymous-name counter is read "
            "only by the name generator; (R-IMPURE) no clock/random/pid/environment/identity input. "
            "Not decided: byte-identity of whole outputs (a runtime question)."),
        assumptions=["set typing is an under-approximation: a set that reaches an iteration through an untyped "
                     "container is not seen", "dict iteration order is insertion order (CPython >= 3.7)"])
    ctl = U.control(cx.repo)
    chk.run("R-UNORDERED", U.unordered, cx.repo, floor=12, control=lambda: ctl)
    chk.run("R-GLOBALSTATE", U.globalstate, cx.repo, floor=8, control=lambda: ctl)
    chk.run("R-IMPURE", U.impure, cx.repo, floor=30, control=lambda: ctl)
    chk.run("R-SKELMUT", SY.skelmut, cx.repo, floor=5)
    chk.run("R-SERIALFILTER", SRL.serialfilter, cx.repo, floor=2)
    chk.run("R-MUTDEFAULT", U.mutdefault, cx.repo, floor=300, control=lambda: U.control_mutdefault(cx.repo))
    if tier == "thorough":
        # whole repository (tooling scripts, generators) as a cross-reference; findings outside the
        # compile path are notes, not violations
        from sa.pyfacts import Repo
        allmods = [m for m in cx.repo.modules.values()]
        extra = U.unordered(cx.repo, [m for m in allmods if m not in cx.repo.compile_path_modules()])
        extra.rule = "R-UNORDERED(tooling,notes-only)"
        for f in extra.findings:
            extra.notes.append(str(f))
        extra.findings = []
        chk.results.append(extra)
    chk.run("R-TARJAN", DRX.tarjan, cx.repo, floor=3, order_only=True)
    chk.run("R-NATSORT", DRX.natsort, cx.repo, floor=3)
    return chk.finish()
