"""C14 — physical layout and attribute rules (structural clauses)."""
from checks.common import Ctx
from sa.report import Check
from sa.rules import pipeline as P
from sa.rules import ranges as RG
from sa.rules import traversal as T
from sa.rules import flow_rules as FL
from sa.rules import validators as V
from sa.rules import bounds_rules as BRX


def main(tier):
    cx = Ctx(tier)
    chk = Check(
        "C14", tier,
        explanation=(
            "Decides structural necessary conditions of rule enforcement: attribute name / scope / type tables agree "
            "in the front end and in the C++ back end, every scope set is handed to the checker and every attribute "
            "constant read by a pass is admitted somewhere (R-ATTRTABLE); string values that consumers compare "
            "against are admitted by the validating sets and every admitted byte order has a runtime ByteOrderer "
            "(R-ATTRVALUES); every constraint / attribute / type validator function is reachable from a compiler "
            "pass, with per-module floors (R-VALIDATORS); the reserved-word check covers every named node kind "
            "(R-NAMEDKINDS); scoped traversal parameters such as the $default attribute table are never mutated in place by the "
            "actions that override them, so a default set in one scope cannot leak into siblings (R-INCIDENTAL-PURE); the documented boundary predicates — maximum_bits in 1..64, `bits` types at most 64 bits (and the "
            "runtime BitBlock limit equal to it), enum fields of 1..maximum_bits bits, enum values within the exact range of "
            "a signed/unsigned integer of maximum_bits bits for every width — are folded from the source and compared with "
            "the documented intervals (R-BOUNDARY), as are the value ranges of UInt/Int/Bcd (R-INTRANGE). "
            "Not decided: the remaining validators' arithmetic; the converse (acceptance of every realisable module)."))
    r, s = cx.repo, cx.schema
    chk.run("R-ATTRTABLE", V.attrtable, r, floor=80)
    chk.run("R-ATTRKEY", V.attrkey, r, floor=3)
    chk.run("R-ZEROFALSY", V.zerofalsy, r, floor=20, control=lambda: V.control_zerofalsy(r))
    chk.run("R-VERIFYEXIT", V.verifyexit, r, floor=2)
    chk.run("R-ATTRVALUES", V.attrvalues, r, floor=4)
    chk.run("R-BYTEORDERREQ", V.byteorderreq, r, floor=29)
    chk.run("R-PHYSREQ", V.physreq, r, s, cx.sites, floor=2)
    chk.run("R-VALIDATORS", P.validators, r, floor=40)
    chk.run("R-NAMEDKINDS", P.namedkinds, r, s, cx.sites, floor=10)
    chk.run("R-INCIDENTAL-PURE", T.incidental_pure, r, s, cx.sites, floor=8)
    chk.run("R-RUNMAX", FL.runmax, r, modules=("attribute_checker.py", "constraints.py"), floor=1)
    chk.run("R-DEADFLAG", FL.deadflag, r, modules=("constraints.py", "attribute_checker.py", "attribute_util.py"), floor=1)
    chk.run("R-SKIPLOSS", T.skiploss, r, s, cx.sites, modules=("constraints.py", "attribute_checker.py"), floor=2)
    chk.run("R-TRAVROOT", T.travroot, r, s, cx.sites, modules=("constraints.py", "attribute_checker.py"), floor=5)
    chk.run("R-BOUNDARY", RG.boundary, r, floor=130)
    chk.run("R-INTRANGE", RG.intrange, r, parts=('gate', 'leaf'), floor=150)
    chk.run("R-ATTRAGREE", V.attragree, cx.repo, floor=5)
    chk.run("R-TYPEREACH", T.typereach, cx.repo, cx.schema, cx.sites, floor=4)
    chk.run("R-ELEMSIZE", V.elemsize, cx.repo, cx.schema, cx.sites, floor=4)
    chk.run("R-NULLORDER", V.nullorder, cx.repo, floor=8)
    chk.run("R-BITSFIELD", V.bitsfield, cx.repo, floor=2)
    chk.run("R-SUBBYTE", V.subbyte, cx.repo, floor=3)
    chk.run("R-BOUNDORDER", BRX.boundorder, cx.repo, floor=2)
    chk.run("R-NEGLOC", V.negloc, cx.repo, cx.schema, cx.sites, floor=2)
    chk.run("R-ATTRBACKEND", V.attrbackend, cx.repo, floor=6)
    chk.run("R-BITSFIXED", V.bitsfixed, cx.repo, floor=2)
    chk.run("R-DOCWORDS", V.docwords, cx.repo, floor=500)
    return chk.finish()
