"""C04 — checked view operations never leave the buffer or hit UB (structural clauses)."""
from checks.common import Ctx
from sa.report import Check
from sa.rules import backend as B
from sa.rules import cpp_rules as C
from sa.rules import pipeline as P
from sa.rules import ranges as RG
from sa.rules import window_rules as WN
from sa.rules import cpprange as CRX
from sa.rules import validators as VX
from sa.rules import bounds_rules as BR


def main(tier):
    cx = Ctx(tier)
    chk = Check(
        "C04", tier,
        explanation=(
            "Decides structural necessary conditions: methods that must never abort (Ok, IsComplete, CouldWriteValue, "
            "TryToWrite, TryToCopyFrom, SizeIsKnown, has_x, UpdateFromTextStream; runtime classes and generated "
            "templates) call an aborting callee — any method whose body contains an EMBOSS_CHECK, any Unchecked* "
            "operation, memcpy/memmove — only behind a guard: a preceding check or early return, the right side of &&, "
            "a ?: arm or an enclosing if (R-NOABORT, callee set computed from the AST); the sibling views agree on "
            "their guards, in particular `other.Ok() &&` in TryToCopyFrom (R-SIBLING); the accessor yields the null view "
            "when the location is unknown or negative (R-ACCESSOR); buffer copy is memmove behind Ok/size tests "
            "(R-COPY); no constant-amount bad shift, constant overflow or division by zero in any legal instantiation "
            "(R-WIDTHS); the 64-bit gate covers every run-time expression position and never declares an expression in range "
            "before all of its checks ran (R-GATE); the range tests that select int32/uint32/int64/uint64 for generated "
            "arithmetic, the gate's 64-bit fit predicates and the leaf ranges of UInt/Int/Bcd equal the language-level "
            "ranges of those types for every width (R-INTRANGE), and the intermediate type covers result and operands "
            "(R-INTERMEDIATE). "
            "The static (alignment, offset) claimed for a sub-buffer depends on the parent's and on the relative alignment and offset (R-SUBALIGN, dependency of each template argument); the overflow guard of the text integer decoder depends on every operand of the update it protects, so UpdateFromText cannot overflow a signed accumulator (R-GUARDDEPS); the size of a sub-buffer handed out by ContiguousBuffer::GetOffsetStorage is the smaller of the request and what is left of the parent, with the unsigned difference guarded against wrap-around (R-CLAMP). "
            "Not decided: absence of out-of-bounds access for all buffers and dynamic offsets; correctness of the alignment arithmetic itself."))
    chk.run("R-NOABORT", C.noabort, cx.cpp, cx.templates, floor=12, control=lambda: cx.cpp_control)
    chk.run("R-SIBLING", C.sibling, cx.cpp, methods=('Ok', 'IsComplete', 'TryToWrite', 'TryToCopyFrom'), floor=80, control=lambda: cx.cpp_control)
    chk.run("R-ACCESSOR", B.accessor, cx.repo, floor=5)
    chk.run("R-COPY", C.copy_rule, cx.cpp, cx.templates, floor=6)
    chk.run("R-WIDTHS", lambda: cx.widths, floor=3000)
    chk.run("R-COMMSYM", BR.commsym, cx.repo, floor=2)
    chk.run("R-MODCOMBINE", BR.modcombine, cx.repo, floor=4)
    chk.run("R-GATE", P.gate, cx.repo, cx.schema, cx.sites, floor=4)
    chk.run("R-INTRANGE", RG.intrange, cx.repo, floor=190)
    chk.run("R-INTERMEDIATE", RG.intermediate, cx.repo, floor=2)
    chk.run("R-GUARDDEPS", C.guarddeps, cx.cpp, floor=2)
    chk.run("R-INTTEXT", C.inttext, cx.cpp, only=("buffer",), floor=25)
    chk.run("R-SUBALIGN", WN.subalign, cx.cpp, floor=2)
    chk.run("R-CLAMP", WN.clamp, cx.cpp, floor=3)
    chk.run("R-ALIGNCHECK", WN.aligncheck, cx.repo, floor=2)
    chk.run("R-ARRAYOK", WN.arrayok, cx.cpp, floor=2)
    chk.run("R-SELFCONTAIN", VX.selfcontain, cx.repo, floor=3)
    # undefined behaviour (full-width shifts, signed overflow) in the constants and masks of the checked write path
    chk.run("R-CPPRANGE", CRX.cpprange, cx.cpp, ub_only=True, floor=2000)
    chk.run("R-ELEMSIZE", VX.elemsize, cx.repo, cx.schema, cx.sites, clauses=("zero", "huge"), floor=3)
    chk.run("R-ARRAYELEM", WN.arrayelem, cx.cpp, floor=6)
    chk.run("R-MIRROR", C.mirror, cx.cpp, floor=8)
    chk.run("R-PARTIALGUARD", C.partialguard, cx.repo, cx.templates, floor=4)
    chk.run("R-NARROWSTORE", C.narrowstore, cx.repo, floor=2)
    return chk.finish()
