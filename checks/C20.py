"""C20 — CopyFrom and Equals implement logical copy and equality (structural clauses)."""
from checks.common import Ctx
from sa.report import Check
from sa.rules import validators as VX
from sa.rules import backend as B
from sa.rules import cpp_rules as C
from sa.rules import maybe_rules as MB
from sa.rules import window_rules as WN


def main(tier):
    cx = Ctx(tier)
    chk = Check(
        "C20", tier,
        explanation=(
            "Decides structural necessary conditions: generated Equals/UncheckedEquals receive one clause per physical "
            "field and per runtime parameter, in lockstep, with the matching template, and the only filter is `not "
            "field_is_virtual` (R-EQLOCKSTEP); the scalar views agree on Equals/CopyFrom/TryToCopyFrom and their "
            "unchecked twins (R-SIBLING, R-TWIN) and those methods exist on every view kind that can appear in a "
            "structure, parameters included (R-IFACE); ContiguousBuffer copies with memmove(dst, src, size) behind both "
            "Ok() and both size tests, and the structure's TryToCopyFrom is `other.Ok() && backing_.TryToCopyFrom(…, "
            "other's intrinsic size)` (R-COPY). Not decided: byte-level post-conditions, symmetry on arbitrary buffers."))
    chk.run("R-EQLOCKSTEP", B.eqlockstep, cx.repo, floor=4)
    chk.run("R-ELEMLOOP", WN.elemloops, cx.cpp, floor=5)
    chk.run("R-PACKFORWARD", WN.packforward, cx.cpp, floor=3)
    chk.run("R-EQTABLE", MB.eqtable, cx.cpp, cx.templates, floor=26)
    chk.run("R-SIBLING", C.sibling, cx.cpp, methods=('CopyFrom', 'TryToCopyFrom', 'UncheckedCopyFrom', 'Equals', 'UncheckedEquals'), floor=80, control=lambda: cx.cpp_control)
    chk.run("R-TWIN", C.twin, cx.cpp, floor=40)
    chk.run("R-IFACE", C.iface, cx.cpp, cx.templates, floor=80)
    chk.run("R-COPY", C.copy_rule, cx.cpp, cx.templates, floor=6)
    chk.run("R-STORAGEIFACE", C.storageiface, cx.cpp, cx.templates, floor=12)
    chk.run("R-PARAMCOPY", B.paramcopy, cx.repo, cx.templates, floor=3)
    chk.run("R-BITCOPY", WN.bitcopy, cx.cpp, floor=4)
    chk.run("R-SELFCONTAIN", VX.selfcontain, cx.repo, floor=3)
    return chk.finish()
