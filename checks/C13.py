"""C13 — expression typing (structural clauses)."""
from checks.common import Ctx
from sa.report import Check
from sa.rules import flow_rules as FLW
from sa.rules import resolve_rules as RR
from sa.rules import dispatch as D
from sa.rules import pipeline as P
from sa.rules import traversal as T
from sa.rules import validators as V
from sa.rules import bounds_rules as BRX
from sa.rules import schematype as ST


def main(tier):
    cx = Ctx(tier)
    chk = Check(
        "C13", tier,
        explanation=(
            "Decides structural necessary conditions of the typing rules: the rows of the monomorphic operator table "
            "equal the documented signatures (R-OPSIG); every schema position that holds a whole expression outside "
            "an expression has a positional requirement site in the type checker (R-POSCHECK, positions enumerated "
            "from ir_data.py); positional requirements are applied to whole expressions only (R-ROOTONLY: a "
            "self-nesting last pattern type must be in skip_descendants_of); type agreement of two expressions is "
            "decided only by the one compatibility judgment, never by kind alone (R-TYPEEQ); attribute value "
            "validators guard every oneof alternative they dereference (R-VALIDATORGUARD); every closed chain and "
            "FunctionMapping table in the checker covers all alternatives (R-DISPATCH, R-DISPATCH-FM); no type check "
            "function is orphaned (R-VALIDATORS). Not decided: acceptance of every well-typed module."))
    r, s = cx.repo, cx.schema
    tc = [r.mod("compiler/front_end/type_check.py"), r.mod("compiler/util/attribute_util.py"),
          r.mod("compiler/front_end/attribute_checker.py"), r.mod("compiler/front_end/constraints.py")]
    chk.run("R-OPSIG", V.opsig, r, floor=9)
    chk.run("R-POSCHECK", V.poscheck, r, s, cx.sites, floor=9)
    chk.run("R-ROOTONLY", T.rootonly, r, s, cx.sites, floor=2, control=lambda: T.control_rootonly(r))
    chk.run("R-TYPEEQ", V.typeeq, r, floor=1)
    chk.run("R-ATTRTYPE", V.attrtype, r, floor=20)
    chk.run("R-ERRSINK", P.errsink, r, floor=20)
    chk.run("R-SKIPLOSS", T.skiploss, r, s, cx.sites, modules=("type_check.py",), floor=3)
    chk.run("R-TRAVROOT", T.travroot, r, s, cx.sites, modules=("type_check.py",), floor=3)
    chk.run("R-VALIDATORGUARD", V.validatorguard, r, s, floor=7, control=lambda: V.control(r))
    dctl = D.control(r)
    chk.run("R-DISPATCH", D.closed_chain_rule, r, s, tc, floor=15, control=lambda: dctl)
    chk.run("R-DISPATCH-FM", D.fm_flow_rule, r, s, floor=30, control=lambda: dctl)
    chk.run("R-VALIDATORS", P.validators, r, floor=40)
    chk.run("R-PATHEND", RR.pathend, cx.repo, floor=1, modules=("compiler/front_end/type_check.py",))
    chk.run("R-REFKIND", RR.refkind, cx.repo, cx.schema, floor=2, modules=("compiler/front_end/type_check.py",))
    chk.run("R-TYPEANNOT", FLW.typeannot, cx.repo, floor=14)
    chk.run("R-ONEOFGUARD", RR.oneofguard, cx.repo, floor=3, modules=("compiler/front_end/type_check.py",))
    chk.run("R-CANONNAME", RR.canonname, cx.repo, floor=1)
    chk.run("R-PRECOND", FLW.precond, cx.repo, floor=3)
    chk.run("R-VERIFYEXIT", V.verifyexit, cx.repo, floor=2)
    chk.run("R-PRESENTARG", V.presentarg, cx.repo, floor=2)
    # "rejected with an error that points into the definition containing the offending construct"
    chk.run("R-FOREIGNFILE", ST.foreignfile, cx.repo, floor=8)
    chk.run("R-EXTINT", BRX.extint, cx.repo, floor=2)
    return chk.finish()
