"""C12 — names resolve to the one lexically visible definition (structural clauses)."""
from checks.common import Ctx
from sa.report import Check
from sa.rules import backend as B
from sa.rules import pipeline as P
from sa.rules import traversal as T
from sa.rules import resolve_rules as RR


def main(tier):
    cx = Ctx(tier)
    chk = Check(
        "C12", tier,
        explanation=(
            "Decides structural necessary conditions of correct name binding: every node kind that carries a "
            "NameDefinition (read from the IR schema) is registered in the symbol tables, named in the dependency "
            "graph and covered by the reserved-word check (R-NAMEDKINDS); the search over visible scopes examines "
            "every scope, reports a second match as ambiguous and exits early only for local inline-type names, and "
            "matches names only under `scope == current_scope or SEARCHABLE` (R-NOPRECEDENCE); Field.abbreviation "
            "is read only by the builder, the alias synthesiser, the formatter and the scope constructor, which "
            "registers it PRIVATE (R-ABBREV); a name enters a scope only in the else-branch of the duplicate test that reports "
            "duplicate_name_error (R-DUPNAME); all symbol-resolver traversal actions receive their scope parameters on "
            "every IR path (R-TRAVPARAM on the product graph of the IR schema and the pattern). "
            "Not decided: that the resolved target is the intended one for arbitrary scope trees."))
    r, s = cx.repo, cx.schema
    sr_sites = [x for x in cx.sites if x.module.rel.endswith("symbol_resolver.py")]
    chk.run("R-NAMEDKINDS", P.namedkinds, r, s, cx.sites, floor=10)
    chk.run("R-NOPRECEDENCE", B.noprecedence, r, floor=3)
    chk.run("R-ABBREV", B.abbrev, r, floor=5)
    chk.run("R-DUPNAME", B.dupname, r, floor=2)
    chk.run("R-PATHEND", RR.pathend, r, floor=2, modules=("compiler/front_end/symbol_resolver.py",))
    chk.run("R-VISIBLE", RR.visible, r, floor=1)
    chk.run("R-SCOPEVIS", RR.scopevis, r, s, cx.sites, floor=6)
    chk.run("R-SKIPLOSS", T.skiploss, r, s, cx.sites, modules=("symbol_resolver.py",), floor=1)
    chk.run("R-TRAVROOT", T.travroot, r, s, cx.sites, modules=("symbol_resolver.py",), floor=5)
    chk.run("R-TRAVPARAM", T.travparam, r, s, sr_sites, floor=30, control=lambda: T.control_travparam(r))
    chk.run("R-SCOPECHAIN", RR.scopechain, r, floor=2)
    chk.run("R-REFHEAD", RR.refhead, cx.repo, floor=1)
    chk.run("R-CONSTREFKIND", RR.constrefkind, cx.repo, floor=2)
    chk.run("R-SCOPEFILL", RR.scopefill, cx.repo, floor=5)
    return chk.finish()
