"""C11 — the formatter preserves meaning (structural clauses)."""
from checks.common import Ctx
from sa.report import Check
from sa.rules import flow_rules as FLW
from sa.rules import adjacency as A
from sa.rules import fmt_rules as F
from sa.rules import grammar_rules as GR


def main(tier):
    cx = Ctx(tier)
    chk = Check(
        "C11", tier,
        explanation=(
            "Decides structural necessary conditions: exactly one formatter per grammar production (R-GRAMMAR-EQ, "
            "formatter side) with the arity of its right-hand side (R-HANDLER); no formatter drops a child that can "
            "derive a non-blank token — def-use closure from each positional parameter to the returned value, "
            "non-blank symbols computed from the grammar; the 22 drops of Indent/Dedent/newline children and the one "
            "tabled unreachable Comment? are the only ones (R-FMTLINEAR); wherever a formatter glues two children together, every pair of tokens that can meet at "
            "the seam (LAST x FIRST on the grammar) tokenizes back into the same two tokens (R-ADJACENCY); variadic helpers use all "
            "children in order; "
            "emboss-format writes a file only after sanity_check_format_result(formatted, original) on the "
            "--check-result path and a failed check skips the write (R-FMTGUARD); the self-check compares symbol and "
            "stripped text per token (R-FMTSELFCHECK). Not decided: idempotence, layout passes, never-raises."))
    r = cx.repo
    chk.run("R-GRAMMAR-EQ", GR.grammar_eq, r, False, floor=600, control=lambda: GR.control_grammar_eq(r))
    chk.run("R-HANDLER", GR.handler_arity, r, floor=370, control=lambda: GR.control_handler(r))
    chk.run("R-FMTLINEAR", F.fmtlinear, r, floor=300, control=lambda: F.control(r))
    chk.run("R-FMTORDER", F.fmtorder, r, floor=150)
    chk.run("R-FMTINDENT", F.fmtindent, r, floor=14)
    chk.run("R-FMTWIDTH", F.fmtwidth, r, floor=1)
    chk.run("R-FMTBLANK", F.fmtblank, r, floor=4)
    chk.run("R-ADJACENCY", A.adjacency, r, floor=300)
    chk.run("R-FMTGUARD", F.fmtguard, r, floor=4)
    chk.run("R-FMTSELFCHECK", F.sanity_check_shape, r, floor=3)
    chk.run("R-FMTPARTS", F.fmtparts, cx.repo, floor=1)
    chk.run("R-STALELOOPVAR", FLW.staleloopvar, cx.repo, modules=("front_end/format_emb.py",), floor=5, control=lambda: FLW.control_staleloopvar(cx.repo))
    return chk.finish()
