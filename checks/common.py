"""Shared lazily-built analysis context for the per-property drivers."""
import functools

from sa.irschema import Schema
from sa.pyfacts import Repo


class Ctx:
    def __init__(self, tier):
        self.tier = tier
        self.repo = Repo()

    @functools.cached_property
    def schema(self):
        return Schema(self.repo)

    @functools.cached_property
    def sites(self):
        from sa.rules import traversal
        return traversal.collect_sites(self.repo, self.schema)

    @functools.cached_property
    def grammar(self):
        from sa import grammar
        return grammar.ir_grammar(self.repo)

    @functools.cached_property
    def cached_parser(self):
        from sa import grammar
        return grammar.CachedParser(self.repo)
