"""Shared lazily-built analysis context for the per-property drivers."""
import functools

from sa.irschema import Schema
from sa.pyfacts import Repo


class Ctx:
    def __init__(self, tier):
        self.tier = tier
        self.repo = Repo()

    @functools.cached_property
    def schema(self):
        return Schema(self.repo)

    @functools.cached_property
    def sites(self):
        from sa.rules import traversal
        return traversal.collect_sites(self.repo, self.schema)

    @functools.cached_property
    def grammar(self):
        from sa import grammar
        return grammar.ir_grammar(self.repo)

    @functools.cached_property
    def cached_parser(self):
        from sa import grammar
        return grammar.CachedParser(self.repo)

    @functools.cached_property
    def cpp(self):
        from sa.cppast import CppFacts
        return CppFacts(self.repo)

    @functools.cached_property
    def templates(self):
        from sa.templates import Templates
        return Templates(self.repo)

    @functools.cached_property
    def cpp_control(self):
        from sa.rules import cpp_rules
        return cpp_rules.control(self.repo)

    @functools.cached_property
    def widths(self):
        from sa.rules import widths
        return widths.widths(self.repo, self.tier)
