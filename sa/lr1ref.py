"""Checker-owned canonical LR(1) construction (independent of compiler/front_end/lr1.py).

Grammar symbols are strings; a symbol is a nonterminal iff it is the lhs of some
production.  Items are encoded as integers for speed.
"""
from __future__ import annotations

END = "$"
START_PRIME = "S'"


class LR1:
    def __init__(self, start, productions):
        """productions: iterable of (lhs, rhs tuple); S' -> start is added."""
        prods = sorted(set(productions))
        self.prods = [(START_PRIME, (start,))] + prods
        self.nonterminals = {p[0] for p in self.prods}
        syms = {END}
        for l, r in self.prods:
            syms.add(l)
            syms.update(r)
        self.terminals = sorted(syms - self.nonterminals)
        self.tindex = {t: i for i, t in enumerate(self.terminals)}
        self.T = len(self.terminals)
        self.by_lhs = {}
        for i, (l, r) in enumerate(self.prods):
            self.by_lhs.setdefault(l, []).append(i)
        # item core ids: base[prod] + dot
        self.base = []
        n = 0
        for l, r in self.prods:
            self.base.append(n)
            n += len(r) + 1
        self.ncores = n
        self.core_prod = [0] * n
        self.core_dot = [0] * n
        for i, (l, r) in enumerate(self.prods):
            for d in range(len(r) + 1):
                self.core_prod[self.base[i] + d] = i
                self.core_dot[self.base[i] + d] = d
        self._first()
        self._closure_cache = {}
        self._build()

    # FIRST sets over terminals indices; nullable set
    def _first(self):
        nullable = set()
        first = {nt: set() for nt in self.nonterminals}
        changed = True
        while changed:
            changed = False
            for l, r in self.prods:
                all_null = True
                for s in r:
                    if s in self.nonterminals:
                        add = first[s] - first[l]
                        if add:
                            first[l] |= add
                            changed = True
                        if s not in nullable:
                            all_null = False
                            break
                    else:
                        ti = self.tindex[s]
                        if ti not in first[l]:
                            first[l].add(ti)
                            changed = True
                        all_null = False
                        break
                if all_null and l not in nullable:
                    nullable.add(l)
                    changed = True
        self.nullable = nullable
        self.first = first

    def _first_of(self, symbols, la):
        out = set()
        for s in symbols:
            if s in self.nonterminals:
                out |= self.first[s]
                if s not in self.nullable:
                    return out
            else:
                out.add(self.tindex[s])
                return out
        out.add(la)
        return out

    def _closure_of_item(self, item):
        """Closure of one LR(1) item (core*T+la), memoised; returns frozenset of items."""
        c = self._closure_cache.get(item)
        if c is not None:
            return c
        T = self.T
        seen = {item}
        work = [item]
        while work:
            it = work.pop()
            core, la = divmod(it, T)
            p = self.core_prod[core]
            d = self.core_dot[core]
            rhs = self.prods[p][1]
            if d >= len(rhs):
                continue
            nxt = rhs[d]
            if nxt not in self.nonterminals:
                continue
            done = self._closure_cache.get(it)
            if done is not None and it != item:
                seen |= done
                continue
            las = self._first_of(rhs[d + 1:], la)
            for q in self.by_lhs[nxt]:
                b = self.base[q] * T
                for l2 in las:
                    ni = b + l2
                    if ni not in seen:
                        seen.add(ni)
                        work.append(ni)
        c = frozenset(seen)
        self._closure_cache[item] = c
        return c

    def _build(self):
        T = self.T
        start_item = self.base[0] * T + self.tindex[END]
        k0 = frozenset([start_item])
        self.kernels = [k0]
        index = {k0: 0}
        self.shift = []  # per state: {terminal: state}
        self.goto = []  # per state: {nonterminal: state}
        self.reduce = []  # per state: {terminal: set(prod index)}
        self.accept = []  # per state: bool
        i = 0
        while i < len(self.kernels):
            kern = self.kernels[i]
            closure = set()
            for it in kern:
                closure |= self._closure_of_item(it)
            moves = {}
            red = {}
            acc = False
            for it in closure:
                core, la = divmod(it, T)
                p = self.core_prod[core]
                d = self.core_dot[core]
                rhs = self.prods[p][1]
                if d >= len(rhs):
                    if p == 0:
                        acc = True
                    else:
                        red.setdefault(self.terminals[la], set()).add(p)
                else:
                    moves.setdefault(rhs[d], set()).add(it + T)  # advance dot: core+1
            sh, go = {}, {}
            for sym in sorted(moves):
                k = frozenset(moves[sym])
                j = index.get(k)
                if j is None:
                    j = len(self.kernels)
                    index[k] = j
                    self.kernels.append(k)
                if sym in self.nonterminals:
                    go[sym] = j
                else:
                    sh[sym] = j
            self.shift.append(sh)
            self.goto.append(go)
            self.reduce.append(red)
            self.accept.append(acc)
            i += 1
        self.nstates = len(self.kernels)

    def conflicts(self):
        out = []
        for s in range(self.nstates):
            for t, ps in self.reduce[s].items():
                if len(ps) > 1:
                    out.append((s, t, "reduce/reduce"))
                if t in self.shift[s]:
                    out.append((s, t, "shift/reduce"))
            if self.accept[s] and (END in self.reduce[s] or END in self.shift[s]):
                out.append((s, END, "accept conflict"))
        return out


def compare_tables(ref: LR1, goto, act, report, label):
    """BFS bijection between cached tables and the reference automaton.

    goto/act: dicts as evaluated from cached_parser.py.  `report(key, msg)` is
    called for each disagreement (at most a handful are reported).
    Returns (mapped state count, cached->ref mapping)."""
    c2r = {0: 0}
    r2c = {0: 0}
    work = [0]
    nerr = 0

    def err(key, msg):
        nonlocal nerr
        nerr += 1
        if nerr <= 12:
            report(key, msg)

    def link(cs, rs, via, sym):
        if cs in c2r:
            if c2r[cs] != rs:
                err(f"{label}|state{via}|{sym}|target", f"{label}: from state {via} on {sym} the cached table "
                    f"goes to state {cs}, which corresponds to a different automaton state than the grammar's")
            return
        if rs in r2c:
            err(f"{label}|state{via}|{sym}|target", f"{label}: from state {via} on {sym} the cached table goes "
                f"to state {cs} but that automaton state is already matched by cached state {r2c[rs]}")
            return
        c2r[cs] = rs
        r2c[rs] = cs
        work.append(cs)

    while work:
        cs = work.pop()
        rs = c2r[cs]
        cact = act.get(cs, {})
        real = {k: v for k, v in cact.items() if v[0] != "E"}
        want_keys = set(ref.shift[rs]) | set(ref.reduce[rs]) | ({END} if ref.accept[rs] else set())
        for k in sorted(set(real) - want_keys, key=str):
            err(f"{label}|state{cs}|{k}|extra", f"{label}: cached state {cs} has action {real[k][0]} on {k}; "
                "the LR(1) automaton of the grammar has none (accepts more / different tree)")
        for k in sorted(want_keys - set(real), key=str):
            err(f"{label}|state{cs}|{k}|missing", f"{label}: cached state {cs} lacks an action on {k} that the "
                "LR(1) automaton of the grammar has (rejects valid input)")
        for k, v in real.items():
            if k not in want_keys:
                continue
            if k in ref.shift[rs]:
                if v[0] != "S":
                    err(f"{label}|state{cs}|{k}|kind", f"{label}: cached state {cs} on {k}: {v[0]} but grammar says Shift")
                else:
                    link(v[1], ref.shift[rs][k], cs, k)
            elif ref.accept[rs] and k == END and k not in ref.reduce[rs]:
                if v[0] != "A":
                    err(f"{label}|state{cs}|{k}|kind", f"{label}: cached state {cs} on $: {v[0]} but grammar says Accept")
            else:
                ps = ref.reduce[rs][k]
                if v[0] != "R":
                    err(f"{label}|state{cs}|{k}|kind", f"{label}: cached state {cs} on {k}: {v[0]} but grammar says Reduce")
                else:
                    prod = (v[1][1], v[1][2])
                    if prod not in {ref.prods[p] for p in ps}:
                        err(f"{label}|state{cs}|{k}|rule", f"{label}: cached state {cs} on {k} reduces by "
                            f"'{prod[0]} -> {' '.join(prod[1])}', the grammar's automaton reduces by "
                            f"'{ref.prods[min(ps)][0]} -> {' '.join(ref.prods[min(ps)][1])}'")
        cg = goto.get(cs, {})
        rg = ref.goto[rs]
        for k in sorted(set(cg) - set(rg), key=str):
            err(f"{label}|state{cs}|{k}|goto-extra", f"{label}: cached goto[{cs}][{k}] has no counterpart")
        for k in sorted(set(rg) - set(cg), key=str):
            err(f"{label}|state{cs}|{k}|goto-missing", f"{label}: cached goto[{cs}] lacks {k} (parser would raise KeyError)")
        for k, v in cg.items():
            if k in rg:
                link(v, rg[k], cs, k)
    all_cached = set(act) | set(goto)
    unmapped = all_cached - set(c2r)
    if unmapped and nerr == 0:
        err(f"{label}|unreachable", f"{label}: {len(unmapped)} cached states are unreachable from state 0, e.g. {sorted(unmapped)[:5]}")
    if len(c2r) != ref.nstates and nerr == 0:
        err(f"{label}|count", f"{label}: {len(c2r)} cached states matched, the grammar's automaton has {ref.nstates}")
    return len(c2r), c2r
