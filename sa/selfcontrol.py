"""Thorough-tier mutation controls: every catalogue mutant that is expected to break a property is applied
to a scratch copy of the *current* /repo tree (outside /repo and /verif, removed afterwards) and the quick
check of that property must report a violation there.  A missed control means the checker lost the ability
to see that class of change: the thorough run ends as ANALYSIS-ERROR, never as a silent pass."""
from __future__ import annotations

import concurrent.futures as cf
import json
import os
import shutil
import subprocess
import sys
import tempfile

from .report import REPO, VERIF


def _copy_tree(dst):
    """Scratch copy of the current working tree of REPO (tracked + modified files, no .git)."""
    subprocess.run(["rsync", "-a", "--exclude", ".git", "--exclude", "__pycache__", REPO.rstrip("/") + "/", dst + "/"],
                   check=True, capture_output=True)


def _run_one(prop, mid, file, old, new):
    scratch = tempfile.mkdtemp(prefix="verif_ctl_", dir="/tmp")
    try:
        repo = os.path.join(scratch, "repo")
        os.makedirs(repo)
        _copy_tree(repo)
        path = os.path.join(repo, file)
        try:
            src = open(path).read()
        except OSError:
            return mid, "stale"
        if old is None or src.count(old) != 1:
            return mid, "stale"
        open(path, "w").write(src.replace(old, new))
        env = dict(os.environ, EMBOSS_REPO=repo, VERIF_EVIDENCE_DIR=os.path.join(scratch, "ev"),
                   VERIF_REPLAY_DIR=os.path.join(scratch, "rp"), VERIF_NO_CONTROLS="1")
        pr = subprocess.run([os.path.join(VERIF, "check"), prop, "--tier", "quick"], env=env, cwd=VERIF,
                            capture_output=True, text=True)
        return mid, {0: "missed", 1: "caught"}.get(pr.returncode, "broken")
    finally:
        shutil.rmtree(scratch, ignore_errors=True)


def run_controls(prop, jobs=12):
    if os.environ.get("VERIF_NO_CONTROLS"):
        return None
    sys.path.insert(0, os.path.join(VERIF, "selftest"))
    import catalogue
    todo = [(mid, file, old, new) for mid, props, file, old, new, _ in catalogue.MUTANTS if prop in props]
    out = {}
    with cf.ThreadPoolExecutor(max_workers=jobs) as ex:
        for mid, status in ex.map(lambda t: _run_one(prop, *t), todo):
            out[mid] = status
    return out
