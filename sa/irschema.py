"""IR schema extracted from compiler/util/ir_data.py by AST (never imported).

Gives: dataclasses, their fields (name, leaf type, container, oneof group),
int-enums with members, the containment graph of IR node types.
"""
from __future__ import annotations

import ast
import dataclasses

from .report import AnalysisError

IR_DATA = "compiler/util/ir_data.py"


@dataclasses.dataclass
class FieldSpec:
    owner: str
    name: str
    type: str  # leaf type name: "str", "int", "bool", class name, "parser_types.SourceLocation"
    container: str  # "optional" | "list" | "plain"
    oneof: str | None
    line: int

    @property
    def is_list(self):
        return self.container == "list"


class Schema:
    def __init__(self, repo):
        self.repo = repo
        m = repo.mod(IR_DATA)
        self.module = m
        self.classes = {}  # name -> {field: FieldSpec} (ordered)
        self.enums = {}  # name -> {member: value}
        self.bases = {}
        self.unsupported = []  # (class, field, annotation text)
        for node in m.tree.body:
            if not isinstance(node, ast.ClassDef):
                continue
            bases = [ast.unparse(b) for b in node.bases]
            self.bases[node.name] = bases
            if any(b.endswith("enum.Enum") or b == "Enum" for b in bases):
                members = {}
                for st in node.body:
                    if isinstance(st, ast.Assign) and len(st.targets) == 1 and isinstance(st.targets[0], ast.Name):
                        try:
                            members[st.targets[0].id] = ast.literal_eval(st.value)
                        except Exception:
                            members[st.targets[0].id] = None
                self.enums[node.name] = members
                continue
            is_dc = any("dataclass" in ast.unparse(d) for d in node.decorator_list)
            if not is_dc or node.name == "Message":
                continue
            fields = {}
            for st in node.body:
                if isinstance(st, ast.AnnAssign) and isinstance(st.target, ast.Name):
                    ann = ast.unparse(st.annotation)
                    if ann.startswith("ClassVar"):
                        continue
                    fs = self._field(node.name, st)
                    if fs is None:
                        self.unsupported.append((node.name, st.target.id, ann))
                    else:
                        fields[fs.name] = fs
            self.classes[node.name] = fields
        if len(self.classes) < 30:
            raise AnalysisError(f"ir_data.py: only {len(self.classes)} IR dataclasses found")
        self.node_types = set(self.classes)

    def _leaf(self, node):
        if isinstance(node, ast.Constant) and isinstance(node.value, str):
            return node.value
        if isinstance(node, ast.Lambda):
            return self._leaf(node.body)
        if isinstance(node, (ast.Name, ast.Attribute)):
            return ast.unparse(node)
        return None

    def _field(self, owner, st):
        ann = st.annotation
        container = "plain"
        leaf = None
        if isinstance(ann, ast.Subscript):
            head = ast.unparse(ann.value)
            if head in ("Optional", "typing.Optional"):
                container = "optional"
                leaf = self._leaf(ann.slice)
            elif head in ("list", "List", "typing.List"):
                container = "list"
                leaf = self._leaf(ann.slice)
            else:
                return None
        else:
            leaf = self._leaf(ann)
        if leaf is None:
            return None
        oneof = None
        v = st.value
        if isinstance(v, ast.Call):
            fn = ast.unparse(v.func)
            if fn.endswith("oneof_field") and v.args:
                try:
                    oneof = ast.literal_eval(v.args[0])
                except Exception:
                    return None
            elif fn.endswith("list_field"):
                container = "list"
                if v.args:
                    leaf2 = self._leaf(v.args[0])
                    if leaf2:
                        leaf = leaf2
            elif fn.endswith("str_field"):
                leaf = "str"
        return FieldSpec(owner, st.target.id, leaf, container, oneof, st.lineno)

    # ------------------------------------------------------------------
    def is_node(self, t):
        return t in self.classes

    def children(self, t):
        """[(field name, child type, is_list)] for IR-dataclass-typed fields."""
        return [
            (f.name, f.type, f.is_list)
            for f in self.classes.get(t, {}).values()
            if f.type in self.classes
        ]

    def oneofs(self, cls):
        groups = {}
        for f in self.classes[cls].values():
            if f.oneof:
                groups.setdefault(f.oneof, []).append(f.name)
        return groups

    def descendants(self, t, strict=True):
        seen = set()
        work = [c for _, c, _ in self.children(t)]
        while work:
            x = work.pop()
            if x in seen:
                continue
            seen.add(x)
            work.extend(c for _, c, _ in self.children(x))
        if not strict:
            seen.add(t)
        return seen

    def attr_types(self):
        """attribute name -> set of (owner, leaf type, is_list) over IR classes."""
        out = {}
        for cls, fields in self.classes.items():
            for f in fields.values():
                out.setdefault(f.name, set()).add((cls, f.type, f.is_list))
        return out

    def self_nesting(self, t):
        return t in self.descendants(t)

    def parents_of(self, t):
        return sorted({c for c in self.classes for _, ch, _ in self.children(c) if ch == t})
