"""Module loader for /repo's Python sources: ast per file, import table, function
index (nested defs, methods), reference/call graph and entry-point reachability.

Nothing from /repo is imported or executed; everything is read through `ast`.
"""
from __future__ import annotations

import ast
import os

from .report import AnalysisError, REPO

# Files never loaded by default: tests and the 6-second cached parser table.
_HEAVY = ("compiler/front_end/generated/cached_parser.py",)
ENTRY_POINTS = (
    "embossc",
    "compiler/front_end/emboss_front_end.py",
    "compiler/back_end/cpp/emboss_codegen_cpp.py",
    "compiler/front_end/format.py",
)


def is_test_file(rel):
    base = os.path.basename(rel)
    return (
        base.endswith("_test.py")
        or base in ("test_util.py", "one_golden_test.py", "run_one_golden_test.py")
        or "/testcode/" in rel
        or rel.startswith("testdata/")
    )


class Func:
    """A function or method definition."""

    __slots__ = ("module", "qualname", "node", "parent", "cls")

    def __init__(self, module, qualname, node, parent=None, cls=None):
        self.module = module
        self.qualname = qualname
        self.node = node
        self.parent = parent  # enclosing Func or None
        self.cls = cls  # enclosing class name or None

    @property
    def name(self):
        return self.node.name

    @property
    def fq(self):
        return f"{self.module.name}.{self.qualname}"

    @property
    def file(self):
        return self.module.rel

    @property
    def line(self):
        return self.node.lineno

    def __repr__(self):
        return f"<Func {self.fq}>"


class Module:
    def __init__(self, repo, rel, source):
        self.repo = repo
        self.rel = rel
        self.source = source
        self.name = self._dotted(rel)
        try:
            self.tree = ast.parse(source, filename=rel)
        except SyntaxError as e:
            raise AnalysisError(f"{rel}: does not parse: {e}")
        self.imports = {}  # local name -> dotted target ("pkg.mod" or "pkg.mod.attr")
        self.funcs = {}  # qualname -> Func
        self.classes = {}  # name -> ClassDef
        self.assigns = {}  # module-level name -> list of value nodes
        self.parents = {}  # id(node) -> parent node
        self._index()

    @staticmethod
    def _dotted(rel):
        if rel.endswith(".py"):
            rel = rel[:-3]
        return rel.replace("/", ".").replace("-", "_")

    def _index(self):
        for node in ast.walk(self.tree):
            for child in ast.iter_child_nodes(node):
                self.parents[id(child)] = node
        for node in ast.walk(self.tree):
            if isinstance(node, ast.Import):
                for a in node.names:
                    self.imports[a.asname or a.name.split(".")[0]] = (
                        a.name if a.asname else a.name.split(".")[0]
                    )
            elif isinstance(node, ast.ImportFrom):
                base = node.module or ""
                for a in node.names:
                    self.imports[a.asname or a.name] = f"{base}.{a.name}" if base else a.name
        self._index_body(self.tree.body, "", None, None)
        for node in self.tree.body:
            if isinstance(node, ast.Assign):
                for t in node.targets:
                    if isinstance(t, ast.Name):
                        self.assigns.setdefault(t.id, []).append(node.value)
            elif isinstance(node, ast.AnnAssign) and isinstance(node.target, ast.Name):
                if node.value is not None:
                    self.assigns.setdefault(node.target.id, []).append(node.value)

    def _index_body(self, body, prefix, parent, cls):
        for node in body:
            if isinstance(node, (ast.FunctionDef, ast.AsyncFunctionDef)):
                q = prefix + node.name
                f = Func(self, q, node, parent, cls)
                # a later def with the same qualname overrides (if __debug__ etc.)
                self.funcs[q] = f
                self._index_body(node.body, q + ".", f, None)
            elif isinstance(node, ast.ClassDef):
                if not prefix:
                    self.classes[node.name] = node
                self._index_body(node.body, prefix + node.name + ".", parent, node.name)
            elif isinstance(node, (ast.If, ast.For, ast.While, ast.With, ast.Try)):
                for fld in ("body", "orelse", "finalbody"):
                    self._index_body(getattr(node, fld, []) or [], prefix, parent, cls)
                for h in getattr(node, "handlers", []) or []:
                    self._index_body(h.body, prefix, parent, cls)

    def parent(self, node):
        return self.parents.get(id(node))

    def enclosing_func(self, node):
        n = self.parent(node)
        while n is not None:
            if isinstance(n, (ast.FunctionDef, ast.AsyncFunctionDef)):
                for f in self.funcs.values():
                    if f.node is n:
                        return f
            n = self.parent(n)
        return None

    def func_of_node(self, fnode):
        for f in self.funcs.values():
            if f.node is fnode:
                return f
        return None

    def top_funcs(self):
        return [f for q, f in self.funcs.items() if "." not in q]

    def seg(self, node):
        try:
            return ast.get_source_segment(self.source, node) or ""
        except Exception:
            return ""


class Repo:
    def __init__(self, root=None, include_tests=False, overlay=None):
        self.root = root or REPO
        self.overlay = overlay or {}
        self.modules = {}  # dotted name -> Module
        self.by_rel = {}
        self._texts = {}
        rels = []
        for dp, dns, fns in os.walk(self.root):
            dns[:] = [d for d in dns if d not in (".git", "__pycache__", "testdata", "node_modules")]
            for fn in fns:
                full = os.path.join(dp, fn)
                rel = os.path.relpath(full, self.root)
                if fn.endswith(".py") or rel in ("embossc", "emboss-format"):
                    rels.append(rel)
        for rel in sorted(set(rels) | set(k for k in self.overlay if k.endswith(".py"))):
            if rel in _HEAVY:
                continue
            if is_test_file(rel) and not include_tests:
                continue
            if rel.startswith((".github/", "integration/", "scripts/")):
                continue
            src = self.read(rel)
            m = Module(self, rel, src)
            self.modules[m.name] = m
            self.by_rel[rel] = m
        self._refs = None

    # -- files ---------------------------------------------------------------
    def read(self, rel):
        if rel in self.overlay:
            return self.overlay[rel]
        if rel not in self._texts:
            p = os.path.join(self.root, rel)
            if not os.path.exists(p):
                raise AnalysisError(f"anchor file vanished: {rel}")
            with open(p, encoding="utf-8") as fh:
                self._texts[rel] = fh.read()
        return self._texts[rel]

    def exists(self, rel):
        return rel in self.overlay or os.path.exists(os.path.join(self.root, rel))

    def mod(self, rel_or_name):
        m = self.by_rel.get(rel_or_name) or self.modules.get(rel_or_name)
        if m is None:
            raise AnalysisError(f"anchor module vanished: {rel_or_name}")
        return m

    def func(self, rel, qualname):
        m = self.mod(rel)
        f = m.funcs.get(qualname)
        if f is None:
            raise AnalysisError(f"anchor function vanished: {rel}:{qualname}")
        return f

    # -- name resolution -------------------------------------------------------
    def resolve(self, module, expr, scope=None):
        """Resolves a Name/Attribute expression to a Func, Module, or
        ("class", Module, name) / ("value", Module, name); None if unknown."""
        if isinstance(expr, ast.Name):
            # nested function in enclosing scopes
            s = scope
            while s is not None:
                q = s.qualname + "." + expr.id
                if q in module.funcs:
                    return module.funcs[q]
                s = s.parent
            if expr.id in module.funcs:
                return module.funcs[expr.id]
            if expr.id in module.classes:
                return ("class", module, expr.id)
            if expr.id in module.imports:
                return self._resolve_dotted(module.imports[expr.id])
            if expr.id in module.assigns:
                return ("value", module, expr.id)
            return None
        if isinstance(expr, ast.Attribute):
            if isinstance(expr.value, ast.Name) and expr.value.id in ("self", "cls"):
                sc = scope
                while sc is not None and sc.cls is None:
                    sc = sc.parent
                if sc is not None:
                    q = f"{sc.cls}.{expr.attr}"
                    if q in module.funcs:
                        return module.funcs[q]
                return None
            base = self.resolve(module, expr.value, scope)
            if isinstance(base, Module):
                if expr.attr in base.funcs:
                    return base.funcs[expr.attr]
                if expr.attr in base.classes:
                    return ("class", base, expr.attr)
                if expr.attr in base.assigns:
                    return ("value", base, expr.attr)
                sub = self.modules.get(base.name + "." + expr.attr)
                if sub:
                    return sub
                return None
            if isinstance(base, tuple) and base[0] == "class":
                q = base[2] + "." + expr.attr
                if q in base[1].funcs:
                    return base[1].funcs[q]
                return None
            return None
        return None

    def _resolve_dotted(self, dotted):
        if dotted in self.modules:
            return self.modules[dotted]
        head, _, attr = dotted.rpartition(".")
        if head in self.modules:
            m = self.modules[head]
            if attr in m.funcs:
                return m.funcs[attr]
            if attr in m.classes:
                return ("class", m, attr)
            if attr in m.assigns:
                return ("value", m, attr)
        return None

    # -- reference graph -----------------------------------------------------
    def refs(self):
        """func fq -> set of Func referenced (called or mentioned as a value).
        Module-level code is attributed to the pseudo-function '<module>'."""
        if self._refs is not None:
            return self._refs
        refs = {}
        for m in self.modules.values():
            for f in m.funcs.values():
                refs.setdefault(f.fq, set())
            refs.setdefault(m.name + ".<module>", set())
            self._collect_refs(m, m.tree.body, None, refs)
        self._refs = refs
        return refs

    def _collect_refs(self, m, body, scope, refs):
        key = scope.fq if scope else m.name + ".<module>"
        out = refs.setdefault(key, set())

        def visit(node, scope_local):
            for child in ast.iter_child_nodes(node):
                if isinstance(child, (ast.FunctionDef, ast.AsyncFunctionDef)):
                    f = m.func_of_node(child)
                    # decorators and defaults are evaluated in the enclosing scope
                    for d in child.decorator_list:
                        note(d)
                        visit(d, scope_local)
                    if f is not None:
                        # a decorated def is handed to its decorator (registration idiom)
                        if child.decorator_list:
                            refs.setdefault(key, set()).add(f)
                        # defining a nested function makes it referenced by the parent
                        if scope_local is not None:
                            out_local = refs.setdefault(scope_local.fq, set())
                            out_local.add(f)
                        self._collect_refs(m, child.body, f, refs)
                    continue
                if isinstance(child, ast.ClassDef):
                    # class body executes at definition time in enclosing scope
                    for sub in child.body:
                        if isinstance(sub, (ast.FunctionDef, ast.AsyncFunctionDef)):
                            f = m.func_of_node(sub)
                            if f is not None:
                                self._collect_refs(m, sub.body, f, refs)
                                # methods are reachable once the class is
                                refs.setdefault(key, set()).add(f)
                        else:
                            note(sub)
                            visit(sub, scope_local)
                    continue
                note(child)
                visit(child, scope_local)

        def note(node):
            if isinstance(node, (ast.Name, ast.Attribute)) and isinstance(
                getattr(node, "ctx", None), ast.Load
            ):
                r = self.resolve(m, node, scope)
                if isinstance(r, Func):
                    out.add(r)
                elif isinstance(r, tuple) and r[0] == "class":
                    # instantiating/mentioning a class reaches all its methods
                    for q, f in r[1].funcs.items():
                        if q.startswith(r[2] + "."):
                            out.add(f)

        class _B:  # wrapper so visit() sees body statements as children
            pass

        for stmt in body:
            if isinstance(stmt, (ast.FunctionDef, ast.AsyncFunctionDef, ast.ClassDef)):
                wrapper = ast.Module(body=[stmt], type_ignores=[])
                visit(wrapper, scope)
            else:
                note(stmt)
                visit(stmt, scope)

    def reachable_funcs(self, entry_rels=ENTRY_POINTS):
        """Set of Func fq reachable from the module-level code of the entry points,
        following references, and module-level code of imported modules."""
        refs = self.refs()
        seen_mods = set()
        work_mods = []
        for rel in entry_rels:
            if rel in self.by_rel:
                work_mods.append(self.by_rel[rel])
        seen = set()
        work = []
        while work_mods or work:
            while work_mods:
                m = work_mods.pop()
                if m.name in seen_mods:
                    continue
                seen_mods.add(m.name)
                work.append(m.name + ".<module>")
                for tgt in m.imports.values():
                    r = self._resolve_dotted(tgt)
                    if isinstance(r, Module):
                        work_mods.append(r)
                    else:
                        head = tgt.rpartition(".")[0]
                        if head in self.modules:
                            work_mods.append(self.modules[head])
            while work:
                k = work.pop()
                if k in seen:
                    continue
                seen.add(k)
                for f in refs.get(k, ()):
                    if f.fq not in seen:
                        work.append(f.fq)
                    if f.module.name not in seen_mods:
                        work_mods.append(f.module)
        return seen, seen_mods

    def compile_path_modules(self):
        """Modules imported (transitively) by the entry points."""
        _, mods = self.reachable_funcs()
        return [self.modules[n] for n in sorted(mods)]


# -- small AST helpers ----------------------------------------------------------
def dotted_name(node):
    """'a.b.c' for Name/Attribute chains, else None."""
    parts = []
    while isinstance(node, ast.Attribute):
        parts.append(node.attr)
        node = node.value
    if isinstance(node, ast.Name):
        parts.append(node.id)
        return ".".join(reversed(parts))
    return None


def attr_chain(node):
    """(root_node, [attr, ...]) for x.a.b ; root may be any expr."""
    attrs = []
    while isinstance(node, ast.Attribute):
        attrs.append(node.attr)
        node = node.value
    return node, list(reversed(attrs))


def call_name(call):
    return dotted_name(call.func) if isinstance(call, ast.Call) else None


def const_str(node):
    if isinstance(node, ast.Constant) and isinstance(node.value, str):
        return node.value
    if isinstance(node, ast.JoinedStr):
        return None
    return None


def walk_no_nested_funcs(node):
    """ast.walk that does not descend into nested function/class definitions."""
    stack = [node]
    first = True
    while stack:
        n = stack.pop()
        if not first and isinstance(n, (ast.FunctionDef, ast.AsyncFunctionDef, ast.ClassDef, ast.Lambda)):
            continue
        first = False
        yield n
        stack.extend(ast.iter_child_nodes(n))


def func_params(fnode):
    """(positional names, names with defaults, kwonly, has_varargs, has_varkw)."""
    a = fnode.args
    pos = [x.arg for x in a.posonlyargs + a.args]
    ndef = len(a.defaults)
    with_def = set(pos[len(pos) - ndef:]) if ndef else set()
    return pos, with_def, [x.arg for x in a.kwonlyargs], a.vararg is not None, a.kwarg is not None


# -- source edits used by positive controls (overlay variants, never written to /repo) ------
def replace_span(src, node, new_text):
    """Replaces the exact source span of `node` by new_text."""
    lines = src.splitlines(keepends=True)
    start = sum(len(l.encode()) for l in lines[: node.lineno - 1]) + node.col_offset
    end = sum(len(l.encode()) for l in lines[: node.end_lineno - 1]) + node.end_col_offset
    b = src.encode()
    return (b[:start] + new_text.encode() + b[end:]).decode()


def remove_lines(src, node):
    """Removes the full lines spanned by `node` (for decorators / simple statements)."""
    lines = src.splitlines(keepends=True)
    return "".join(lines[: node.lineno - 1] + lines[node.end_lineno:])
