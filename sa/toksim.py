"""Checker-owned tokenizer and shift/reduce simulator operating on *extracted* tables.

The tokenizer follows the documented algorithm (doc/grammar.md + language reference):
per line, longest match over literals then regexes, ties to the earlier pattern,
patterns without a symbol are skipped; Indent/Dedent from leading whitespace of
lines that hold a non-comment token; every such line (and comment-only lines) ends
in a newline token.
"""
from __future__ import annotations

import re

ANY = object()


class TokErr(Exception):
    pass


def tokenize(text, literals, regexes):
    """Returns list of (symbol, text, line, col).  regexes: [(pattern, symbol, _)]."""
    comp = [(re.compile(p), s) for p, s, *_ in regexes]
    out = []
    stack = [""]
    ln = 0
    for line in text.splitlines():
        ln += 1
        toks = []
        off = 0
        while off < len(line):
            best, sym = "", None
            rest = line[off:]
            for lit in literals:
                if rest.startswith(lit) and len(lit) > len(best):
                    best, sym = lit, '"' + lit + '"'
            for rx, s in comp:
                m = rx.match(rest)
                if m and len(m.group(0)) > len(best):
                    best, sym = m.group(0), s
            if not best:
                raise TokErr(f"line {ln} col {off + 1}: unrecognized token")
            if sym:
                toks.append((sym, best, ln, off + 1))
            off += len(best)
        if all(t[0] == "Comment" for t in toks):
            out.extend(toks)
            out.append(('"\\n"', "\n", ln, len(line) + 1))
            continue
        lead = line[: len(line) - len(line.lstrip())]
        if lead == stack[-1]:
            pass
        elif lead.startswith(stack[-1]):
            out.append(("Indent", lead[len(stack[-1]):], ln, len(stack[-1]) + 1))
            stack.append(lead)
        else:
            while stack and stack[-1] != lead:
                stack.pop()
                out.append(("Dedent", "", ln, len(lead) + 1))
                if not stack:
                    raise TokErr(f"line {ln}: bad indentation")
            if not stack:
                raise TokErr(f"line {ln}: bad indentation")
        out.extend(toks)
        out.append(('"\\n"', "\n", ln, len(line) + 1))
    for _ in range(len(stack) - 1):
        out.append(("Dedent", "", ln + 1, 1))
    return out


def simulate(goto, act, symbols):
    """Runs the shift/reduce automaton over the symbol list (END appended).
    Error cells count as absent.  Returns ("accept", None, None) or
    ("error", state, index)."""
    syms = list(symbols) + ["$"]
    stack = [0]
    i = 0
    steps = 0
    while True:
        steps += 1
        if steps > 1_000_000:
            return ("loop", stack[-1], i)
        st = stack[-1]
        a = act.get(st, {}).get(syms[i]) if not (syms[i] is ANY) else None
        if a is None or a[0] == "E":
            return ("error", st, i)
        if a[0] == "S":
            stack.append(a[1])
            i += 1
        elif a[0] == "A":
            return ("accept", None, None)
        elif a[0] == "R":
            n = len(a[1][2])
            if n:
                del stack[len(stack) - n:]
            g = goto.get(stack[-1], {}).get(a[1][1])
            if g is None:
                return ("goto-missing", stack[-1], i)
            stack.append(g)
        else:
            return ("bad-action", st, i)


def parse_error_examples(text):
    """[(message, example text)] following the file format documented in its header."""
    parts = text.split("\n" + "=" * 80 + "\n")
    out = []
    for part in parts[1:]:
        me = part.split("\n" + "-" * 80 + "\n")
        if len(me) != 2:
            raise TokErr("error_examples: section without exactly one message and one example block")
        msg, ex = me
        for example in ex.split("\n---\n"):
            out.append((msg.strip(), example))
    return out
