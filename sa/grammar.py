"""Grammar facts, statically extracted.

* productions from `@_handles` (module_ir.py) and `@_formats*` (format_emb.py)
  decorators, closed under the `*`/`+`/`?` templates read from
  `_finalize_grammar`,
* productions / goto / action / default-error tables from
  `generated/cached_parser.py` (a tiny evaluator over its AST, no exec),
* productions and token tables from doc/grammar.md,
* token pattern tables from tokenizer.py.
"""
from __future__ import annotations

import ast
import hashlib
import os
import pickle
import re

from .pyfacts import call_name, dotted_name
from .report import AnalysisError, VERIF

MODULE_IR = "compiler/front_end/module_ir.py"
FORMAT_EMB = "compiler/front_end/format_emb.py"
CACHED = "compiler/front_end/generated/cached_parser.py"
GRAMMAR_MD = "doc/grammar.md"
TOKENIZER = "compiler/front_end/tokenizer.py"


def parse_production(text):
    words = text.split()
    if len(words) < 2 or words[1] != "->":
        raise AnalysisError(f"production text not of the form 'lhs -> rhs': {text!r}")
    return (words[0], tuple(words[2:]))


def _const_text(node):
    """Evaluates a constant string expression (implicit concatenation is folded by
    the parser; handle + as well)."""
    if isinstance(node, ast.Constant) and isinstance(node.value, str):
        return node.value
    if isinstance(node, ast.BinOp) and isinstance(node.op, ast.Add):
        a, b = _const_text(node.left), _const_text(node.right)
        if a is not None and b is not None:
            return a + b
    return None


class DecoratedProductions:
    """Productions registered by decorator calls named in `decorators`."""

    def __init__(self, module, decorators):
        self.module = module
        self.entries = []  # (production, Func, decorator name, decorator node)
        for f in module.funcs.values():
            for d in f.node.decorator_list:
                if isinstance(d, ast.Call) and call_name(d) in decorators and d.args:
                    text = _const_text(d.args[0])
                    if text is None:
                        raise AnalysisError(
                            f"{module.rel}:{d.lineno}: non-literal production text"
                        )
                    self.entries.append((parse_production(text), f, call_name(d), d))

    def productions(self):
        return [e[0] for e in self.entries]


def finalize_templates(module):
    """Reads `_finalize_grammar`-style closure: returns list of
    (suffix char, [template strings]) describing which productions are added
    for a symbol ending in that char."""
    fn = None
    for f in module.funcs.values():
        # the function that loops over the handler dict and tests symbol[-1]
        src = module.seg(f.node)
        if "symbol[-1]" in src and ".format(" in src and f.parent is None:
            fn = f
            break
    if fn is None:
        raise AnalysisError(f"{module.rel}: grammar closure function not found")
    char_to_sets = {}
    set_templates = {}
    for node in ast.walk(fn.node):
        if isinstance(node, ast.If):
            t = node.test
            if (
                isinstance(t, ast.Compare)
                and len(t.ops) == 1
                and isinstance(t.ops[0], ast.Eq)
                and isinstance(t.comparators[0], ast.Constant)
                and "symbol[-1]" in ast.unparse(t.left)
            ):
                ch = t.comparators[0].value
                sets = []
                for st in node.body:
                    for c in ast.walk(st):
                        if isinstance(c, ast.Call) and isinstance(c.func, ast.Attribute) and c.func.attr == "add":
                            sets.append(dotted_name(c.func.value))
                char_to_sets[ch] = sets
        it = node.iter if isinstance(node, ast.For) else None
        if isinstance(it, ast.Call) and isinstance(it.func, ast.Name) and it.func.id in ("sorted", "list", "tuple", "set", "frozenset") \
                and len(it.args) >= 1 and isinstance(it.args[0], ast.Name):
            it = it.args[0]
        if isinstance(node, ast.For) and isinstance(it, ast.Name):
            sname = it.id
            for c in ast.walk(node):
                if (
                    isinstance(c, ast.Call)
                    and isinstance(c.func, ast.Attribute)
                    and c.func.attr == "format"
                    and isinstance(c.func.value, ast.Constant)
                ):
                    set_templates.setdefault(sname, []).append(c.func.value.value)
    if not char_to_sets or not set_templates:
        raise AnalysisError(f"{module.rel}: cannot interpret grammar closure function")
    out = {}
    for ch, sets in char_to_sets.items():
        tpls = []
        for s in sets:
            tpls.extend(set_templates.get(s, []))
        out[ch] = tpls
    return fn, out


def close_productions(prods, templates):
    """Applies the closure once over the decorator productions (as the source does)."""
    out = list(prods)
    seen = set(prods)
    bases = {}
    for _, rhs in prods:
        for sym in rhs:
            if sym and sym[-1] in templates:
                bases.setdefault(sym[-1], set()).add(sym[:-1])
    for ch, syms in bases.items():
        for s in sorted(syms):
            for t in templates[ch]:
                p = parse_production(t.format(s=s))
                if p not in seen:
                    seen.add(p)
                    out.append(p)
    return out


def ir_grammar(repo):
    m = repo.mod(MODULE_IR)
    dp = DecoratedProductions(m, {"_handles"})
    fn, tpl = finalize_templates(m)
    prods = close_productions(dp.productions(), tpl)
    start = expr_start = None
    for name, vals in m.assigns.items():
        if name == "START_SYMBOL":
            start = _const_text(vals[-1])
        if name == "EXPRESSION_START_SYMBOL":
            expr_start = _const_text(vals[-1])
    if not start or not expr_start:
        raise AnalysisError("module_ir: START_SYMBOL / EXPRESSION_START_SYMBOL not literal")
    return {
        "decorated": dp,
        "productions": prods,
        "templates": tpl,
        "start": start,
        "expr_start": expr_start,
        "closure_fn": fn,
    }


def fmt_grammar(repo):
    m = repo.mod(FORMAT_EMB)
    dp = DecoratedProductions(m, {"_formats", "_formats_with_config"})
    return dp


# --- doc/grammar.md -------------------------------------------------------------
def doc_grammar(repo):
    text = repo.read(GRAMMAR_MD)
    blocks = re.findall(r"```shell\n(.*?)```", text, re.S)
    if len(blocks) < 2:
        raise AnalysisError("doc/grammar.md: expected two ```shell production blocks")
    prods = []
    for block in blocks:
        lhs = None
        cur = None
        for line in block.splitlines():
            if not line.strip():
                continue
            m = re.match(r"^(\S+)\s+->\s*(.*)$", line)
            m2 = re.match(r"^\s+\|\s*(.*)$", line)
            if m:
                if cur is not None:
                    prods.append((lhs, tuple(cur)))
                lhs = m.group(1)
                cur = m.group(2).split()
            elif m2:
                if cur is not None:
                    prods.append((lhs, tuple(cur)))
                cur = m2.group(1).split()
            else:
                if cur is None:
                    raise AnalysisError(f"doc/grammar.md: stray line {line!r}")
                cur.extend(line.split())
        if cur is not None:
            prods.append((lhs, tuple(cur)))
    prods = [(l, () if r == ("<empty>",) else r) for l, r in prods]
    # token table
    toks = []
    for line in text.splitlines():
        m = re.match(r"^`(.*)`\s+\| (?:`(.*)`|\*no symbol emitted\*)\s*$", line)
        if m:
            toks.append((m.group(1), m.group(2)))
    return prods, toks


# --- tokenizer tables -----------------------------------------------------------------
REGEX_FLAGS = {}   # (repo root, line of the table entry) -> source text of the flags argument, if any


def tokenizer_tables(repo):
    m = repo.mod(TOKENIZER)
    lits = regs = None
    for name, vals in m.assigns.items():
        v = vals[-1]
        if name == "LITERAL_TOKEN_PATTERNS":
            # "...".split() or a list/tuple of strings
            if isinstance(v, ast.Call) and isinstance(v.func, ast.Attribute) and v.func.attr == "split" and not v.args:
                t = _const_text(v.func.value)
                if t is None:
                    raise AnalysisError("tokenizer: LITERAL_TOKEN_PATTERNS not literal")
                lits = t.split()
            elif isinstance(v, (ast.List, ast.Tuple)):
                lits = [_const_text(e) for e in v.elts]
        if name == "REGEX_TOKEN_PATTERNS" and isinstance(v, (ast.List, ast.Tuple)):
            regs = []
            for e in v.elts:
                if not (isinstance(e, ast.Call) and len(e.args) >= 2):
                    raise AnalysisError("tokenizer: REGEX_TOKEN_PATTERNS entry not a call")
                rc = e.args[0]
                if not (isinstance(rc, ast.Call) and call_name(rc) == "re.compile" and 1 <= len(rc.args) <= 2 and not rc.keywords) \
                        and not (isinstance(rc, ast.Call) and call_name(rc) == "re.compile" and len(rc.args) == 1 and
                                 all(k.arg == "flags" for k in rc.keywords)):
                    raise AnalysisError("tokenizer: regex entry is not re.compile(<literal>[, flags])")
                fl = rc.args[1] if len(rc.args) == 2 else next((k.value for k in rc.keywords if k.arg == "flags"), None)
                if fl is not None:
                    REGEX_FLAGS[(repo.root, e.lineno)] = ast.unparse(fl)
                pat = _const_text(rc.args[0])
                sym = e.args[1].value if isinstance(e.args[1], ast.Constant) else "?"
                if pat is None or sym == "?":
                    raise AnalysisError("tokenizer: regex entry not literal")
                regs.append((pat, sym, e.lineno))
    if not lits or not regs or any(x is None for x in lits):
        raise AnalysisError("tokenizer: pattern tables not found")
    return lits, regs


# --- cached parser ---------------------------------------------------------------
class CachedParser:
    """Evaluates generated/cached_parser.py without executing it."""

    def __init__(self, repo):
        src = repo.read(CACHED)
        digest = hashlib.sha256(src.encode()).hexdigest()
        cdir = os.path.join(VERIF, ".cache")
        cpath = os.path.join(cdir, f"cached_parser.{digest[:24]}.pkl")
        data = None
        if os.path.exists(cpath):
            try:
                with open(cpath, "rb") as fh:
                    data = pickle.load(fh)
            except Exception:
                data = None
        if data is None:
            data = self._evaluate(src)
            try:
                os.makedirs(cdir, exist_ok=True)
                tmp = cpath + f".{os.getpid()}.tmp"
                with open(tmp, "wb") as fh:
                    pickle.dump(data, fh, protocol=pickle.HIGHEST_PROTOCOL)
                os.replace(tmp, cpath)
            except OSError:
                pass
        self.parsers = data  # name -> dict(prods, goto, act, defe, conflicts, kwargs)

    @staticmethod
    def _evaluate(src):
        try:
            tree = ast.parse(src)
        except SyntaxError as e:
            raise AnalysisError(f"cached_parser.py does not parse: {e}")
        out = {}
        for node in tree.body:
            if isinstance(node, ast.FunctionDef):
                out[node.name] = CachedParser._eval_fn(node)
            elif isinstance(node, (ast.Import, ast.ImportFrom, ast.Expr)):
                continue
            else:
                raise AnalysisError(
                    f"cached_parser.py:{node.lineno}: unexpected top-level statement"
                )
        return out

    @staticmethod
    def _eval_fn(fn):
        env = {}
        ctor = {}  # alias -> kind

        def ev(n):
            if isinstance(n, ast.Constant):
                return n.value
            if isinstance(n, ast.Name):
                if n.id in env:
                    return env[n.id]
                raise AnalysisError(f"cached_parser.py:{n.lineno}: unbound name {n.id}")
            if isinstance(n, ast.Tuple):
                return tuple(ev(e) for e in n.elts)
            if isinstance(n, ast.Set):
                return frozenset(ev(e) for e in n.elts)
            if isinstance(n, ast.Dict):
                d = {}
                for k, v in zip(n.keys, n.values):
                    kk = ev(k)
                    if kk in d:
                        raise AnalysisError(f"cached_parser.py:{k.lineno}: duplicate dict key {kk!r}")
                    d[kk] = ev(v)
                return d
            if isinstance(n, ast.Call):
                fname = dotted_name(n.func)
                kind = ctor.get(fname, fname)
                args = [ev(a) for a in n.args]
                if kind == "P":
                    if len(args) != 2 or not isinstance(args[1], tuple):
                        raise AnalysisError(f"cached_parser.py:{n.lineno}: bad Production")
                    return ("P", args[0], args[1])
                if kind == "S":
                    return ("S", args[0])
                if kind == "R":
                    return ("R", args[0])
                if kind == "A":
                    return ("A",)
                if kind == "E":
                    return ("E", args[0])
                if kind == "set" and not args:
                    return frozenset()
                raise AnalysisError(f"cached_parser.py:{n.lineno}: unexpected call {fname}")
            raise AnalysisError(f"cached_parser.py:{n.lineno}: unexpected expression {type(n).__name__}")

        result = None
        for st in fn.body:
            if isinstance(st, ast.Expr) and isinstance(st.value, ast.Constant):
                continue
            if isinstance(st, ast.Assign) and len(st.targets) == 1 and isinstance(st.targets[0], ast.Name):
                name = st.targets[0].id
                v = st.value
                # constructor aliases
                dn = dotted_name(v) if isinstance(v, (ast.Name, ast.Attribute)) else None
                if dn == "parser_types.Production":
                    ctor[name] = "P"
                    continue
                if dn == "lr1.Reduce":
                    ctor[name] = "R"
                    continue
                if dn == "lr1.Accept":
                    ctor[name] = "A"
                    continue
                if dn == "lr1.Error":
                    ctor[name] = "E"
                    continue
                if isinstance(v, ast.Lambda):
                    body = v.body
                    if (
                        isinstance(body, ast.Call)
                        and dotted_name(body.func) == "lr1.Shift"
                        and len(v.args.args) == 1
                        and isinstance(body.args[0], ast.Name)
                        and body.args[0].id == v.args.args[0].arg
                    ):
                        ctor[name] = "S"
                        continue
                    raise AnalysisError(f"cached_parser.py:{st.lineno}: unexpected lambda")
                env[name] = ev(v)
                continue
            if isinstance(st, ast.Return):
                call = st.value
                if not (isinstance(call, ast.Call) and dotted_name(call.func) == "lr1.Parser"):
                    raise AnalysisError("cached_parser.py: return is not lr1.Parser(...)")
                kw = {}
                for k in call.keywords:
                    kw[k.arg] = ev(k.value)
                if call.args:
                    raise AnalysisError("cached_parser.py: positional Parser() args")
                result = kw
                continue
            raise AnalysisError(f"cached_parser.py:{st.lineno}: unexpected statement")
        if result is None:
            raise AnalysisError(f"cached_parser.py: {fn.name} has no return")
        return result
