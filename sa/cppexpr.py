"""A typed folder for C++ integer constant expressions (no execution of the repository's code).

The runtime's range predicates are written as integer expressions over a template parameter (`kBits`) and a
value type.  Whether they denote the language-level ranges depends on C++'s integer promotions, usual
arithmetic conversions and modular unsigned arithmetic, so the folder tracks a C++ type (signedness, width)
for every intermediate value, follows the LP64 model the runtime targets (int 32, long 64), evaluates `?:`,
`&&`, `||` lazily (as the language does) and *reports* undefined behaviour (shift by a negative or
too-large count, signed overflow, left shift of a negative value) instead of producing a number.

Supported: integer literals with suffixes, names bound in the environment (values or types), `static_cast<T>(e)`,
`T{e}` / `T(e)` for environment types, unary - ~ ! +, binary * / % + - << >> < <= > >= == != & ^ | && ||, `?:`,
`sizeof(T)` / `sizeof e`, `::std::numeric_limits<T>::max()/min()`, `::std::is_signed<...>::value`
(environment), calls of one-expression constexpr functions given as source (`return <expr>;`)."""
from __future__ import annotations

import re

from .cppast import tokens as _tokens


class UB(Exception):
    pass


class Unsupported(Exception):
    pass


class T:
    """A C++ integer type."""
    __slots__ = ("signed", "bits")

    def __init__(self, signed, bits):
        self.signed, self.bits = signed, bits

    def __eq__(self, o):
        return isinstance(o, T) and (self.signed, self.bits) == (o.signed, o.bits)

    def __hash__(self):
        return hash((self.signed, self.bits))

    def __repr__(self):
        return f"{'int' if self.signed else 'uint'}{self.bits}_t"

    @property
    def lo(self):
        return -(1 << (self.bits - 1)) if self.signed else 0

    @property
    def hi(self):
        return (1 << (self.bits - 1)) - 1 if self.signed else (1 << self.bits) - 1

    def wrap(self, v):
        v &= (1 << self.bits) - 1
        if self.signed and v >> (self.bits - 1):
            v -= 1 << self.bits
        return v


INT, UINT, LONG, ULONG = T(True, 32), T(False, 32), T(True, 64), T(False, 64)
BOOL = T(False, 1)
BUILTIN_TYPES = {
    "int": INT, "unsigned": UINT, "long": LONG, "bool": BOOL, "char": T(True, 8),
    "uint8_t": T(False, 8), "uint16_t": T(False, 16), "uint32_t": UINT, "uint64_t": ULONG,
    "int8_t": T(True, 8), "int16_t": T(True, 16), "int32_t": INT, "int64_t": LONG, "size_t": ULONG,
}


class V:
    __slots__ = ("t", "v")

    def __init__(self, t, v):
        if not (t.lo <= v <= t.hi) and t != BOOL:
            raise AssertionError(f"value {v} outside {t}")
        self.t, self.v = t, v

    def __repr__(self):
        return f"{self.t!r}({self.v})"


def promote(x: V) -> V:
    if x.t.bits < 32:
        return V(INT, x.v)
    return x


def convert(x: V, t: T) -> V:
    if t == BOOL:
        return V(BOOL, 1 if x.v else 0)
    return V(t, t.wrap(x.v))


def common(a: V, b: V):
    a, b = promote(a), promote(b)
    if a.t == b.t:
        return a, b, a.t
    if a.t.signed == b.t.signed:
        t = a.t if a.t.bits >= b.t.bits else b.t
    else:
        u, s = (a.t, b.t) if not a.t.signed else (b.t, a.t)
        if u.bits >= s.bits:
            t = u
        else:
            t = s  # the wider signed type represents every value of the narrower unsigned one
    return convert(a, t), convert(b, t), t


# ------------------------------------------------------------------------------------------------- parser
_BIN_PREC = [
    ("||",), ("&&",), ("|",), ("^",), ("&",), ("==", "!="), ("<", "<=", ">", ">="), ("<<", ">>"), ("+", "-"), ("*", "/", "%"),
]


_TEMPLATE_NAMES = {"numeric_limits", "is_signed", "remove_cv", "remove_reference", "LeastWidthInteger", "make_unsigned", "make_signed", "underlying_type"}


class Parser:
    def __init__(self, toks, type_names):
        self.toks = [t for t in toks if t != "/**/"]
        self.i = 0
        self.type_names = type_names

    def peek(self, k=0):
        return self.toks[self.i + k] if self.i + k < len(self.toks) else None

    def take(self, want=None):
        t = self.peek()
        if t is None or (want is not None and t != want):
            raise Unsupported(f"expected {want!r}, got {t!r} at {self.i}: {' '.join(self.toks[max(0, self.i - 6):self.i + 4])}")
        self.i += 1
        return t

    # type-id: [typename] [::] a :: b < ... > :: c ...
    def try_type(self):
        save = self.i
        parts = []
        if self.peek() == "typename":
            self.take()
        if self.peek() == "::":
            self.take()
        while True:
            t = self.peek()
            if t is None or not re.fullmatch(r"[A-Za-z_]\w*", t):
                self.i = save
                return None
            self.take()
            name = t
            if self.peek() == "<" and name in _TEMPLATE_NAMES:
                depth = 0
                inner = []
                while True:
                    x = self.take()
                    if x == "<":
                        depth += 1
                    elif x == ">":
                        depth -= 1
                        if depth == 0:
                            break
                    elif x == ">>":
                        depth -= 2
                        if depth <= 0:
                            break
                    inner.append(x)
                name += "<" + " ".join(inner[1:]) + ">"
            parts.append(name)
            if self.peek() == "::" and re.fullmatch(r"[A-Za-z_]\w*", self.peek(1) or ""):
                self.take()
                continue
            break
        q = "::".join(parts)
        q = re.sub(r"^std::", "", q)
        # make_unsigned<T>::type / make_signed<T>::type, T possibly underlying_type<E>::type
        flat = q.replace(" ", "").replace("typename", "").replace("::std::", "").replace("std::", "")
        mk = re.fullmatch(r"make_(un)?signed<(.+)>::type", flat)
        if mk:
            inner = mk.group(2)
            ui = re.fullmatch(r"underlying_type<([\w:]+)>::type", inner)
            if ui:
                inner = ui.group(1)
            if inner in self.type_names or inner in BUILTIN_TYPES:
                return f"make_{'un' if mk.group(1) else ''}signed<{inner}>"
        # the underlying type of an enum is modelled as the enum's own integer type in the environment
        um = re.fullmatch(r"underlying_type<\s*(?:typename\s+)?([\w:]+?)\s*>::type", q)
        if um and (um.group(1) in self.type_names or um.group(1) in BUILTIN_TYPES):
            return um.group(1)
        if q in self.type_names or q in BUILTIN_TYPES:
            return q
        self.i = save
        return None

    def expr(self):
        return self.ternary()

    def ternary(self):
        c = self.binary(0)
        if self.peek() == "?":
            self.take()
            a = self.expr()
            self.take(":")
            b = self.ternary()
            return ("?:", c, a, b)
        return c

    def binary(self, level):
        if level == len(_BIN_PREC):
            return self.unary()
        left = self.binary(level + 1)
        while self.peek() in _BIN_PREC[level]:
            op = self.take()
            right = self.binary(level + 1)
            left = ("bin", op, left, right)
        return left

    def unary(self):
        t = self.peek()
        if t in ("-", "~", "!", "+"):
            self.take()
            return ("un", t, self.unary())
        if t == "sizeof":
            self.take()
            if self.peek() == "(":
                save = self.i
                self.take("(")
                ty = self.try_type()
                if ty is not None and self.peek() == ")":
                    self.take(")")
                    return ("sizeof-type", ty)
                self.i = save
            return ("sizeof-expr", self.unary())
        return self.postfix()

    def postfix(self):
        t = self.peek()
        if t == "(":
            self.take()
            e = self.expr()
            self.take(")")
            return e
        if t == "static_cast":
            self.take()
            self.take("<")
            ty = self.try_type()
            if ty is None:
                raise Unsupported(f"unknown type in static_cast near {' '.join(self.toks[self.i:self.i + 6])}")
            self.take(">")
            self.take("(")
            e = self.expr()
            self.take(")")
            return ("cast", ty, e)
        if t is not None and re.fullmatch(r"\d+[uUlL]*|0[xX][0-9a-fA-F]+[uUlL]*", t):
            self.take()
            return ("lit", t)
        # type{e} / type(e) / numeric_limits<T>::max() / qualified name / call
        save = self.i
        ty = self.try_type()
        if ty is not None and self.peek() in ("{", "("):
            close = "}" if self.take() == "{" else ")"
            e = self.expr()
            self.take(close)
            return ("cast", ty, e)
        self.i = save
        # qualified id
        if self.peek() == "::":
            self.take()
        parts = []
        targs = None
        while True:
            n = self.take()
            if not re.fullmatch(r"[A-Za-z_]\w*", n):
                raise Unsupported(f"unexpected token {n!r}")
            if n == "template":
                continue
            parts.append(n)
            if self.peek() == "<" and parts[-1] in ("numeric_limits", "is_signed", "MaxBcd", "MaskToNBits"):
                depth = 0
                inner = []
                while True:
                    x = self.take()
                    if x == "<":
                        depth += 1
                    elif x == ">":
                        depth -= 1
                        if depth == 0:
                            break
                    inner.append(x)
                targs = inner[1:]
            if self.peek() == "::":
                self.take()
                continue
            break
        name = "::".join(p for p in parts if p not in ("std", "emboss", "support"))
        if self.peek() == "(":
            self.take()
            args = []
            if self.peek() != ")":
                args.append(self.expr())
                while self.peek() == ",":
                    self.take()
                    args.append(self.expr())
            self.take(")")
            return ("call", name, targs, args)
        return ("name", name, targs)


def parse(text_or_tokens, type_names=()):
    toks = _tokens(text_or_tokens) if isinstance(text_or_tokens, str) else list(text_or_tokens)
    p = Parser(toks, set(type_names))
    e = p.expr()
    if p.peek() is not None:
        raise Unsupported(f"trailing tokens: {' '.join(p.toks[p.i:p.i + 8])}")
    return e


# ------------------------------------------------------------------------------------------------- evaluation
class Env:
    def __init__(self, values=None, types=None, functions=None):
        self.values = dict(values or {})      # name -> V
        self.types = dict(types or {})        # name -> T
        self.functions = dict(functions or {})  # name -> (params, expr ast, declared return type name or None)

    def type(self, name):
        if name in self.types:
            return self.types[name]
        mk = re.fullmatch(r"make_(un)?signed<(.+)>", name)
        if mk:
            return T(not mk.group(1), self.type(mk.group(2)).bits)
        if name in BUILTIN_TYPES:
            return BUILTIN_TYPES[name]
        raise Unsupported(f"unknown type {name}")


def _literal(tok):
    m = re.fullmatch(r"(0[xX][0-9a-fA-F]+|\d+)([uUlL]*)", tok)
    body, suf = m.group(1), m.group(2).lower()
    val = int(body, 16) if body.lower().startswith("0x") else int(body, 8 if len(body) > 1 and body[0] == "0" else 10)
    is_hex = body.lower().startswith("0x") or (len(body) > 1 and body[0] == "0")
    cands = []
    if "u" in suf:
        cands = [UINT, ULONG] if "l" not in suf else [ULONG]
    elif "l" in suf:
        cands = [LONG, ULONG] if is_hex else [LONG]
    else:
        cands = [INT, UINT, LONG, ULONG] if is_hex else [INT, LONG]
    for t in cands:
        if t.lo <= val <= t.hi:
            return V(t, val)
    raise Unsupported(f"literal {tok} too large")


def evaluate(e, env: Env, depth=0):
    if depth > 200:
        raise Unsupported("recursion too deep")
    k = e[0]
    if k == "lit":
        return _literal(e[1])
    if k == "name":
        n = e[1]
        if n in env.values:
            return env.values[n]
        if n.endswith("::value") and n in env.values:
            return env.values[n]
        raise Unsupported(f"unbound name {n}")
    if k == "cast":
        return convert(evaluate(e[2], env, depth + 1), env.type(e[1]))
    if k == "sizeof-type":
        return V(ULONG, max(1, env.type(e[1]).bits // 8))
    if k == "sizeof-expr":
        return V(ULONG, max(1, evaluate(e[1], env, depth + 1).t.bits // 8))
    if k == "?:":
        c = evaluate(e[1], env, depth + 1)
        return evaluate(e[2] if c.v else e[3], env, depth + 1)  # note: result type unification is not needed for the comparisons decided here
    if k == "un":
        x = promote(evaluate(e[2], env, depth + 1))
        if e[1] == "!":
            return V(BOOL, 0 if x.v else 1)
        if e[1] == "+":
            return x
        if e[1] == "~":
            return V(x.t, x.t.wrap(~x.v))
        if e[1] == "-":
            r = -x.v
            if x.t.signed and not (x.t.lo <= r <= x.t.hi):
                raise UB(f"signed overflow in -({x})")
            return V(x.t, x.t.wrap(r))
    if k == "bin":
        op = e[1]
        if op == "&&":
            a = evaluate(e[2], env, depth + 1)
            if not a.v:
                return V(BOOL, 0)
            return V(BOOL, 1 if evaluate(e[3], env, depth + 1).v else 0)
        if op == "||":
            a = evaluate(e[2], env, depth + 1)
            if a.v:
                return V(BOOL, 1)
            return V(BOOL, 1 if evaluate(e[3], env, depth + 1).v else 0)
        a = evaluate(e[2], env, depth + 1)
        b = evaluate(e[3], env, depth + 1)
        if op in ("<<", ">>"):
            a, b = promote(a), promote(b)
            if b.v < 0 or b.v >= a.t.bits:
                raise UB(f"shift of {a.t!r} by {b.v}")
            if op == "<<":
                if a.t.signed:
                    if a.v < 0:
                        raise UB(f"left shift of negative value {a.v}")
                    r = a.v << b.v
                    if r > T(False, a.t.bits).hi:
                        raise UB(f"signed left shift overflow: {a.v} << {b.v} in {a.t!r}")
                    return V(a.t, a.t.wrap(r))
                return V(a.t, a.t.wrap(a.v << b.v))
            return V(a.t, a.v >> b.v)
        a, b, t = common(a, b)
        if op in ("<", "<=", ">", ">=", "==", "!="):
            r = {"<": a.v < b.v, "<=": a.v <= b.v, ">": a.v > b.v, ">=": a.v >= b.v, "==": a.v == b.v, "!=": a.v != b.v}[op]
            return V(BOOL, 1 if r else 0)
        if op in ("&", "|", "^"):
            r = {"&": a.v & b.v, "|": a.v | b.v, "^": a.v ^ b.v}[op]
            return V(t, t.wrap(r))
        if op in ("/", "%"):
            if b.v == 0:
                raise UB("division by zero")
            q = abs(a.v) // abs(b.v) * (1 if (a.v >= 0) == (b.v >= 0) else -1)
            r = q if op == "/" else a.v - q * b.v
        else:
            r = {"+": a.v + b.v, "-": a.v - b.v, "*": a.v * b.v}[op]
        if t.signed and not (t.lo <= r <= t.hi):
            raise UB(f"signed overflow: {a.v} {op} {b.v} in {t!r}")
        return V(t, t.wrap(r))
    if k == "call":
        name = e[1]
        if name == "numeric_limits::max" or name == "numeric_limits::min":
            ty = env.type(re.sub(r"^(:: )?std :: ", "", " ".join(e[2])).replace(":: std :: ", "").replace(" ", "")
                          if e[2] else "int")
            return V(ty, ty.hi if name.endswith("max") else ty.lo)
        if name in env.functions:
            params, body, rett, type_params = env.functions[name]
            args = [evaluate(a, env, depth + 1) for a in e[3]]
            sub = Env(env.values, env.types, env.functions)
            if e[2] and type_params:
                targ = re.sub(r"^(:: )?std :: ", "", " ".join(e[2])).replace(" ", "").replace("::std::", "")
                sub.types[type_params[0]] = env.type(targ)
            elif type_params and args:
                sub.types[type_params[0]] = args[0].t  # deduced from the first argument
            for (pt, pn), a in zip(params, args):
                sub.values[pn] = convert(a, sub.type(pt)) if pt else a
            r = evaluate(body, sub, depth + 1)
            return convert(r, sub.type(rett)) if rett else r
        raise Unsupported(f"call of unknown function {name}")
    raise Unsupported(f"unsupported node {k}")


def function_from_source(body_text, params, ret_type, type_params=()):
    """A one-expression constexpr function `{ [static_assert(...);] return <expr>; }` -> entry for Env.functions."""
    body = re.sub(r"//[^\n]*", "", body_text)
    body = re.sub(r"static_assert\s*\((?:[^()]|\([^()]*\))*\)\s*;", "", body, flags=re.S)
    m = re.fullmatch(r"\s*\{\s*return\s+(.*);\s*\}\s*", body, re.S)
    if not m:
        raise Unsupported("function body is not a single return statement")
    return m.group(1)
