"""R-WIDTHS: compile witnesses.  A generated translation unit explicitly instantiates every scalar view
(and its member templates) for every width the front end admits, in every container size, for the byte
orderers, with static_asserts on the value type's width and signedness.  clang's type checker
(-fsyntax-only) is the deciding step; nothing is linked or run.  A companion unit with widths the runtime
must refuse is the positive control."""
from __future__ import annotations

import os
import re
import shutil
import subprocess
import tempfile

from ..cppast import RUNTIME, clang
from ..report import AnalysisError, RuleResult

PRELUDE_EMB = "compiler/front_end/prelude.emb"
INT_TYPES = ["::std::int8_t", "::std::uint8_t", "::std::int16_t", "::std::uint16_t", "::std::int32_t",
             "::std::uint32_t", "::std::int64_t", "::std::uint64_t"]
FLAGS = ["-Wall", "-Wextra", "-Werror=shift-count-overflow", "-Werror=shift-count-negative",
         "-Werror=integer-overflow", "-Werror=division-by-zero", "-Wno-unused", "-ferror-limit=20"]


def admitted_widths(repo):
    """{type: sorted widths} from the static_requirements of prelude.emb (intervals / equalities on
    $static_size_in_bits)."""
    text = repo.read(PRELUDE_EMB)
    out = {}
    cur = None
    for line in text.splitlines():
        s = line.strip()
        if line.startswith("external "):
            cur = s.split()[1].rstrip(":")
        elif cur and s.startswith("[static_requirements:"):
            m = re.search(r"(\d+)\s*<=\s*\$static_size_in_bits\s*<=\s*(\d+)", s)
            if m:
                out[cur] = list(range(int(m.group(1)), int(m.group(2)) + 1))
                continue
            eqs = re.findall(r"\$static_size_in_bits\s*==\s*(\d+)", s)
            if eqs:
                out[cur] = sorted(int(x) for x in eqs)
                continue
            raise AnalysisError(f"prelude.emb: cannot interpret static_requirements of {cur}: {s}")
    for need in ("UInt", "Int", "Bcd", "Flag", "Float"):
        if need not in out:
            raise AnalysisError(f"prelude.emb: no static_requirements found for {need}")
    return out


HEADER = '''#include <cstdint>
#include <type_traits>
#include "runtime/cpp/emboss_prelude.h"
#include "runtime/cpp/emboss_enum_view.h"
namespace w {
using namespace ::emboss::support;
using namespace ::emboss::prelude;
using Buf = ContiguousBuffer<unsigned char, 1, 0>;
template <int kBits> using P = FixedSizeViewParameters<kBits, AllValuesAreOk>;
template <int N> using LE = BitBlock<LittleEndianByteOrderer<Buf>, N>;
template <int N> using BE = BitBlock<BigEndianByteOrderer<Buf>, N>;
using NU = BitBlock<NullByteOrderer<Buf>, 8>;
template <int N> using OLE = OffsetBitBlock<LE<N>>;
template <int N> using OBE = OffsetBitBlock<BE<N>>;
using ONU = OffsetBitBlock<NU>;
}  // namespace w
using namespace w;
using ::emboss::prelude::UIntView; using ::emboss::prelude::IntView; using ::emboss::prelude::BcdView;
using ::emboss::prelude::FlagView; using ::emboss::prelude::FloatView; using ::emboss::support::EnumView;
'''


def _containers(w):
    return [c for c in range(8, 65, 8) if c >= w]


def build_unit(widths, full):
    """Returns (text, number of explicit instantiations)."""
    lines = [HEADER]
    n = 0

    def blocks(w):
        """Storage types a field of width w can sit in."""
        out = []
        if w % 8 == 0:
            out += [f"LE<{w}>", f"BE<{w}>"] + (["NU"] if w == 8 else [])
        cs = _containers(w) if full else sorted({_containers(w)[0], 64})
        for c in cs:
            out += [f"OLE<{c}>", f"OBE<{c}>"] if full or c == cs[0] else [f"OLE<{c}>"]
        if w <= 8:
            out.append("ONU")
        return list(dict.fromkeys(out))

    for view, key, signed in (("UIntView", "UInt", False), ("IntView", "Int", True), ("BcdView", "Bcd", False)):
        for w in widths[key]:
            for b in blocks(w):
                t = f"{view}<P<{w}>, {b}>"
                lines.append(f"template class ::emboss::prelude::{t};")
                n += 1
                lines.append(f"static_assert(sizeof({t}::ValueType) * 8 >= {w}, \"{view} value type too narrow for {w} bits\");")
                sg = "" if signed else "!"
                lines.append(f"static_assert({sg}::std::is_signed<{t}::ValueType>::value, \"{view}<{w}> signedness\");")
            if view != "BcdView":
                # member templates over the argument integer type
                bs = blocks(w) if full else blocks(w)[:1]
                for b in bs:
                    t = f"{view}<P<{w}>, {b}>"
                    for it in INT_TYPES:
                        lines.append(f"template bool ::emboss::prelude::{t}::CouldWriteValue<{it}>({it});")
                        lines.append(f"template bool ::emboss::prelude::{t}::TryToWrite<{it}>({it}) const;")
                        lines.append(f"template void ::emboss::prelude::{t}::Write<{it}>({it}) const;")
                        n += 3
    for w in widths["Flag"]:
        for b in ["OLE<8>", "OBE<64>", "ONU"]:
            lines.append(f"template class ::emboss::prelude::FlagView<P<{w}>, {b}>;")
            n += 1
    for w in widths["Float"]:
        for b in [f"LE<{w}>", f"BE<{w}>", f"OLE<64>"]:
            t = f"FloatView<P<{w}>, {b}>"
            lines.append(f"template class ::emboss::prelude::{t};")
            n += 1
            ft = "float" if w == 32 else "double"
            lines.append(f"static_assert(::std::is_same<{t}::ValueType, {ft}>::value, \"Float:{w} value type\");")
    # enums over every fixed-width underlying type and every width that fits it
    for i, it in enumerate(INT_TYPES):
        bits = int(re.search(r"(\d+)_t", it).group(1))
        lines.append(f"enum class E{i} : {it} {{ kA = 0, kB = 1 }};")
        ws = range(1, bits + 1) if full else sorted({1, bits - 1 if bits > 1 else 1, bits})
        for w in ws:
            for b in (sorted({f"OLE<{_containers(w)[0]}>", "OLE<64>"}) + ([f"LE<{w}>", f"BE<{w}>"] if w % 8 == 0 else [])):
                t = f"EnumView<E{i}, P<{w}>, {b}>"
                lines.append(f"template class ::emboss::support::{t};")
                n += 1
    return "\n".join(lines) + "\n", n


NEGATIVE_UNITS = {
    "UInt:65": "template class ::emboss::prelude::UIntView<P<65>, OLE<64>>;",
    "Int:65": "template class ::emboss::prelude::IntView<P<65>, OLE<64>>;",
    "Float:16": "template class ::emboss::prelude::FloatView<P<16>, LE<16>>;",
    "Flag:2": "template class ::emboss::prelude::FlagView<P<2>, OLE<8>>;",
    "BitBlock:72": "template class ::emboss::prelude::UIntView<P<8>, OffsetBitBlock<BitBlock<LittleEndianByteOrderer<Buf>, 72>>>;",
}


def widths(repo, tier="quick", stds=None):
    res = RuleResult("R-WIDTHS")
    adm = admitted_widths(repo)
    full = tier == "thorough"
    stds = stds or (["c++11", "c++14", "c++17"] if full else ["c++11", "c++17"])
    text, n = build_unit(adm, full)
    tmp = tempfile.mkdtemp(prefix="verif_widths_")
    try:
        inc = os.path.join(tmp, "inc")
        os.makedirs(os.path.join(inc, RUNTIME))
        for name in os.listdir(os.path.join(repo.root, RUNTIME)):
            if name.endswith(".h"):
                with open(os.path.join(inc, RUNTIME, name), "w") as fh:
                    fh.write(repo.read(f"{RUNTIME}/{name}"))
        tu = os.path.join(tmp, "widths.cc")
        with open(tu, "w") as fh:
            fh.write(text)
        procs = []
        for std in stds:
            procs.append((std, subprocess.Popen([clang(), f"-std={std}", "-fsyntax-only", "-I", inc] + FLAGS + [tu],
                                                stdout=subprocess.PIPE, stderr=subprocess.PIPE, text=True)))
        # negative units (positive control of the witness itself)
        negs = []
        for key, decl in NEGATIVE_UNITS.items():
            ntu = os.path.join(tmp, f"neg_{len(negs)}.cc")
            with open(ntu, "w") as fh:
                fh.write(HEADER + decl + "\n")
            negs.append((key, subprocess.Popen([clang(), "-std=c++14", "-fsyntax-only", "-I", inc, ntu],
                                               stdout=subprocess.PIPE, stderr=subprocess.PIPE, text=True)))
        for std, p in procs:
            out, err = p.communicate()
            res.instances += n
            if p.returncode != 0:
                errs = [l for l in err.splitlines() if "error:" in l]
                seen = set()
                for e in errs[:6]:
                    m = re.search(r"inc/(runtime/cpp/[\w.]+):(\d+):\d+: error: (.*)", e)
                    inst = re.search(r"(U?IntView|BcdView|FlagView|FloatView|EnumView)<[^;]*?>", err)
                    file, line, msg = (m.group(1), int(m.group(2)), m.group(3)) if m else ("", 0, e[-160:])
                    k = f"{file}|{msg[:60]}"
                    if k in seen:
                        continue
                    seen.add(k)
                    res.add(f"compile|{file}|{msg[:50]}", f"a width/container combination the front end admits does not "
                            f"instantiate under -std={std}: {msg[:200]}", file, line)
                if not errs:
                    res.add(f"compile|{std}", f"witness unit rejected under -std={std}: {err[-300:]}")
        silent = []
        for key, p in negs:
            _, nerr = p.communicate()
            # the unit must be refused *by a static_assert of the runtime* (not by an unrelated error)
            if p.returncode == 0 or not re.search(r"static[_ ]assert", nerr):
                silent.append(key)
        res.control_fired = not silent
        if silent:
            res.notes.append(f"negative units accepted by the runtime: {silent}")
            for key in silent:
                res.add(f"negative|{key}", f"the runtime accepts {key}, which the front end rejects and the runtime is "
                        "documented to refuse (its static_assert is gone): the admitted-width witness is no longer "
                        "anchored", "runtime/cpp/emboss_prelude.h")
    finally:
        shutil.rmtree(tmp, ignore_errors=True)
    res.detail = {"instantiations_per_standard": n, "standards": stds, "admitted": {k: (v[0], v[-1], len(v)) for k, v in adm.items()},
                  "negative_units": sorted(NEGATIVE_UNITS)}
    res.samples = ["template class UIntView<P<63>, OLE<64>>;", "template bool IntView<P<1>, OLE<8>>::TryToWrite<::std::int8_t>(::std::int8_t) const;",
                   "static_assert(sizeof(IntView<P<64>, LE<64>>::ValueType) * 8 >= 64)"]
    res.analysed = [PRELUDE_EMB] + [f"{RUNTIME}/{h}" for h in ("emboss_prelude.h", "emboss_enum_view.h", "emboss_memory_util.h",
                                                               "emboss_bit_util.h", "emboss_cpp_types.h")]
    return res
