"""R-SCHEMATYPE: the IR schema types attribute chains.

(a) an expression that is always an IR message must not be compared with a str/int/bool
    literal (the comparison is constantly False/True);
(b) an expression that is always an IR message must not be passed in a position whose role
    is a file name string (parameters named source_file_name / module_source_file /
    file_name of intra-repo functions, first argument of error.error/warn/note).
R-FORMATARITY: literal "...".format(...) calls supply every placeholder.
"""
from __future__ import annotations

import ast
import string

from ..irschema import Schema
from ..pyfacts import Func, Repo, call_name, dotted_name, func_params, walk_no_nested_funcs
from ..report import AnalysisError, RuleResult

ROLE_PARAMS = {"source_file_name", "module_source_file", "file_name"}
ERROR_CTORS = {"error.error", "error.warn", "error.note"}


class Typer:
    def __init__(self, repo: Repo, schema: Schema):
        self.repo = repo
        self.schema = schema
        self.attr = schema.attr_types()
        self.non_ir = self._non_ir_attrs()

    def _non_ir_attrs(self):
        """Attribute names declared by non-IR classes of the repository."""
        out = set()
        for m in self.repo.compile_path_modules():
            is_ir = m.rel == "compiler/util/ir_data.py"
            for name, vals in m.assigns.items():
                v = vals[-1]
                if isinstance(v, ast.Call) and (call_name(v) or "").endswith("namedtuple") and len(v.args) >= 2:
                    f = v.args[1]
                    if isinstance(f, (ast.List, ast.Tuple)):
                        out |= {e.value for e in f.elts if isinstance(e, ast.Constant)}
                    elif isinstance(f, ast.Constant) and isinstance(f.value, str):
                        out |= set(f.value.replace(",", " ").split())
            for cname, cnode in m.classes.items():
                if is_ir and cname in self.schema.classes:
                    continue
                for n in ast.walk(cnode):
                    if isinstance(n, ast.Attribute) and isinstance(n.ctx, ast.Store) and isinstance(n.value, ast.Name) \
                            and n.value.id == "self":
                        out.add(n.attr)
                    if isinstance(n, ast.Assign) and any(isinstance(t, ast.Name) and t.id == "__slots__" for t in n.targets):
                        for c in ast.walk(n.value):
                            if isinstance(c, ast.Constant) and isinstance(c.value, str):
                                out.add(c.value)
                    if isinstance(n, ast.AnnAssign) and isinstance(n.target, ast.Name):
                        out.add(n.target.id)
                    if isinstance(n, ast.ClassDef) and n is not cnode:
                        pass
                # namedtuple base classes: class X(collections.namedtuple("X", [...]))
                for b in cnode.bases:
                    if isinstance(b, ast.Call) and (call_name(b) or "").endswith("namedtuple") and len(b.args) >= 2:
                        f = b.args[1]
                        if isinstance(f, (ast.List, ast.Tuple)):
                            out |= {e.value for e in f.elts if isinstance(e, ast.Constant)}
        return out

    def types_of(self, e):
        """Set of (type, is_list) the expression may have according to the schema, or None."""
        if isinstance(e, ast.Attribute):
            if e.attr in self.non_ir:
                return None
            cands = self.attr.get(e.attr)
            if not cands:
                return None
            base = self.types_of(e.value)
            if base:
                owners = {t for t, is_list in base if not is_list}
                narrowed = {(ty, il) for (owner, ty, il) in cands if owner in owners}
                if narrowed:
                    return narrowed
                if owners and all(o in self.schema.classes for o in owners):
                    return None  # attribute not declared on the inferred owner: give up
            return {(ty, il) for (_, ty, il) in cands}
        if isinstance(e, ast.Subscript):
            base = self.types_of(e.value)
            if base and all(il for _, il in base) and not isinstance(e.slice, ast.Slice):
                return {(ty, False) for ty, _ in base}
            return None
        if isinstance(e, ast.Call) and isinstance(e.func, ast.Attribute) and e.func.attr in ("reader", "builder") and e.args:
            return self.types_of(e.args[0])
        return None

    def always_message(self, e):
        ts = self.types_of(e)
        if not ts:
            return None
        if all((ty in self.schema.classes) for ty, il in ts):
            return sorted({("list of " if il else "") + ty for ty, il in ts})
        return None


def _literal(e):
    return isinstance(e, ast.Constant) and isinstance(e.value, (str, int, bool)) and e.value is not None


def schemacmp(repo, schema=None, modules=None):
    res = RuleResult("R-SCHEMACMP")
    schema = schema or Schema(repo)
    ty = Typer(repo, schema)
    for m in (modules or repo.compile_path_modules()):
        for n in ast.walk(m.tree):
            if isinstance(n, ast.Compare) and len(n.ops) == 1 and isinstance(n.ops[0], (ast.Eq, ast.NotEq, ast.In, ast.NotIn)):
                l, r = n.left, n.comparators[0]
                pairs = [(l, r), (r, l)]
                for a, b in pairs:
                    lit = _literal(b) or (isinstance(b, (ast.Tuple, ast.List, ast.Set)) and b.elts and all(_literal(x) for x in b.elts))
                    if not lit or not isinstance(a, (ast.Attribute, ast.Subscript)):
                        continue
                    if ty.types_of(a) is None:
                        continue
                    res.instances += 1
                    msg = ty.always_message(a)
                    if msg:
                        f = m.enclosing_func(n)
                        res.add(f"{m.rel}|{f.qualname if f else '<module>'}|{ast.unparse(a)}",
                                f"`{ast.unparse(n)[:80]}` compares an IR message ({', '.join(msg)}) with a literal: the "
                                "comparison has a constant result (use the message's .text / .value)",
                                m.rel, n.lineno, f.qualname if f else "")
                    elif len(res.samples) < 2:
                        res.samples.append(f"{m.rel}:{n.lineno} {ast.unparse(n)[:70]}")
        res.analysed.append(m.rel)
    return res


def strrole(repo, schema=None, modules=None):
    res = RuleResult("R-STRROLE")
    schema = schema or Schema(repo)
    ty = Typer(repo, schema)
    for m in (modules or repo.compile_path_modules()):
        for n in ast.walk(m.tree):
            if not isinstance(n, ast.Call):
                continue
            f = m.enclosing_func(n)
            role_args = []
            cn = call_name(n) or ""
            if cn in ERROR_CTORS and n.args:
                role_args.append((n.args[0], "file name of " + cn))
            r = repo.resolve(m, n.func, f)
            if isinstance(r, Func):
                pos, _, kwonly, _, _ = func_params(r.node)
                if pos and pos[0] in ("self", "cls") and isinstance(n.func, ast.Attribute):
                    pos = pos[1:]
                for name, a in zip(pos, n.args):
                    if name in ROLE_PARAMS:
                        role_args.append((a, f"parameter {name} of {r.name}"))
                for k in n.keywords:
                    if k.arg in ROLE_PARAMS:
                        role_args.append((k.value, f"parameter {k.arg} of {r.name}"))
            for a, role in role_args:
                res.instances += 1
                msg = ty.always_message(a) if isinstance(a, (ast.Attribute, ast.Subscript)) else None
                if msg:
                    res.add(f"{m.rel}|{f.qualname if f else '<module>'}|{ast.unparse(a)}",
                            f"`{ast.unparse(a)[:70]}` is an IR message ({', '.join(msg)}) passed as {role}: error "
                            "messages would carry a node instead of a file name and fail to format",
                            m.rel, n.lineno, f.qualname if f else "")
                elif len(res.samples) < 2:
                    res.samples.append(f"{m.rel}:{n.lineno} {role} <- {ast.unparse(a)[:50]}")
        res.analysed.append(m.rel)
    return res


def formatarity(repo, modules=None):
    res = RuleResult("R-FORMATARITY")
    fmt = string.Formatter()
    for m in (modules or repo.compile_path_modules()):
        for n in ast.walk(m.tree):
            if isinstance(n, ast.Call) and isinstance(n.func, ast.Attribute) and n.func.attr == "format":
                base = n.func.value
                text = None
                if isinstance(base, ast.Constant) and isinstance(base.value, str):
                    text = base.value
                elif isinstance(base, ast.BinOp):
                    from ..grammar import _const_text
                    text = _const_text(base)
                if text is None:
                    continue
                if any(isinstance(a, ast.Starred) for a in n.args) or any(k.arg is None for k in n.keywords):
                    continue
                res.instances += 1
                try:
                    fields = [fld for _, fld, _, _ in fmt.parse(text) if fld is not None]
                except ValueError as e:
                    f = m.enclosing_func(n)
                    res.add(f"{m.rel}|{f.qualname if f else ''}|{text[:30]}", f"malformed format string: {e}", m.rel, n.lineno)
                    continue
                auto = 0
                need_pos = 0
                names = set()
                for fld in fields:
                    head = fld.split(".")[0].split("[")[0]
                    if head == "":
                        auto += 1
                    elif head.isdigit():
                        need_pos = max(need_pos, int(head) + 1)
                    else:
                        names.add(head)
                need_pos = max(need_pos, auto)
                have_kw = {k.arg for k in n.keywords}
                f = m.enclosing_func(n)
                if len(n.args) < need_pos:
                    res.add(f"{m.rel}|{f.qualname if f else ''}|{text[:30]}|positional",
                            f"format string {text[:40]!r} needs {need_pos} positional arguments, {len(n.args)} given "
                            "(IndexError when the message is built)", m.rel, n.lineno, f.qualname if f else "")
                for nm in sorted(names - have_kw):
                    res.add(f"{m.rel}|{f.qualname if f else ''}|{text[:30]}|{nm}",
                            f"format string {text[:40]!r} uses {{{nm}}} which is not supplied (KeyError)",
                            m.rel, n.lineno, f.qualname if f else "")
        res.analysed.append(m.rel)
    res.samples = ["'{} reserved word may not be used as {}.'.format(a, b)"]
    return res


# ---- positive control -------------------------------------------------------------------
_CTL = '''
from compiler.util import error

def check(field, attr, errors, source_file_name):
    if attr.value.string_constant == "Emit":
        pass
    if attr.name.text == "x":
        pass
    errors.append([error.error(field.name, field.source_location, "bad {} {}".format(1))])
    helper(field, field.type.atomic_type.reference)

def helper(field, source_file_name):
    pass
'''


def control(repo):
    r2 = Repo(repo.root, overlay={"compiler/front_end/zz_verif_control.py": _CTL})
    mods = [r2.mod("compiler/front_end/zz_verif_control.py")]
    sch = Schema(r2)
    a = schemacmp(r2, sch, mods)
    b = strrole(r2, sch, mods)
    c = formatarity(r2, mods)
    return len(a.findings) == 1 and len(b.findings) == 1 and len(c.findings) == 1


def tokenshape(repo, modules=None):
    """R-TOKENSHAPE: the parser's token list holds real tokens and the end-of-input marker, which are different
    namedtuples.  Code that reads `<parse error>.token.<field>` may only read fields both kinds have, unless
    the access is guarded by hasattr()/isinstance()."""
    res = RuleResult("R-TOKENSHAPE")
    lr1 = repo.mod("compiler/front_end/lr1.py")
    pt = repo.mod("compiler/util/parser_types.py")

    def nt_fields(mod, name):
        for n in ast.walk(mod.tree):
            if isinstance(n, ast.Call) and (call_name(n) or "").endswith("namedtuple") and len(n.args) >= 2 \
                    and isinstance(n.args[0], ast.Constant) and n.args[0].value == name:
                f = n.args[1]
                if isinstance(f, (ast.List, ast.Tuple)):
                    return {e.value for e in f.elts if isinstance(e, ast.Constant)}
                if isinstance(f, ast.Constant):
                    return set(f.value.replace(",", " ").split())
        return None

    token_fields = nt_fields(pt, "Token")
    # marker types appended to the token list inside the parse driver
    parse = lr1.funcs.get("Parser.parse")
    if parse is None or token_fields is None:
        raise AnalysisError("lr1.Parser.parse / parser_types.Token not found")
    markers = {}
    for n in walk_no_nested_funcs(parse.node):
        if isinstance(n, ast.Assign) and isinstance(n.targets[0], ast.Name) and n.targets[0].id == "tokens":
            for c in ast.walk(n.value):
                if isinstance(c, ast.Call) and isinstance(c.func, ast.Name) and c.func.id[:1].isupper():
                    fs = nt_fields(lr1, c.func.id)
                    if fs is not None:
                        markers[c.func.id] = fs
    if not markers:
        raise AnalysisError("lr1.Parser.parse: end-of-input marker construction not found")
    common = set(token_fields)
    for fs in markers.values():
        common &= fs
    res.detail = {"token_fields": sorted(token_fields), "markers": {k: sorted(v) for k, v in markers.items()}, "common": sorted(common)}
    for m in (modules or repo.compile_path_modules()):
        for f in list(m.funcs.values()):
            # names bound to `<x>.token`
            aliases = set()
            for n in walk_no_nested_funcs(f.node):
                if isinstance(n, ast.Assign) and isinstance(n.value, ast.Attribute) and n.value.attr == "token" \
                        and isinstance(n.targets[0], ast.Name):
                    aliases.add(n.targets[0].id)
            for n in walk_no_nested_funcs(f.node):
                if not isinstance(n, ast.Attribute):
                    continue
                base = n.value
                is_tok = (isinstance(base, ast.Attribute) and base.attr == "token" and "error" in ast.unparse(base.value).lower()) \
                    or (isinstance(base, ast.Name) and base.id in aliases)
                if not is_tok or n.attr.startswith("_"):
                    continue
                res.instances += 1
                if n.attr in common:
                    continue
                # guarded by hasattr(<base>, "<attr>") / isinstance(<base>, ...) in an enclosing if
                guarded = False
                p = m.parent(n)
                cur = n
                while p is not None and p is not f.node:
                    if isinstance(p, (ast.If, ast.IfExp)) and (cur in (p.body if isinstance(p.body, list) else [p.body])
                                                                or any(cur is s or cur in ast.walk(s) for s in (p.body if isinstance(p.body, list) else [p.body]))):
                        t = ast.unparse(p.test)
                        if f"hasattr({ast.unparse(base)}" in t or f"isinstance({ast.unparse(base)}" in t:
                            guarded = True
                    cur = p
                    p = m.parent(p)
                if not guarded:
                    res.add(f"{m.rel}|{f.qualname}|token.{n.attr}", f"{f.qualname} reads `.{n.attr}` of a parse error's token, but the "
                            f"token can be the end-of-input marker ({', '.join(markers)}: fields {sorted(set().union(*markers.values()))}): "
                            "a syntax error at the end of the file raises AttributeError instead of being reported",
                            m.rel, n.lineno, f.qualname)
    res.samples = [str(res.detail)]
    res.analysed = [lr1.rel, "compiler/util/error.py"]
    return res


# ---------------------------------------------------------------------------------------------------------
# R-FOREIGNFILE: positions inside an object found through a reference are reported under that object's file
_LOOKUPS = ("find_object", "find_object_or_none", "find_parent_object")
_ERR_CTORS = ("error", "note", "warn")


def foreignfile(repo):
    """An object returned by ir_util.find_object* may live in another module.  A source location taken from it (or a
    sub-expression of it handed to a checking function) must travel with the file name of *its* module
    (`<canonical name>.module_file`), not with the enclosing function's own `source_file_name`: otherwise the
    diagnostic names one file and carries line/column of another (and rendering it with source text raises
    IndexError or shows an unrelated line)."""
    res = RuleResult("R-FOREIGNFILE")
    for m in repo.modules.values():
        for f in m.funcs.values():
            params = [a.arg for a in f.node.args.args]
            local = {p for p in params if p in ("source_file_name", "file_name")}
            foreign = set()
            for n in walk_no_nested_funcs(f.node):
                if isinstance(n, ast.Assign) and isinstance(n.value, ast.Call) \
                        and (call_name(n.value) or "").split(".")[-1] in _LOOKUPS:
                    foreign |= {t.id for t in n.targets if isinstance(t, ast.Name)}
            if not foreign:
                continue

            # locals that hold a location taken from a foreign object (`loc = x.source_location or x.name.source_location`)
            derived = {}
            for n in walk_no_nested_funcs(f.node):
                if isinstance(n, ast.Assign) and len(n.targets) == 1 and isinstance(n.targets[0], ast.Name) \
                        and not (isinstance(n.value, ast.Call) and (call_name(n.value) or "").split(".")[-1] in _LOOKUPS):
                    if any(isinstance(x, ast.Attribute) and isinstance(x.value, ast.Name) and x.value.id in foreign for x in ast.walk(n.value)):
                        derived[n.targets[0].id] = n.value

            def is_foreign(a):
                if isinstance(a, ast.Name) and a.id in derived:
                    return True
                root = a
                while isinstance(root, (ast.Attribute, ast.Subscript)):
                    root = root.value
                return isinstance(root, ast.Name) and root.id in foreign and root is not a

            for n in walk_no_nested_funcs(f.node):
                if not isinstance(n, ast.Call) or not n.args:
                    continue
                cn = (call_name(n) or "")
                last = cn.split(".")[-1]
                if cn.startswith("error.") and last in _ERR_CTORS and len(n.args) >= 2:
                    file_arg, node_arg = n.args[0], n.args[1]
                elif len(n.args) >= 2 and is_foreign(n.args[0]) and last not in _LOOKUPS and not cn.startswith(("ir_util.", "ir_data_utils.")):
                    node_arg = n.args[0]
                    file_arg = next((a for a in n.args[1:] if (isinstance(a, ast.Name) and a.id in local)
                                     or ast.unparse(a).endswith("module_file")), None)
                    if file_arg is None:
                        continue
                else:
                    continue
                if not is_foreign(node_arg):
                    continue
                res.instances += 1
                if isinstance(file_arg, ast.Name) and file_arg.id in local:
                    res.add(f"{m.rel}|{f.qualname}|{ast.unparse(node_arg)}", f"{f.qualname} passes `{ast.unparse(node_arg)}` (part of an object "
                            f"found through a reference, possibly defined in an imported module) together with its own "
                            f"`{file_arg.id}`: diagnostics about it name the wrong file for their line and column",
                            m.rel, n.lineno, f.qualname)
                elif len(res.samples) < 4:
                    res.samples.append(f"{f.qualname}: {ast.unparse(node_arg)} with {ast.unparse(file_arg)}")
    if res.instances < 3:
        raise AnalysisError(f"only {res.instances} foreign-object diagnostics found")
    res.analysed = ["compiler/front_end/*.py"]
    return res


# ---------------------------------------------------------------------------------------------------------
def copytype(repo, schema=None):
    """R-COPYTYPE (C18): `target.CopyFrom(source)` between IR nodes copies field by field.  If the schema type of the
    target position differs from the schema type of the source, the builder first creates the *declared* type and
    CopyFrom then sets attributes that type does not declare: they live as plain instance attributes, work in memory,
    and are dropped by the serializer (which writes the declared fields only) — the IR no longer survives JSON.
    Both sides are typed from ir_data.py by their attribute chains (locals assigned once are expanded); a site is
    judged only when each side has exactly one possible message type."""
    res = RuleResult("R-COPYTYPE")
    schema = schema or Schema(repo)
    ty = Typer(repo, schema)

    def expand(e, fnode, depth=0):
        if isinstance(e, ast.Name) and depth < 4:
            defs = [n for n in walk_no_nested_funcs(fnode) if isinstance(n, ast.Assign)
                    and any(isinstance(t, ast.Name) and t.id == e.id for t in n.targets)]
            if len(defs) == 1 and not isinstance(defs[0].targets[0], ast.Tuple):
                return expand(defs[0].value, fnode, depth + 1)
            return e
        if isinstance(e, ast.Attribute):
            return ast.Attribute(value=expand(e.value, fnode, depth), attr=e.attr, ctx=ast.Load())
        if isinstance(e, ast.Subscript):
            return ast.Subscript(value=expand(e.value, fnode, depth), slice=e.slice, ctx=ast.Load())
        if isinstance(e, ast.Call) and isinstance(e.func, ast.Attribute) and e.func.attr in ("reader", "builder", "copy") and e.args:
            return ast.Call(func=e.func, args=[expand(e.args[0], fnode, depth)], keywords=[])
        return e

    def single(e):
        if isinstance(e, ast.Call) and isinstance(e.func, ast.Attribute) and e.func.attr == "copy" and e.args:
            e = e.args[0]
        if isinstance(e, ast.Call) and isinstance(e.func, ast.Attribute) and isinstance(e.func.value, ast.Name) \
                and e.func.value.id == "ir_data" and e.func.attr in schema.classes:
            return e.func.attr  # a freshly constructed node
        ts = ty.types_of(e)
        if ts and len(ts) == 1:
            (t, is_list), = ts
            if not is_list and t in schema.classes:
                return t
        return None

    judged = 0
    for m in repo.compile_path_modules():
        for f in m.funcs.values():
            for n in walk_no_nested_funcs(f.node):
                if isinstance(n, ast.Call) and isinstance(n.func, ast.Attribute) and n.func.attr == "CopyFrom" and len(n.args) == 1:
                    t = single(expand(n.func.value, f.node))
                    s_ = single(expand(n.args[0], f.node))
                    if t is None or s_ is None:
                        continue
                    judged += 1
                    res.instances += 1
                    if t != s_:
                        res.add(f"{m.rel}|{f.qualname}|{ast.unparse(n.func.value)}", f"{f.qualname}: `{ast.unparse(n.func.value)}` is declared "
                                f"{t} in ir_data.py but receives a {s_} (`{ast.unparse(n.args[0])}`) through CopyFrom: the fields {s_} has and "
                                f"{t} lacks are set as undeclared attributes, which the JSON serializer does not write", m.rel, n.lineno, f.qualname)
                    elif len(res.samples) < 3:
                        res.samples.append(f"{f.qualname}: {ast.unparse(n.func.value)} <- {t}")
    if judged < 7:
        raise AnalysisError(f"only {judged} CopyFrom sites could be typed on both sides")
    res.analysed = ["compiler/util/ir_data.py", "compiler/front_end/*.py"]
    return res


# ---------------------------------------------------------------------------------------------------------
def textread(repo):
    """R-TEXTREAD (C16): a `try` that turns a failing read of a *text* file into a diagnostic (it catches IOError/OSError
    around `open(name)` + `.read()` in text mode) must also catch the other way that read fails: UnicodeDecodeError, which
    is a ValueError, not an IOError.  Otherwise a source file with a byte that is not valid text ends the compiler with
    a traceback."""
    res = RuleResult("R-TEXTREAD")
    for m in repo.compile_path_modules():
        for f in m.funcs.values():
            for n in walk_no_nested_funcs(f.node):
                if not isinstance(n, ast.Try):
                    continue
                reads_text = False
                for w in ast.walk(ast.Module(body=n.body, type_ignores=[])):
                    if isinstance(w, ast.Call) and isinstance(w.func, ast.Name) and w.func.id == "open":
                        mode = w.args[1].value if len(w.args) > 1 and isinstance(w.args[1], ast.Constant) else \
                            next((k.value.value for k in w.keywords if k.arg == "mode" and isinstance(k.value, ast.Constant)), "r")
                        if "b" not in mode and "w" not in mode and "a" not in mode:
                            reads_text = True
                if not reads_text or not any(isinstance(c, ast.Call) and isinstance(c.func, ast.Attribute) and c.func.attr in ("read", "readlines", "readline")
                                             for st in n.body for c in ast.walk(st)):
                    continue
                caught = set()
                for h in n.handlers:
                    if h.type is None:
                        caught.add("BaseException")
                    else:
                        caught |= {x.id for x in ast.walk(h.type) if isinstance(x, ast.Name)} | {x.attr for x in ast.walk(h.type) if isinstance(x, ast.Attribute)}
                if not caught & {"IOError", "OSError", "EnvironmentError", "FileNotFoundError", "PermissionError", "IsADirectoryError",
                                 "NotADirectoryError"}:
                    continue
                res.instances += 1
                if not caught & {"IOError", "OSError", "EnvironmentError", "Exception", "BaseException"}:
                    res.add(f"{m.rel}|{f.qualname}|oserror", f"{f.qualname} catches only {sorted(caught)} around the file read: the other ways "
                            "open() fails (a directory, a name that is too long, a path through a regular file, permissions) raise other "
                            "OSError subclasses and end the compiler with a traceback instead of \"Unable to read file\"",
                            m.rel, n.lineno, f.qualname)
                if caught & {"UnicodeDecodeError", "UnicodeError"} and not caught & {"ValueError", "Exception", "BaseException"}:
                    res.add(f"{m.rel}|{f.qualname}|nul", f"{f.qualname} catches {sorted(caught)} around open(): a file name with an embedded NUL "
                            "byte (an import string can contain one) makes open() raise a plain ValueError, which escapes as a traceback",
                            m.rel, n.lineno, f.qualname)
                if not caught & {"UnicodeDecodeError", "UnicodeError", "ValueError", "Exception", "BaseException"}:
                    res.add(f"{m.rel}|{f.qualname}|decode", f"{f.qualname} reports an unreadable file (catches {sorted(caught)}) but a file that "
                            "is not valid text raises UnicodeDecodeError from the same read and escapes: the compiler ends with a "
                            "traceback instead of a diagnostic", m.rel, n.lineno, f.qualname)
                else:
                    res.samples.append(f"{f.qualname}: catches {sorted(caught)}")
    if res.instances < 1:
        raise AnalysisError("no guarded text read found in the drivers")
    res.analysed = ["compiler/front_end/emboss_front_end.py"]
    return res



def snippetguard(repo):
    """R-SNIPPETGUARD (C16): an error can be located one line past the end of the file (the Indent/Dedent/newline tokens
    the tokenizer synthesises at end of input).  Wherever a list of source lines is indexed with a location's line
    number, the index must be dominated by a comparison of that line number with the length of the list."""
    res = RuleResult("R-SNIPPETGUARD")
    m = repo.mod("compiler/util/error.py")
    for f in m.funcs.values():
        lines_vars = set()
        for n in walk_no_nested_funcs(f.node):
            if isinstance(n, ast.Assign) and isinstance(n.targets[0], ast.Name) and isinstance(n.value, ast.Call) \
                    and ((isinstance(n.value.func, ast.Attribute) and n.value.func.attr in ("splitlines", "split", "split_lines"))
                         or (isinstance(n.value.func, ast.Name) and "split" in n.value.func.id)):
                lines_vars.add(n.targets[0].id)
        # single-assignment locals are substituted, so `i = loc.start.line - 1; lines[i]` is seen as what it is
        local_defs = {}
        for n in walk_no_nested_funcs(f.node):
            if isinstance(n, ast.Assign) and len(n.targets) == 1 and isinstance(n.targets[0], ast.Name):
                local_defs.setdefault(n.targets[0].id, []).append(n.value)

        def subst(e):
            if isinstance(e, ast.Name) and len(local_defs.get(e.id, ())) == 1 and e.id not in lines_vars:
                return subst(local_defs[e.id][0])
            return e

        def lin(e):
            """{LINE: k, 1: c} for expressions over one `<...>.line` value and integer constants."""
            e = subst(e)
            if isinstance(e, ast.Constant) and isinstance(e.value, int):
                return {1: e.value}
            if isinstance(e, ast.Attribute) and e.attr == "line":
                return {"LINE": 1}
            if isinstance(e, ast.BinOp) and isinstance(e.op, (ast.Add, ast.Sub)):
                a, b = lin(e.left), lin(e.right)
                if a is None or b is None:
                    return None
                k = 1 if isinstance(e.op, ast.Add) else -1
                out = dict(a)
                for kk, v in b.items():
                    out[kk] = out.get(kk, 0) + k * v
                return out
            return None

        for n in walk_no_nested_funcs(f.node):
            if not (isinstance(n, ast.Subscript) and isinstance(n.value, ast.Name) and n.value.id in lines_vars):
                continue
            idx = lin(n.slice)
            if idx is None or idx.get("LINE") != 1:
                continue
            res.instances += 1
            c = idx.get(1, 0)
            guarded, seen_guard = False, None
            cur = n
            while cur is not f.node:
                par = m.parent(cur)
                if par is None:
                    break
                if isinstance(par, (ast.If, ast.IfExp)) and (cur in getattr(par, "body", []) or cur is getattr(par, "body", None)):
                    for cmp_ in [x for x in ast.walk(par.test) if isinstance(x, ast.Compare) and len(x.ops) == 1]:
                        l_, r_ = cmp_.left, cmp_.comparators[0]
                        if ast.unparse(r_) == f"len({n.value.id})" and isinstance(cmp_.ops[0], (ast.Lt, ast.LtE)):
                            a = lin(l_)
                            if a is not None and a.get("LINE") == 1:
                                seen_guard = ast.unparse(par.test)
                                d = a.get(1, 0)
                                # index = LINE + c must be < len, given LINE + d (< | <=) len
                                if c <= d - (1 if isinstance(cmp_.ops[0], ast.LtE) else 0):
                                    guarded = True
                cur = par
            if not guarded:
                how = f"under `{seen_guard}`, which still admits an index equal to the length" if seen_guard else \
                    f"without comparing the line number with len({n.value.id})"
                res.add(f"{m.rel}|{f.qualname}|{n.value.id}", f"{f.qualname} indexes `{n.value.id}` with `{ast.unparse(subst(n.slice))}` {how}: "
                        "a syntax error at end of input is located on the line after the last "
                        "one, and rendering it with the source raises IndexError", m.rel, n.lineno, f.qualname)
            else:
                res.samples.append(f"{f.qualname}: {n.value.id}[LINE{c:+d}] guarded by `{seen_guard}`")
    if res.instances < 1:
        raise AnalysisError("error.py: no indexing of source lines by a location found")
    res.analysed = [m.rel]
    return res
