"""C++ runtime rules over the clang AST facts (sa/cppast.py) and the template texts:
R-SIBLING, R-TWIN, R-MIRROR, R-NOABORT, R-IFACE, R-COPY, R-OPCHAIN (C++ half), R-RTSYMS."""
from __future__ import annotations

import ast
import re
from collections import Counter

from ..cppast import CHECK_RE, CppFacts, skeleton, statements, tokens, _COMMENT
from ..pyfacts import Repo, dotted_name, walk_no_nested_funcs
from ..report import AnalysisError, RuleResult
from ..templates import TEMPLATES, Templates

SCALAR_VIEWS = ["FlagView", "UIntView", "IntView", "BcdView", "FloatView", "EnumView"]
PRELUDE_H = "runtime/cpp/emboss_prelude.h"

# CHECK-like macros (aborting)
ANY_CHECK = re.compile(r"\bEMBOSS_D?CHECK[A-Z_]*\s*\(")


def _norm_tokens(toks):
    """Normalisation for sibling comparison: storage member names unified, casts and parens dropped."""
    out = []
    i = 0
    while i < len(toks):
        t = toks[i]
        if t == "static_cast":
            # skip `static_cast < ... >`
            depth = 0
            i += 1
            while i < len(toks):
                if toks[i] == "<":
                    depth += 1
                elif toks[i] == ">":
                    depth -= 1
                    if depth == 0:
                        i += 1
                        break
                elif toks[i] == ">>":
                    depth -= 2
                    if depth <= 0:
                        i += 1
                        break
                i += 1
            continue
        if t in ("(", ")"):
            i += 1
            continue
        if t == "bit_block_":
            t = "buffer_"
        out.append(t)
        i += 1
    return out


def _inline_single_assignment(stmts):
    """`T x = E; ... return x;` -> `return E;` when x is assigned once and used once."""
    out = list(stmts)
    changed = True
    while changed:
        changed = False
        for i, s in enumerate(out):
            m = re.match(r"^(?:const\s+)?[\w:<>\s\*&]+?\s+(\w+)\s*=\s*(.+);$", s, re.S)
            if not m or CHECK_RE.match(s):
                continue
            var, expr = m.group(1), m.group(2)
            rest = out[:i] + out[i + 1:]
            uses = sum(len(re.findall(rf"\b{re.escape(var)}\b", r)) for r in rest)
            if uses == 1:
                out = [re.sub(rf"\b{re.escape(var)}\b", "(" + expr + ")", r) for r in rest]
                changed = True
                break
    return out


def _skel(m, drop_checks=False, erase=(), inline=False):
    stmts = statements(m.body)
    if drop_checks:
        stmts = [s for s in stmts if not ANY_CHECK.match(s)]
    if inline:
        stmts = _inline_single_assignment(stmts)
    toks = []
    for s in stmts:
        for t in tokens(s):
            for e in erase:
                if t.startswith(e) and len(t) > len(e):
                    t = t[len(e):]
            toks.append(t)
    return _norm_tokens(toks)


# ---- R-SIBLING -------------------------------------------------------------------------------
SIBLING_METHODS = ["Ok", "IsComplete", "TryToWrite", "Write", "CopyFrom", "TryToCopyFrom", "UncheckedCopyFrom",
                   "Equals", "UncheckedEquals", "UncheckedWrite", "UncheckedRead"]

# tabled deviations from the majority skeleton: (class, method) -> reason
SIBLING_DEVIATIONS = {
    ("BcdView", "Ok"): "additionally requires every nibble to be a decimal digit (IsBcd) — documented Bcd semantics",
    ("FloatView", "Ok"): "every bit pattern is a float: no ValueIsOk test",
    ("FlagView", "IsComplete"): "a flag is one bit: tests SizeInBits() > 0 instead of >= Parameters::kBits",
    ("IntView", "UncheckedRead"): "value conversion differs by type (ConvertToSigned)",
    ("BcdView", "UncheckedRead"): "value conversion differs by type (ConvertToBinary)",
    ("FloatView", "UncheckedRead"): "value conversion differs by type (ConvertToFloat)",
    ("UIntView", "UncheckedRead"): "no conversion needed",
    ("FlagView", "UncheckedRead"): "no conversion needed",
}


def _sibling_skeleton(m, name):
    stmts = statements(m.body)
    if name in ("TryToWrite", "UncheckedWrite"):
        # the storage write expression differs per type: abstract it
        stmts = ["<STORAGE-WRITE>;" if re.search(r"\b(Unchecked)?WriteUInt\s*\(", s) else s for s in stmts]
    toks = []
    for s in stmts:
        toks.extend(tokens(s))
    toks = _norm_tokens(toks)
    # abstract the parameter name
    pn = m.params[0][1] if m.params else None
    if pn:
        toks = ["<P>" if t == pn else t for t in toks]
    return " ".join(toks)


def sibling(facts: CppFacts, methods=None, only_kinds=None):
    res = RuleResult("R-SIBLING")
    for name in SIBLING_METHODS:
        skels = {}
        for v in SCALAR_VIEWS:
            ms = facts.method(v, name)
            if not ms:
                res.add(f"{v}|{name}|missing", f"{v} lacks interface method {name}() that its sibling views provide",
                        PRELUDE_H)
                continue
            skels[v] = (_sibling_skeleton(ms[0], name), ms[0])
        if len(skels) < 4:
            raise AnalysisError(f"scalar views: method {name} found on only {len(skels)} classes")
        counts = Counter(s for s, _ in skels.values())
        majority, n = counts.most_common(1)[0]
        for v, (s, m) in skels.items():
            res.instances += 1
            if s == majority:
                continue
            if (v, name) in SIBLING_DEVIATIONS:
                res.notes.append(f"{v}::{name}: tabled deviation — {SIBLING_DEVIATIONS[(v, name)]}")
                continue
            res.add(f"{v}|{name}|skeleton", f"{v}::{name} is `{' '.join(statements(m.body))[:160]}`; {n} sibling views "
                    f"implement it as `{majority[:160]}`", m.file, m.line, f"{v}::{name}")
        if len(res.samples) < 3:
            res.samples.append({"method": name, "majority": majority[:140], "agreeing": n})
        # parameter shape of OtherView-taking methods: deducible `const OtherView &`
        if name in ("CopyFrom", "TryToCopyFrom", "UncheckedCopyFrom"):
            for v, (_, m) in skels.items():
                res.instances += 1
                pt = m.params[0][0] if m.params else ""
                tp = [t for t in m.template_params if t.startswith("Other")]
                if tp and not re.search(rf"\b{re.escape(tp[-1])}\b", pt):
                    res.add(f"{v}|{name}|undeducible", f"{v}::{name} is a template over {tp[-1]} but takes `{pt}`: the "
                            f"template parameter cannot be deduced, so every call fails to compile", m.file, m.line,
                            f"{v}::{name}")
    # TryToWrite guard pattern (confirmed): both guards precede the storage write
    for v in SCALAR_VIEWS:
        for m in facts.method(v, "TryToWrite"):
            res.instances += 1
            st = statements(m.body)
            wi = [i for i, s in enumerate(st) if re.search(r"\bWriteUInt\s*\(", s)]
            gi = [i for i, s in enumerate(st) if re.match(r"if\s*\(\s*!\s*(CouldWriteValue|IsComplete)\b.*return\s+false", s, re.S)]
            kinds = {re.match(r"if\s*\(\s*!\s*(\w+)", st[i]).group(1) for i in gi}
            if len(wi) != 1 or kinds != {"CouldWriteValue", "IsComplete"} or min(wi) < max(gi):
                res.add(f"{v}|TryToWrite|guards", f"{v}::TryToWrite must test CouldWriteValue and IsComplete before its "
                        "single storage write", m.file, m.line, f"{v}::TryToWrite")
    res.analysed = [PRELUDE_H, "runtime/cpp/emboss_enum_view.h"]
    if methods is not None:
        res.findings = [x for x in res.findings if x.key.split("|")[2] in methods]
    if only_kinds is not None:
        res.findings = [x for x in res.findings if x.key.split("|")[-1] in only_kinds]
    return res


# ---- R-TWIN ------------------------------------------------------------------------------------
TWIN_EXCEPTIONS = {
    ("MaybeConstantView", "Read"): "Value() (checked) vs ValueOrDefault() (unchecked) of the same Maybe",
    ("GenericArrayView::IndexOperatorHelper", "ConstructElement"): "the checked variant carries the size and substitutes a null "
                                                                   "storage for out-of-range indexes",
}


def twin(facts: CppFacts):
    res = RuleResult("R-TWIN")
    by = {}
    for m in facts.methods:
        by.setdefault((m.cls, m.name), []).append(m)
    pairs = [(c, n[len("Unchecked"):]) for (c, n) in by if n.startswith("Unchecked") and (c, n[len("Unchecked"):]) in by]
    for cls, name in sorted(pairs):
        chk, unc = by[(cls, name)], by[(cls, "Unchecked" + name)]
        short = cls.split("::")[-1]
        for a, b in zip(chk, unc):
            res.instances += 1
            if (cls, name) in TWIN_EXCEPTIONS:
                res.notes.append(f"{cls}::{name}: tabled — {TWIN_EXCEPTIONS[(cls, name)]}")
                continue
            sa = _skel(a, drop_checks=True, erase=("Unchecked",), inline=True)
            sb = _skel(b, drop_checks=True, erase=("Unchecked",), inline=True)
            # drop static_asserts (compile-time only) and `(void)x;`
            def strip(toks):
                s = " ".join(toks)
                s = re.sub(r"static_assert [^;]*;", "", s)
                s = re.sub(r"void \w+ ;", "", s)
                return s.split()
            sa, sb = strip(sa), strip(sb)
            if sa == sb:
                continue
            # bare delegation: the checked method (checks removed) is one call to its unchecked twin
            a_st = [s for s in statements(a.body) if not ANY_CHECK.match(s)]
            if len(a_st) == 1 and re.match(rf"^(return\s+)?Unchecked{name}\b", a_st[0]):
                continue
            # Write is checked through TryToWrite: its single storage write must equal UncheckedWrite's
            delegates = any(re.search(rf"\bTryTo{name}\s*\(", st_) for st_ in a_st)
            if name == "Write" or delegates:
                # X is checked through TryToX: the single storage write of TryToX must equal UncheckedX's
                tw = by.get((cls, "TryTo" + name))
                if tw:
                    def _calls(body, fn):
                        out = []
                        for mm_ in re.finditer(r"(?<!\w)" + fn + r"\s*\(", body):
                            k0 = mm_.end() - 1
                            d_, k1 = 0, k0
                            while k1 < len(body):
                                if body[k1] == "(":
                                    d_ += 1
                                elif body[k1] == ")":
                                    d_ -= 1
                                    if d_ == 0:
                                        break
                                k1 += 1
                            out.append(body[k0:k1 + 1])
                        return out
                    erase_u = lambda toks: _norm_tokens([t[len("Unchecked"):] if t.startswith("Unchecked") and len(t) > 9 else t for t in toks])
                    wa = _calls(_CM.sub("", tw[0].body), "WriteUInt")
                    wb = _calls(_CM.sub("", b.body), "UncheckedWriteUInt")
                    if len(wa) == 1 and len(wb) == 1:
                        if erase_u(tokens(wa[0])) == erase_u(tokens(wb[0])):
                            continue
                        res.add(f"{cls}|{name}|storage", f"{cls}::TryTo{name} stores `{' '.join(wa[0].split())[:100]}` but Unchecked{name} stores "
                                f"`{' '.join(wb[0].split())[:100]}`: checked and unchecked writes encode differently",
                                a.file, tw[0].line, f"{cls}::TryTo{name}")
                        continue
            res.add(f"{cls}|{name}|twin", f"{cls}::{name} and {cls}::Unchecked{name} compute different expressions once the "
                    f"checks are removed: `{' '.join(sa)[:110]}` vs `{' '.join(sb)[:110]}`", a.file, a.line, f"{cls}::{name}")
        if len(res.samples) < 3:
            res.samples.append(f"{cls}::{name} <-> Unchecked{name}")
    res.detail["pairs"] = len(pairs)
    if len(pairs) < 35:
        raise AnalysisError(f"only {len(pairs)} checked/unchecked pairs found")
    res.analysed = sorted({m.file for m in facts.methods})
    return res


def mirror(facts: CppFacts):
    """Little/BigEndianByteOrderer are equal modulo Little<->Big; MemoryAccessor's Little/Big methods mirror."""
    res = RuleResult("R-MIRROR")
    le, be = facts.by_class("LittleEndianByteOrderer"), facts.by_class("BigEndianByteOrderer")
    if not le or not be:
        raise AnalysisError("byte orderer classes not found")
    names = sorted(n for n in ({m.name for m in le} | {m.name for m in be}) if "<" not in n and "ByteOrderer" not in n)
    for n in names:
        a = [m for m in le if m.name == n]
        b = [m for m in be if m.name == n]
        res.instances += 1
        if not a or not b:
            res.add(f"orderer|{n}|missing", f"{n} exists in only one of the Little/Big byte orderers", "runtime/cpp/emboss_memory_util.h")
            continue
        sa = [t.replace("LittleEndian", "XEndian") for t in _skel(a[0])]
        sb = [t.replace("BigEndian", "XEndian") for t in _skel(b[0])]
        if sa != sb:
            res.add(f"orderer|{n}", f"LittleEndianByteOrderer::{n} and BigEndianByteOrderer::{n} are not mirror images: "
                    f"`{' '.join(sa)[:100]}` vs `{' '.join(sb)[:100]}`", a[0].file, a[0].line, n)
    # the Null orderer (one-byte fields without a byte order) reports state exactly like the other two: Ok() and
    # SizeInBytes() forward to the buffer.  A size that does not come from the buffer makes a field whose storage was
    # clamped to nothing look complete, and every checked call then touches memory past the end.
    nu = facts.by_class("NullByteOrderer")
    if not nu:
        raise AnalysisError("NullByteOrderer not found")
    for n in ("Ok", "SizeInBytes"):
        a = [m for m in le if m.name == n]
        b = [m for m in nu if m.name == n]
        res.instances += 1
        if not a or not b:
            res.add(f"orderer|Null|{n}|missing", f"NullByteOrderer or LittleEndianByteOrderer lacks {n}", "runtime/cpp/emboss_memory_util.h")
            continue
        if _skel(a[0]) != _skel(b[0]):
            res.add(f"orderer|Null|{n}", f"NullByteOrderer::{n} is `{' '.join(_skel(b[0]))[:80]}` but the little/big-endian orderers use "
                    f"`{' '.join(_skel(a[0]))[:80]}`: the three orderers must report the state of the same underlying buffer",
                    b[0].file, b[0].line, f"NullByteOrderer::{n}")
    # ContiguousBuffer: Read/Write Little vs Big variants mirror each other
    cb = facts.by_class("ContiguousBuffer")
    for base in ("ReadLittleEndianUInt", "UncheckedReadLittleEndianUInt", "WriteLittleEndianUInt", "UncheckedWriteLittleEndianUInt"):
        other = base.replace("Little", "Big")
        a = [m for m in cb if m.name == base]
        b = [m for m in cb if m.name == other]
        res.instances += 1
        if not a or not b:
            res.add(f"buffer|{base}|missing", f"ContiguousBuffer lacks {base} or {other}", "runtime/cpp/emboss_memory_util.h")
            continue
        sa = [t.replace("LittleEndian", "XEndian") for t in _skel(a[0]) if not (t == "return" and "Write" in base)]
        sb = [t.replace("BigEndian", "XEndian") for t in _skel(b[0]) if not (t == "return" and "Write" in base)]
        if sa != sb:
            res.add(f"buffer|{base}", f"ContiguousBuffer::{base} and ::{other} are not mirror images", a[0].file, a[0].line, base)
    # aligned MemoryAccessor specialisations <CharT, A, 0, N>: every fixed-width integer type they name is uintN_t,
    # and the specialisations are equal modulo their constants
    src = facts.repo.read("runtime/cpp/emboss_memory_util.h")
    specs = []
    for m in re.finditer(r"struct\s+MemoryAccessor\s*<\s*CharT\s*,\s*(\d+)\s*,\s*(\d+)\s*,\s*(\d+)\s*>\s*\{", src):
        i = m.end() - 1
        depth = 0
        j = i
        while j < len(src):
            if src[j] == "{":
                depth += 1
            elif src[j] == "}":
                depth -= 1
                if depth == 0:
                    break
            j += 1
        specs.append((int(m.group(1)), int(m.group(2)), int(m.group(3)), src[i:j + 1], src.count("\n", 0, m.start()) + 1))
    norm_bodies = {}
    for align, off, bits, body, line in specs:
        res.instances += 1
        widths_used = {int(w) for w in re.findall(r"\buint(\d+)_t\b", body)}
        if widths_used and widths_used != {bits}:
            res.add(f"accessor|{align},{off},{bits}|width", f"MemoryAccessor<CharT, {align}, {off}, {bits}> accesses memory "
                    f"through uint{sorted(widths_used - {bits})[0]}_t: a {bits}-bit load/store through another width "
                    "truncates or over-reads", "runtime/cpp/emboss_memory_util.h", line, f"MemoryAccessor<{align},{off},{bits}>")
        nb = re.sub(r"\buint\d+_t\b", "uintN_t", " ".join(tokens(body)))
        nb = re.sub(rf"\b{bits}\b", "N", nb)
        norm_bodies[(align, off, bits)] = nb
    if len(specs) >= 2:
        ref_key = sorted(norm_bodies)[0]
        for k, nb in sorted(norm_bodies.items()):
            if nb != norm_bodies[ref_key]:
                res.add(f"accessor|{k[0]},{k[1]},{k[2]}|shape", f"MemoryAccessor<CharT, {k[0]}, {k[1]}, {k[2]}> differs from the "
                        f"<{ref_key[0]}, {ref_key[1]}, {ref_key[2]}> specialisation by more than its width constants",
                        "runtime/cpp/emboss_memory_util.h")
    res.detail["memory_accessor_specialisations"] = [(a, o, b) for a, o, b, _, _ in specs]
    res.samples = [f"LittleEndianByteOrderer::{n}" for n in names[:3]]
    res.analysed = ["runtime/cpp/emboss_memory_util.h"]
    return res


def guarddeps(facts: CppFacts):
    """R-GUARDDEPS: an accumulating update `x = x * b (+|-) d` guarded against overflow by a preceding
    `if (cond) return false` must have a guard that depends on every operand of the update."""
    res = RuleResult("R-GUARDDEPS")
    upd = re.compile(r"\b(\w+)\s*=\s*\1\s*\*\s*(\w+)\s*([-+])\s*(\w+)\s*;")
    for m in facts.functions + facts.methods:
        body = m.body
        for u in upd.finditer(body):
            x, b, sign, d = u.groups()
            res.instances += 1
            before = body[:u.start()]
            k = before.rfind("if (")
            k2 = before.rfind("if(")
            k = max(k, k2)
            if k < 0:
                res.add(f"{m.file}|{m.name}|{x}|unguarded", f"{m.name}: `{u.group(0)}` has no overflow guard", m.file, m.line, m.name)
                continue
            # balanced condition
            i = before.index("(", k)
            depth = 0
            j = i
            while j < len(before):
                if before[j] == "(":
                    depth += 1
                elif before[j] == ")":
                    depth -= 1
                    if depth == 0:
                        break
                j += 1
            cond = before[i:j + 1]
            between = before[j + 1:]
            tail = between.split("return false", 1)[1].replace("}", "").strip() if "return false" in between else "x;"
            if tail.startswith(";"):
                tail = tail[1:]
            if "return false" not in between or ";" in tail:
                res.add(f"{m.file}|{m.name}|{x}|unguarded", f"{m.name}: `{u.group(0)}` is not directly preceded by a rejecting "
                        "guard", m.file, m.line, m.name)
                continue
            names_in = set(re.findall(r"[A-Za-z_]\w*", cond))
            missing = [v for v in (x, b, d) if v not in names_in]
            if missing:
                res.add(f"{m.file}|{m.name}|{x}|{sign}|deps", f"{m.name}: the overflow guard `{' '.join(cond.split())[:90]}` before "
                        f"`{u.group(0)}` does not depend on {missing}: it cannot reject exactly the updates that overflow "
                        "(out-of-range text wraps instead of being rejected)", m.file, m.line, m.name)
            elif len(res.samples) < 2:
                res.samples.append(f"{m.name}: {' '.join(cond.split())[:80]} guards {u.group(0)}")
    res.analysed = ["runtime/cpp/emboss_text_util.h"]
    return res


# ---- R-NOABORT ---------------------------------------------------------------------------------
NOABORT_METHODS = {"Ok", "IsComplete", "CouldWriteValue", "TryToWrite", "TryToCopyFrom", "SizeIsKnown", "Known",
                   "UpdateFromTextStream", "IsAggregate"}
NOABORT_EXCEPTIONS = {
    # (class, method, callee): reason
}
ALWAYS_ABORTING = {"memcpy", "memmove"}


def _call_sites(stmt_text):
    """[(callee name, position)] of calls in a statement."""
    return [(m.group(1), m.start()) for m in re.finditer(r"\b([A-Za-z_]\w*)\s*(?:<[^;()]*>)?\s*\(", stmt_text)]


def _guarded_position(stmt, pos):
    """Is position `pos` of the statement text control-dependent on a guard inside the statement:
    right of `&&`, inside `?:` arms, or inside the body of an `if (...)`?"""
    before = stmt[:pos]
    # inside an if-statement body (after the closing paren of the condition)
    m = re.match(r"\s*if\s*\(", stmt)
    if m:
        depth = 0
        for i in range(m.end() - 1, len(stmt)):
            if stmt[i] == "(":
                depth += 1
            elif stmt[i] == ")":
                depth -= 1
                if depth == 0:
                    if pos > i:
                        return True
                    break
    # right operand of && at an enclosing nesting level
    depth = 0
    i = len(before) - 1
    while i >= 0:
        ch = before[i]
        if ch == ")":
            depth += 1
        elif ch == "(":
            if depth == 0:
                pass  # moving out to an enclosing level is fine
            else:
                depth -= 1
        elif depth == 0 and before[i - 1:i + 1] == "&&":
            return True
        elif depth == 0 and ch == "?":
            return True
        i -= 1
    return False


def noabort(facts: CppFacts, templates: Templates | None = None):
    res = RuleResult("R-NOABORT")
    # aborting names: methods whose body contains a CHECK, plus Unchecked*, memcpy, memmove
    aborting = set(ALWAYS_ABORTING)
    for m in facts.methods + facts.functions:
        if ANY_CHECK.search(m.body):
            aborting.add(m.name)
    aborting -= {"Ok", "IsComplete", "Known"}
    res.detail["aborting_callees"] = sorted(aborting)[:60]

    def check_body(cls, name, body, file, line):
        stmts = statements(body)
        guarded_from = None
        for i, s in enumerate(stmts):
            if ANY_CHECK.match(s) or re.match(r"if\s*\(.*\)\s*(\{[^}]*\breturn\b[^}]*\}|return\b)", s, re.S):
                # an early-return / check statement guards everything after it
                calls_here = _call_sites(s)
                for callee, pos in calls_here:
                    if (callee in aborting or callee.startswith("Unchecked")) and guarded_from is None \
                            and not _guarded_position(s, pos):
                        report(cls, name, callee, s, file, line)
                if guarded_from is None:
                    guarded_from = i
                continue
            for callee, pos in _call_sites(s):
                if callee in aborting or (callee.startswith("Unchecked") and len(callee) > 9):
                    res.instances += 1
                    if guarded_from is not None or _guarded_position(s, pos):
                        continue
                    report(cls, name, callee, s, file, line)

    def report(cls, name, callee, stmt, file, line):
        if (cls, name, callee) in NOABORT_EXCEPTIONS:
            return
        res.add(f"{cls}|{name}|{callee}", f"{cls}::{name} must not abort, but it calls {callee}() — which contains an "
                f"EMBOSS_CHECK or is an unchecked operation — without a preceding guard: `{' '.join(stmt.split())[:120]}`",
                file, line, f"{cls}::{name}")

    n_methods = 0
    for m in facts.methods:
        if m.name in NOABORT_METHODS or m.name.startswith("has_"):
            n_methods += 1
            check_body(m.cls, m.name, m.body, m.file, m.line)
    res.detail["noabort_methods_analysed"] = n_methods
    if n_methods < 25:
        raise AnalysisError(f"only {n_methods} no-abort methods found in the runtime")
    # templates: no-abort methods of the generated view classes
    if templates is not None:
        for tname, t in templates.templates.items():
            text = re.sub(r"\$\{(\w+)\}", r"V_\1", t["text"])
            for mt in re.finditer(r"\b(bool|Maybe<bool>|::emboss::support::Maybe<bool>)\s+(\w+)\s*\(([^)]*)\)\s*(const)?\s*\{", text):
                name = mt.group(2)
                if name not in NOABORT_METHODS and not name.startswith("has_"):
                    continue
                # body by brace matching
                i = mt.end() - 1
                depth = 0
                j = i
                while j < len(text):
                    if text[j] == "{":
                        depth += 1
                    elif text[j] == "}":
                        depth -= 1
                        if depth == 0:
                            break
                    j += 1
                body = text[i:j + 1]
                n_methods += 1
                check_body(f"template:{tname}", name, body, TEMPLATES, t["line"])
    res.samples = [f"aborting callees (by name): {sorted(aborting)[:8]} …"]
    res.analysed = sorted({m.file for m in facts.methods}) + ([TEMPLATES] if templates else [])
    return res


# ---- R-IFACE -------------------------------------------------------------------------------------
def iface(facts: CppFacts, templates: Templates):
    """Every method the templates invoke on a field/parameter view exists on every view kind that can
    occupy that position."""
    res = RuleResult("R-IFACE")
    runtime_kinds = {k: {m.name for m in facts.by_class(k)} for k in SCALAR_VIEWS + ["GenericArrayView", "MaybeConstantView"]}
    for k, ms in runtime_kinds.items():
        if not ms:
            raise AnalysisError(f"runtime class {k} not found")
    def template_methods(tname):
        if tname not in templates:
            raise AnalysisError(f"template {tname} vanished")
        return set(re.findall(r"\b(\w+)\s*\(", templates[tname]["text"]))
    struct_methods = template_methods("structure_view_class") | template_methods("struct_text_stream")
    virt_methods = template_methods("structure_single_virtual_field_method_declarations") | \
        template_methods("structure_single_virtual_field_write_methods")
    const_virt_methods = template_methods("structure_single_const_virtual_field_method_declarations")
    PHYS = {k: runtime_kinds[k] for k in SCALAR_VIEWS + ["GenericArrayView"]}
    PHYS["<generated structure view>"] = struct_methods
    PARAM = {"MaybeConstantView": runtime_kinds["MaybeConstantView"]}
    VIRT = {"<virtual field view>": virt_methods, "<constant virtual field view>": const_virt_methods}
    # position table: which kinds can be substituted for the field placeholder of each template
    # (equality clauses are generated for physical fields and runtime parameters — R-EQLOCKSTEP; Ok checks for
    #  every field in dependency order, virtual ones included; text decode for writable fields; text output for all)
    positions = {
        "equals_method_test": {**PHYS, **PARAM},
        "unchecked_equals_method_test": {**PHYS, **PARAM},
        "ok_method_test": {**PHYS, **VIRT},
        "ok_method_switch_case": {**PHYS, **VIRT},
        "decode_field": {**PHYS, "<virtual field view>": virt_methods},
        "write_field_to_text_stream": {**PHYS, "<virtual field view>": virt_methods},
        "write_read_only_field_to_text_stream": {**PHYS, **VIRT},
    }
    for tname, kinds in positions.items():
        if tname not in templates:
            raise AnalysisError(f"template {tname} vanished")
        text = templates[tname]["text"]
        called = set(re.findall(r"(?<![\w])\$\{(?:field|field_name|name)\}(?:\(\))?\s*\.\s*(\w+)\s*\(", text))
        for meth in sorted(called):
            for kind, have in kinds.items():
                res.instances += 1
                if meth not in have:
                    res.add(f"{tname}|{meth}|{kind}", f"template {tname} calls `.{meth}(...)` on a field/parameter view, but "
                            f"{kind} — which can occupy that position — declares no {meth}: the generated member "
                            "template fails to compile when instantiated", TEMPLATES, templates[tname]["line"])
        if len(res.samples) < 3:
            res.samples.append({"template": tname, "methods": sorted(called), "kinds": sorted(kinds)})
    res.analysed = [TEMPLATES, PRELUDE_H, "runtime/cpp/emboss_constant_view.h", "runtime/cpp/emboss_array_view.h"]
    return res


# ---- R-COPY ------------------------------------------------------------------------------------
def copy_rule(facts: CppFacts, templates: Templates):
    res = RuleResult("R-COPY")
    cb = {m.name: m for m in facts.by_class("ContiguousBuffer")}
    for need in ("UncheckedCopyFrom", "TryToCopyFrom", "CopyFrom"):
        if need not in cb:
            raise AnalysisError(f"ContiguousBuffer::{need} not found")
    res.instances = 6
    u = cb["UncheckedCopyFrom"]
    if "memmove" not in u.body:
        res.add("ContiguousBuffer|UncheckedCopyFrom|memmove", "ContiguousBuffer::UncheckedCopyFrom no longer uses memmove: "
                "overlapping source and destination are undefined behaviour with memcpy", u.file, u.line, "UncheckedCopyFrom")
    mm = re.search(r"memmove\s*\(\s*([^,]+),\s*([^,]+),\s*([^)]+)\)", u.body)
    if mm and not (mm.group(1).strip().startswith("data") and "other" in mm.group(2) and "size" in mm.group(3)):
        res.add("ContiguousBuffer|UncheckedCopyFrom|args", f"memmove({mm.group(1)}, {mm.group(2)}, {mm.group(3)}): destination must be "
                "this buffer, source the other buffer", u.file, u.line, "UncheckedCopyFrom")
    t = cb["TryToCopyFrom"]
    body = " ".join(t.body.split())
    for cond, what in ((r"(?<![\w.])Ok\(\)", "own Ok()"), (r"other\.Ok\(\)", "source Ok()"),
                       (r"(?<![\w.])SizeInBytes\(\)\s*>=\s*size\b|\bsize\s*<=\s*(?<![\w.])SizeInBytes\(\)", "destination size"),
                       (r"other\.SizeInBytes\(\)\s*>=\s*size\b|\bsize\s*<=\s*other\.SizeInBytes\(\)", "source size")):
        if not re.search(cond, body):
            res.add(f"ContiguousBuffer|TryToCopyFrom|{what}", f"ContiguousBuffer::TryToCopyFrom does not test {what} before copying",
                    t.file, t.line, "TryToCopyFrom")
    # ... and nothing else: TryToCopyFrom succeeds *exactly* when both buffers are Ok and can hold `size` bytes.
    gm = re.search(r"if\s*\((.*?)\)\s*\{", body)
    if gm:
        def _norm(c):
            c = c.strip()
            mm2 = re.fullmatch(r"(.+?)\s*<=\s*(.+)", c)
            return f"{mm2.group(2).strip()} >= {mm2.group(1).strip()}" if mm2 else " ".join(c.split())
        conj = {_norm(c) for c in gm.group(1).split("&&")}
        want = {"Ok()", "other.Ok()", "SizeInBytes() >= size", "other.SizeInBytes() >= size"}
        for extra in sorted(conj - want):
            res.add(f"ContiguousBuffer|TryToCopyFrom|extra-condition", f"ContiguousBuffer::TryToCopyFrom additionally requires `{extra}`: "
                    "copies that fit (destination holds `size` bytes, source has them) are refused, e.g. a source view with slack "
                    "after the structure copied into an exactly-sized destination", t.file, t.line, "TryToCopyFrom")
    # the copy must come after the tests
    st = statements(t.body)
    ci = [i for i, s in enumerate(st) if "CopyFrom" in s and "if" not in s.split("(")[0]]
    gi = [i for i, s in enumerate(st) if s.startswith("if")]
    if "&&" not in body and ci and gi and min(ci) < max(gi):
        res.add("ContiguousBuffer|TryToCopyFrom|order", "copy happens before a guard", t.file, t.line, "TryToCopyFrom")
    # structure template
    sv = templates["structure_view_class"]["text"] if "structure_view_class" in templates else None
    if sv is None:
        raise AnalysisError("template structure_view_class vanished")
    m = re.search(r"bool\s+TryToCopyFrom\s*\([^)]*\)\s*const\s*\{(.*?)\n  \}", sv, re.S)
    if not m:
        res.add("structure_view_class|TryToCopyFrom", "structure views no longer define TryToCopyFrom", TEMPLATES)
    else:
        b = " ".join(m.group(1).split())
        if not re.search(r"emboss_reserved_local_other\.Ok\(\)\s*&&\s*backing_\.TryToCopyFrom\(", b):
            res.add("structure_view_class|TryToCopyFrom|guard", f"structure TryToCopyFrom is `{b[:120]}`; it must be "
                    "`other.Ok() && backing_.TryToCopyFrom(other.backing_, other.IntrinsicSize...)`", TEMPLATES)
        if "IntrinsicSizeIn" not in b:
            res.add("structure_view_class|TryToCopyFrom|size", "structure TryToCopyFrom does not copy the source's intrinsic size", TEMPLATES)
    # siblings: CopyFrom, TryToCopyFrom and UncheckedCopyFrom of a structure view copy the same extent -- the *source's*
    # intrinsic size, read through the other view (the destination's own size depends on what it held before the copy:
    # for `1 [+length] UInt:8[] payload` a destination holding a shorter packet would receive a truncated copy)
    for meth in ("CopyFrom", "TryToCopyFrom", "UncheckedCopyFrom"):
        mm3 = re.search(r"(?:void|bool)\s+" + meth + r"\s*\(\s*Generic\$\{name\}View<OtherStorage>\s+(\w+)\s*\)\s*const\s*\{(.*?)\n  \}", sv, re.S)
        if not mm3:
            raise AnalysisError(f"structure_view_class: {meth} not recognised")
        res.instances += 1
        other, b3 = mm3.group(1), " ".join(mm3.group(2).split())
        call = re.search(r"backing_\s*\.\s*(?:Unchecked|TryTo)?CopyFrom\s*\((.*)\)\s*;", b3)
        if not call:
            res.add(f"structure_view_class|{meth}|forward", f"structure {meth} no longer forwards to backing_.*CopyFrom", TEMPLATES)
            continue
        args = call.group(1)
        depth, cut = 0, None
        for i_, ch in enumerate(args):
            depth += ch in "(<"
            depth -= ch in ")>"
            if ch == "," and depth == 0:
                cut = i_
                break
        size_arg = args[cut + 1:].strip() if cut is not None else ""
        if not re.match(re.escape(other) + r"\s*\.\s*IntrinsicSizeIn\$\{units\}\s*\(\s*\)", size_arg):
            res.add(f"structure_view_class|{meth}|size-of-source", f"structure {meth} copies `{size_arg[:60]}` units: the extent must be the "
                    f"source's own `{other}.IntrinsicSizeIn${{units}}()`; the destination's size depends on its previous contents, so a "
                    "dynamically sized structure is copied short or long and the destination does not Equals() the source", TEMPLATES)
    res.samples = [" ".join(u.body.split())[:120], " ".join(t.body.split())[:160]]
    res.analysed = ["runtime/cpp/emboss_memory_util.h", TEMPLATES]
    return res


# ---- R-OPCHAIN: C++ half ---------------------------------------------------------------------
CPP_OPS = {
    "SumOperation": "+", "DifferenceOperation": "-", "ProductOperation": "*", "EqualOperation": "==",
    "NotEqualOperation": "!=", "LessThanOperation": "<", "LessThanOrEqualOperation": "<=",
    "GreaterThanOperation": ">", "GreaterThanOrEqualOperation": ">=",
}
MEMBER_TO_CPPNAME = {
    "ADDITION": "Sum", "SUBTRACTION": "Difference", "MULTIPLICATION": "Product", "EQUALITY": "Equal",
    "INEQUALITY": "NotEqual", "LESS": "LessThan", "LESS_OR_EQUAL": "LessThanOrEqual", "GREATER": "GreaterThan",
    "GREATER_OR_EQUAL": "GreaterThanOrEqual", "AND": "And", "OR": "Or", "CHOICE": "Choice", "MAXIMUM": "Maximum",
}


def opchain_cpp(repo, facts: CppFacts):
    res = RuleResult("R-OPCHAIN")
    hg = repo.mod("compiler/back_end/cpp/header_generator.py")
    table = None
    for f in hg.top_funcs():
        for n in walk_no_nested_funcs(f.node):
            if isinstance(n, ast.Dict) and n.keys and all(k is not None and (dotted_name(k) or "").startswith("ir_data.FunctionMapping.") for k in n.keys) \
                    and all(isinstance(v, ast.Constant) and isinstance(v.value, str) for v in n.values):
                table = ({dotted_name(k).rsplit(".", 1)[1]: v.value for k, v in zip(n.keys, n.values)}, f)
    if table is None:
        raise AnalysisError("header_generator: operator-name table not found")
    names, fn = table
    arith = repo.read("runtime/cpp/emboss_arithmetic.h")
    fns = {m.name: m for m in facts.functions if m.file.endswith("emboss_arithmetic.h")}
    for member, cpp in sorted(names.items()):
        res.instances += 1
        want = MEMBER_TO_CPPNAME.get(member)
        if want and cpp != want:
            res.add(f"header_generator|{member}", f"{member} is rendered as ::emboss::support::{cpp}; the runtime function with "
                    f"that operator's meaning is {want}", hg.rel, fn.line, fn.name)
            continue
        if cpp not in fns:
            res.add(f"runtime|{cpp}", f"header_generator emits ::emboss::support::{cpp}() but emboss_arithmetic.h defines no "
                    "such function template", "runtime/cpp/emboss_arithmetic.h")
            continue
        body = fns[cpp].body
        # the function forwards to <X>Operation
        m = re.search(r"\b(\w+Operation)\b", body)
        if cpp in ("And", "Or", "Choice"):
            continue
        if not m:
            res.add(f"runtime|{cpp}|forward", f"{cpp}() does not forward to an *Operation functor", fns[cpp].file, fns[cpp].line, cpp)
            continue
        functor = m.group(1)
        if functor != cpp + "Operation":
            res.add(f"runtime|{cpp}|functor", f"{cpp}() forwards to {functor}, not {cpp}Operation", fns[cpp].file, fns[cpp].line, cpp)
    # each functor's Do(l, r) applies its own operator
    for functor, op in CPP_OPS.items():
        res.instances += 1
        dos = [m for m in facts.method(functor, "Do")]
        if not dos:
            res.add(f"runtime|{functor}|Do", f"{functor}::Do not found", "runtime/cpp/emboss_arithmetic.h")
            continue
        d = dos[0]
        ps = [p[1] for p in d.params]
        st = " ".join(" ".join(statements(d.body)).split())
        m = re.search(rf"return\s+(?:static_cast\s*<[^;]*?>\s*\()?\s*\(?\s*(\w+)\s*([-+*<>=!]=?|==)\s*(\w+)", st)
        if not m:
            res.add(f"runtime|{functor}|shape", f"{functor}::Do is not `return l OP r`: `{st[:80]}`", d.file, d.line, functor)
            continue
        l, o, r = m.group(1), m.group(2), m.group(3)
        if o != op or [l, r] != ps[:2]:
            res.add(f"runtime|{functor}|operator", f"{functor}::Do computes `{l} {o} {r}` (parameters {ps}); it must compute "
                    f"`{ps[0]} {op} {ps[1]}`", d.file, d.line, functor)
        elif len(res.samples) < 3:
            res.samples.append(f"{functor}::Do -> {l} {o} {r}")
    # MaximumOperation::Do(v0, v1) orientation
    for d in facts.method("MaximumOperation", "Do"):
        if len(d.params) == 2:
            res.instances += 1
            st = " ".join(" ".join(statements(d.body)).split())
            a, b = d.params[0][1], d.params[1][1]
            ok = re.search(rf"{a}\s*<\s*{b}\s*\?\s*{b}\s*:\s*{a}", st) or re.search(rf"{b}\s*<\s*{a}\s*\?\s*{a}\s*:\s*{b}", st) \
                or re.search(rf"{a}\s*>\s*{b}\s*\?\s*{a}\s*:\s*{b}", st) or re.search(rf"{b}\s*>\s*{a}\s*\?\s*{b}\s*:\s*{a}", st)
            if not ok:
                res.add("runtime|MaximumOperation|Do", f"MaximumOperation::Do({a}, {b}) is `{st[:80]}`, not the larger of its "
                        "two arguments", d.file, d.line, "MaximumOperation")
    res.analysed = [hg.rel, "runtime/cpp/emboss_arithmetic.h"]
    return res


# ---- R-RTSYMS ---------------------------------------------------------------------------------
def rtsyms(repo, facts: CppFacts, templates: Templates):
    """Every ::emboss::…-qualified name that templates or header_generator string literals can emit is
    declared in the runtime headers."""
    res = RuleResult("R-RTSYMS")
    declared = set()
    for hd in facts.headers:
        text = repo.read(f"runtime/cpp/{hd}")
        declared |= set(re.findall(r"\b(?:class|struct|enum class|enum|using|typedef[^;]*?)\s+(\w+)", text))
        declared |= set(re.findall(r"\b(\w+)\s*\(", text))
        declared |= set(re.findall(r"#define\s+(\w+)", text))
        declared |= set(re.findall(r"\busing\s+(\w+)\s*=", text))
    declared |= {m.name for m in facts.methods} | {m.name for m in facts.functions} | set(c.split("::")[-1] for c in facts.classes)
    sources = []
    for name, t in templates.templates.items():
        sources.append((f"template {name}", t["text"], TEMPLATES, t["line"]))
    hg = repo.mod("compiler/back_end/cpp/header_generator.py")
    for n in ast.walk(hg.tree):
        if isinstance(n, ast.Constant) and isinstance(n.value, str) and "::emboss::" in n.value:
            sources.append((f"header_generator string", n.value, hg.rel, n.lineno))
    seen = set()
    for where, text, file, line in sources:
        for q in re.findall(r"::emboss::((?:\w+::)*\w+)", text):
            parts = q.split("::")
            leaf = parts[-1]
            if leaf in ("support", "prelude", "emboss") or "$" in leaf:
                continue
            if (leaf,) in seen:
                continue
            seen.add((leaf,))
            res.instances += 1
            if leaf not in declared:
                res.add(f"symbol|{leaf}", f"{where} emits ::emboss::{q}, but no runtime header declares `{leaf}`", file, line)
    # dynamically formed names: "{}ByteOrderer" and Write*ViewToTextStream
    for n in ast.walk(hg.tree):
        if isinstance(n, ast.Constant) and isinstance(n.value, str):
            for mt in re.finditer(r"\b(Write\w+ToTextStream)\b", n.value):
                res.instances += 1
                if mt.group(1) not in declared:
                    res.add(f"symbol|{mt.group(1)}", f"header_generator emits {mt.group(1)}, not declared by the runtime", hg.rel, n.lineno)
    res.samples = sorted(x[0] for x in seen)[:6]
    res.analysed = [TEMPLATES, hg.rel] + [f"runtime/cpp/{h}" for h in facts.headers]
    return res


# ---- positive controls -----------------------------------------------------------------------
def control(repo):
    """Overlay of emboss_prelude.h: drop `other.Ok() &&` from UIntView::TryToCopyFrom and IsComplete guard from
    BcdView::TryToWrite: R-SIBLING and R-NOABORT must fire."""
    src = repo.read(PRELUDE_H)
    new = src.replace("return other.Ok() && TryToWrite(other.Read());", "return TryToWrite(other.Read());", 1)
    if new == src:
        return False
    r2 = Repo(repo.root, overlay={PRELUDE_H: new})
    f2 = CppFacts(r2)
    a = sibling(f2)
    b = noabort(f2)
    return any("TryToCopyFrom" in f.construct for f in a.findings) and any("TryToCopyFrom|Read" in f.construct for f in b.findings)


# ---- R-ARRAYSEP ---------------------------------------------------------------------------------
_CM = re.compile(r"//[^\n]*|/\*.*?\*/", re.S)

def _block_after(text, start):
    """The `{...}` block that begins at or after `start` -> (begin index of '{', end index after '}')."""
    i = text.index("{", start)
    depth = 0
    j = i
    while j < len(text):
        if text[j] == "{":
            depth += 1
        elif text[j] == "}":
            depth -= 1
            if depth == 0:
                return i, j + 1
        j += 1
    raise AnalysisError("unbalanced braces")


def arraysep(facts: CppFacts):
    """R-ARRAYSEP (C06): what the array writer puts between two elements is what the array reader accepts
    there.  The reader's requirement is read off the code that follows the element update in
    ReadArrayFromTextStream (which characters do not lead to `return false`); every output mode of
    WriteArrayToTextStream must then write such a character after an element that is not the last."""
    res = RuleResult("R-ARRAYSEP")
    rd = [f for f in facts.functions if f.name == "ReadArrayFromTextStream"]
    wr = [f for f in facts.functions if f.name == "WriteArrayToTextStream"]
    if not rd or not wr:
        raise AnalysisError("ReadArrayFromTextStream / WriteArrayToTextStream not found")
    rd, wr = rd[0], wr[0]
    rbody = _CM.sub("", rd.body)
    k = rbody.find("UpdateFromTextStream(")
    if k < 0:
        raise AnalysisError("ReadArrayFromTextStream: element update not found")
    after = rbody[k:]
    strict = re.search(r"if\s*\(\s*c\s*!=\s*','\s*\)\s*\{\s*if\s*\(\s*c\s*!=\s*'\}'\s*\)\s*return\s+false\s*;", after)
    lenient = re.search(r"if\s*\(\s*c\s*!=\s*','\s*&&\s*!\s*stream\s*->\s*Unread\s*\(\s*c\s*\)\s*\)\s*return\s+false\s*;", after)
    res.instances += 1
    if strict:
        accepted = {",", "}"}
    elif lenient:
        accepted = None  # anything may follow an element
    else:
        raise AnalysisError("ReadArrayFromTextStream: the separator test after an element was not recognised")
    wbody = _CM.sub("", wr.body)
    m = re.search(r"if\s*\(\s*options\s*\.\s*multiline\s*\(\s*\)\s*\)", wbody)
    if not m:
        raise AnalysisError("WriteArrayToTextStream: no multiline / single-line split")
    b0, e0 = _block_after(wbody, m.end())
    els = re.match(r"\s*else\s*", wbody[e0:])
    if not els:
        raise AnalysisError("WriteArrayToTextStream: no else branch")
    b1, e1 = _block_after(wbody, e0 + els.end() - 1)
    for mode, blk in (("multiline", wbody[b0:e0]), ("single-line", wbody[b1:e1])):
        res.instances += 1
        lp = re.search(r"for\s*\(", blk)
        if not lp or "WriteToTextStream(stream" not in blk:
            raise AnalysisError(f"WriteArrayToTextStream/{mode}: element loop not found")
        lb, le = _block_after(blk, lp.end())
        loop = blk[lb:le]
        k = loop.find(".WriteToTextStream(stream")
        tail = loop[k:]
        # the element branch ends at the first "} else"
        cut = re.search(r"\}\s*else\b", tail)
        elem_tail = tail[:cut.start()] if cut else tail
        writes = re.findall(r"stream\s*->\s*Write\s*\(\s*\"((?:[^\"\\]|\\.)*)\"\s*\)", elem_tail)
        if accepted is None:
            continue
        if not any(w.strip() in accepted and w.strip() for w in writes):
            res.add(f"{wr.file}|WriteArrayToTextStream|{mode}|separator", f"WriteArrayToTextStream ({mode} output) writes nothing "
                    f"from {sorted(accepted)} after an element, but ReadArrayFromTextStream returns false unless an element is "
                    "followed by ',' or '}': an array with more than one element written in this mode cannot be read back",
                    wr.file, wr.line, "WriteArrayToTextStream")
        elif len(res.samples) < 2:
            res.samples.append(f"{mode}: element followed by {writes}")
    res.detail = {"reader_accepts_after_element": sorted(accepted) if accepted else "anything"}
    res.analysed = ["runtime/cpp/emboss_text_util.h"]
    return res


# ---- R-INTTEXT ----------------------------------------------------------------------------------------
def inttext(facts: CppFacts, only=None):
    """R-INTTEXT (C06): the integer text writer and reader use one alphabet.
    * every digit character the writer can emit (`digits[i]`, i < 16) is decoded by the reader to i;
    * the base prefix the writer puts in front of a hexadecimal / binary number selects that base in the reader;
    * the separator the writer inserts is skipped by the reader; the sign character is the one the reader tests;
    * the scratch buffer holds the longest output (binary with separators, sign, prefix, NUL) for 1/2/4/8-byte types."""
    from .. import cppexpr as X
    res = RuleResult("R-INTTEXT")
    TU = "runtime/cpp/emboss_text_util.h"
    wr = [f for f in facts.functions if f.name == "WriteIntegerToTextStream"]
    rd = [f for f in facts.functions if f.name == "DecodeInteger"]
    if not wr or not rd:
        raise AnalysisError("WriteIntegerToTextStream / DecodeInteger not found")
    w, r = _CM.sub("", wr[0].body), _CM.sub("", rd[0].body)
    # reader tables
    ranges = re.findall(r"c\s*>=\s*'(.)'\s*&&\s*c\s*<=\s*'(.)'\s*\)\s*\{\s*digit\s*=\s*c\s*-\s*'(.)'\s*(?:\+\s*(\d+))?\s*;", r)
    if len(ranges) < 3:
        raise AnalysisError("DecodeInteger: digit ranges not recognised")

    def decode(ch):
        for lo, hi, base_ch, plus in ranges:
            if lo <= ch <= hi:
                return ord(ch) - ord(base_ch) + int(plus or 0)
        return None
    prefixes = {}
    for letters, base in re.findall(r"((?:text\s*\[\s*offset\s*\+\s*1\s*\]\s*==\s*'.'\s*(?:\|\|\s*)?)+)\)\s*\{\s*base\s*=\s*(\d+)\s*;", r):
        for ch in re.findall(r"'(.)'", letters):
            prefixes[ch] = int(base)
    if not re.search(r"text\s*\[\s*offset\s*\]\s*==\s*'0'", r) or not prefixes:
        raise AnalysisError("DecodeInteger: base prefixes not recognised")
    skips = set(re.findall(r"if\s*\(\s*c\s*==\s*'(.)'\s*\)\s*\{(?:[^{}]|\{[^{}]*\})*?continue\s*;", r, re.S))
    sign_r = re.findall(r"text\s*\[\s*offset\s*\]\s*==\s*'(-)'", r)
    # writer tables
    dm = re.search(r"digits\s*=\s*\"([^\"]+)\"", w)
    if not dm:
        raise AnalysisError("WriteIntegerToTextStream: digit string not found")
    digits = dm.group(1)
    for i, ch in enumerate(digits):
        res.instances += 1
        if decode(ch) != i:
            res.add(f"{TU}|digits|{i}", f"the writer emits '{ch}' for digit value {i}; the reader decodes '{ch}' as {decode(ch)}", TU, wr[0].line, "WriteIntegerToTextStream")
    if len(digits) != 16:
        res.add(f"{TU}|digits|count", f"the writer's digit string has {len(digits)} characters; base 16 needs 16", TU, wr[0].line, "WriteIntegerToTextStream")
    for base, a, b in re.findall(r"base\s*==\s*(\d+)\s*\)\s*\{\s*buffer_char\(\s*'(.)'\s*\)\s*;\s*buffer_char\(\s*'(.)'\s*\)\s*;", w):
        res.instances += 1
        # the buffer is filled from the end: the second character written comes first in the text
        if b != "0" or prefixes.get(a) != int(base):
            res.add(f"{TU}|prefix|{base}", f"a base-{base} number is written with prefix '{b}{a}'; the reader maps that prefix to "
                    f"{'base ' + str(prefixes.get(a)) if b == '0' and a in prefixes else 'no base (decimal digits follow)'}", TU, wr[0].line, "WriteIntegerToTextStream")
    seps = set(re.findall(r"digit_grouping\s*\)\s*\{\s*buffer_char\(\s*'(.)'\s*\)", w))
    res.instances += 2
    if not seps or not seps <= skips:
        res.add(f"{TU}|separator", f"the writer separates digit groups with {sorted(seps)}, the reader skips {sorted(skips)}", TU, wr[0].line, "WriteIntegerToTextStream")
    sign_w = re.findall(r"sign\s*<\s*0\s*\)\s*\{\s*buffer_char\(\s*'(.)'\s*\)", w)
    if sign_w != ["-"] or sign_r != ["-"]:
        res.add(f"{TU}|sign", f"sign characters differ: writer {sign_w}, reader {sign_r}", TU, wr[0].line, "WriteIntegerToTextStream")
    # grouping sizes and buffer size
    gm = re.search(r"grouping\s*=\s*([^;]+);", w)
    bm = re.search(r"buffer_size\s*=\s*([^;]+);", w)
    if not gm or not bm:
        raise AnalysisError("WriteIntegerToTextStream: grouping / buffer_size not found")
    try:
        ge = X.parse(gm.group(1))
        be = X.parse(bm.group(1).replace("(sizeof value)", "sizeof(ValueT)"), type_names={"ValueT"})
        for base, want in ((10, 3), (16, 4), (2, 8)):
            res.instances += 1
            got = X.evaluate(ge, X.Env({"base": X.V(X.T(False, 8), base)})).v
            if got != want:
                res.add(f"{TU}|grouping|{base}", f"base-{base} digits are grouped by {got}; documented grouping is {want}", TU, wr[0].line, "WriteIntegerToTextStream")
        for bits in (8, 16, 32, 64):
            res.instances += 1
            got = X.evaluate(be, X.Env({"CHAR_BIT": X.V(X.INT, 8)}, {"ValueT": X.T(True, bits)})).v
            need = bits + (bits // 8 - 1) + 2 + 1 + 1
            if got < need:
                res.add(f"{TU}|buffer|{bits}", f"the scratch buffer of a {bits}-bit value has {got} bytes; binary output with separators, "
                        f"prefix, sign and NUL needs {need}", TU, wr[0].line, "WriteIntegerToTextStream")
    except (X.Unsupported, X.UB) as e:
        raise AnalysisError(f"WriteIntegerToTextStream: {e}")
    res.samples = [f"digits {digits!r}; prefixes {prefixes}; separator {sorted(seps)}"]
    res.analysed = [TU]
    if only is not None:
        res.findings = [x for x in res.findings if any(f"|{o}" in x.key for o in only)]
    return res


# ---- R-SIGNEXT ------------------------------------------------------------------------------------------
def signext(facts: CppFacts):
    """R-SIGNEXT (C02): a view whose value type can be signed and wider than the field must interpret the raw bits as
    two's complement *at the field width*.  The raw value comes from `buffer_.ReadUInt()` / `UncheckedReadUInt()` as an
    unsigned integer; turning it into a negative number needs a conversion that depends on `Parameters::kBits`
    (IntView::ConvertToSigned).  A bare `static_cast<ValueType>(raw)` zero-extends: a field narrower than the value
    type never reads back a negative value."""
    res = RuleResult("R-SIGNEXT")
    for cls, may_be_signed in (("IntView", "ValueType is LeastWidthInteger<kBits>::Signed"),
                               ("EnumView", "ValueType is the enum, whose underlying type is signed for [is_signed: true]")):
        own = {m.name: m for m in facts.by_class(cls)}
        for meth in ("Read", "UncheckedRead"):
            m = own.get(meth)
            if m is None:
                raise AnalysisError(f"{cls}::{meth} vanished")
            res.instances += 1
            body = _CM.sub("", m.body)
            mm = re.search(r"(\w+)\s*\(\s*buffer_\s*\.\s*(?:Unchecked)?ReadUInt\s*\(\s*\)\s*\)", body)
            conv = mm.group(1) if mm else None
            depends = False
            if conv and conv in own:
                depends = "kBits" in own[conv].body
            elif conv is None and "kBits" in body:
                depends = True
            if not depends:
                how = f"through {conv}, which does not mention kBits" if conv in own else \
                      "with a bare static_cast" if re.search(r"static_cast\s*<[^>]*ValueType\s*>\s*\(\s*buffer_", body) else "without a width-dependent conversion"
                res.add(f"{m.file}|{cls}::{meth}|no-sign-extension", f"{cls}::{meth} converts the raw field bits to ValueType {how}; "
                        f"{may_be_signed}, so in a field narrower than ValueType the top bit of the field is not taken as the sign "
                        "(an all-ones 8-bit field of a 16-bit signed enum reads 255, not -1)", m.file, m.line, f"{cls}::{meth}")
            elif len(res.samples) < 2:
                res.samples.append(f"{cls}::{meth}: raw value through {conv or 'a kBits-dependent expression'}")
            # the converse: EnumView's ValueType is as often unsigned (the default: uint64_t).  A conversion of the raw
            # bits through a signed intermediate must be conditional on the signedness of ValueType, or an unsigned enum
            # whose field has its top bit set reads back with all higher bits set
            if cls == "EnumView":
                res.instances += 1
                stmt = next((st for st in body.split(";") if re.search(r"buffer_\s*\.\s*(?:Unchecked)?ReadUInt", st)), "")
                via_signed = re.search(r"::\s*Signed\b|make_signed|\bu?int(?:8|16|32|64)_t\b(?<!uint8_t)(?<!uint16_t)(?<!uint32_t)(?<!uint64_t)|ConvertToSigned|\bsigned\b", stmt)
                helper_signed = conv in own and re.search(r"::\s*Signed\b|make_signed|ConvertToSigned", own[conv].body) \
                    and "is_signed" not in own[conv].body
                if (via_signed and "is_signed" not in body) or helper_signed:
                    res.add(f"{m.file}|{cls}::{meth}|sign-extends-unsigned", f"{cls}::{meth} takes the raw field bits through a signed type "
                            f"(`{(via_signed.group(0) if via_signed else conv)}`) whatever the signedness of ValueType: an enum without "
                            "[is_signed] (backed by uint64_t) in an 8/16/32-bit field with the top bit set reads 0xff..80 instead of 128",
                            m.file, m.line, f"{cls}::{meth}")
    res.analysed = ["runtime/cpp/emboss_prelude.h", "runtime/cpp/emboss_enum_view.h"]
    return res


# ---- R-NARROWARG ----------------------------------------------------------------------------------------
def narrowarg(facts: CppFacts):
    """R-NARROWARG (C03): `CouldWriteValue(v)` can only judge the value the caller wrote if it receives it
    unconverted.  A parameter of the view's own (narrow) integer ValueType converts the argument implicitly at the
    call — 256 becomes 0 for a uint8_t — before any range test runs.  UIntView and IntView therefore take a template
    parameter type; every integer-valued scalar view must do the same for CouldWriteValue, TryToWrite and Write."""
    res = RuleResult("R-NARROWARG")
    for cls in ("UIntView", "IntView", "BcdView"):
        own = {}
        for m in facts.by_class(cls):
            own.setdefault(m.name, m)
        for meth in ("CouldWriteValue", "TryToWrite", "Write"):
            m = own.get(meth)
            if m is None:
                raise AnalysisError(f"{cls}::{meth} vanished")
            res.instances += 1
            ptype = m.params[0][0] if m.params else ""
            bare = re.sub(r"\b(const|volatile)\b|[&\s]", "", ptype)
            templated = bool(bare) and bare != "ValueType" and not bare.endswith("::ValueType")
            if not templated:
                res.add(f"{m.file}|{cls}::{meth}|narrowing", f"{cls}::{meth} takes `{ptype or 'ValueType'} value`: an argument outside the value "
                        f"type's range is narrowed at the call before it is examined (256 -> 0 for an 8-bit {cls[:-4]}), so "
                        "CouldWriteValue/TryToWrite accept values that are not representable", m.file, m.line, f"{cls}::{meth}")
            elif len(res.samples) < 3:
                res.samples.append(f"{cls}::{meth}: templated on the argument type")
    res.analysed = ["runtime/cpp/emboss_prelude.h"]
    return res


def lowestdigit(facts: CppFacts):
    """R-LOWESTDIGIT (C06): the text writer cannot negate the minimum of a signed type, so it peels off the lowest digit
    with a special sequence of statements.  That sequence (declarations, assignments, `++x`, one-level `if`) is
    followed with the typed folder for value = lowest() of int8/16/32/64 and base 2, 10, 16: afterwards
    `value * base + digit` must be 2^(w-1), `0 <= digit < base`, and no step may overflow."""
    from .. import cppexpr as X
    res = RuleResult("R-LOWESTDIGIT")
    TU = "runtime/cpp/emboss_text_util.h"
    wr = [f for f in facts.functions if f.name == "WriteIntegerToTextStream"]
    if not wr:
        raise AnalysisError("WriteIntegerToTextStream not found")
    w = _CM.sub("", wr[0].body)
    m = re.search(r"if\s*\(\s*value\s*==\s*[^;{]*?lowest\s*\(\s*\)\s*\)", w)
    if not m:
        raise AnalysisError("WriteIntegerToTextStream: the lowest() special case was not found")
    b0, e0 = _block_after(w, m.end())
    block = w[b0 + 1:e0 - 1]

    def split_statements(text):
        out, depth, cur = [], 0, ""
        i = 0
        while i < len(text):
            c = text[i]
            cur += c
            if c in "({":
                depth += 1
            elif c in ")}":
                depth -= 1
                if c == "}" and depth == 0:
                    out.append(cur.strip())
                    cur = ""
            elif c == ";" and depth == 0:
                out.append(cur.strip())
                cur = ""
            i += 1
        if cur.strip():
            out.append(cur.strip())
        return out

    def run(stmts, env, tnames):
        for st in stmts:
            st = st.strip().rstrip(";").strip()
            if not st:
                continue
            mm = re.fullmatch(r"if\s*\((.*?)\)\s*\{(.*)\}", st, re.S)
            if mm:
                if X.evaluate(X.parse(mm.group(1), type_names=tnames), env).v:
                    run(split_statements(mm.group(2)), env, tnames)
                continue
            mm = re.fullmatch(r"(?:\+\+\s*(\w+)|(\w+)\s*\+\+)", st)
            if mm:
                n = mm.group(1) or mm.group(2)
                if n in env.values:
                    v = env.values[n]
                    r = v.v + 1
                    if v.t.signed and r > v.t.hi:
                        raise X.UB(f"++{n} overflows")
                    env.values[n] = X.V(v.t, v.t.wrap(r))
                continue
            mm = re.fullmatch(r"(?:(auto|int|unsigned|IntegralType|decltype\s*\(\s*value\s*\))\s+)?(\w+)\s*=\s*(.*)", st, re.S)
            if mm:
                decl, name, expr = mm.groups()
                v = X.evaluate(X.parse(expr, type_names=tnames), env)
                if decl is None and name in env.values:
                    v = X.convert(v, env.values[name].t)       # assignment converts to the variable's type
                elif decl and decl not in ("auto",):
                    v = X.convert(v, env.type("IntegralType") if "decltype" in decl or decl == "IntegralType" else X.BUILTIN_TYPES[decl])
                env.values[name] = v
                continue
            if re.match(r"buffer_char\s*\(", st):
                continue
            raise X.Unsupported(f"statement `{st[:60]}`")

    stmts = split_statements(block)
    for bits in (8, 16, 32, 64):
        t = X.T(True, bits)
        for base in (2, 10, 16):
            res.instances += 1
            env = X.Env({"value": X.V(t, t.lo), "base": X.V(X.T(False, 8), base), "digit_count": X.V(X.INT, 0)}, {"IntegralType": t}, {})
            try:
                run(stmts, env, {"IntegralType"})
                digit, value = env.values.get("digit"), env.values.get("value")
                if digit is None:
                    raise X.Unsupported("no `digit` computed")
                ok = value.v * base + digit.v == (1 << (bits - 1)) and 0 <= digit.v < base
                detail = f"value = {value.v}, digit = {digit.v}"
            except X.UB as u:
                ok, detail = False, f"undefined behaviour: {u}"
            except X.Unsupported as u:
                raise AnalysisError(f"WriteIntegerToTextStream lowest() case: {u}")
            if not ok:
                res.add(f"{TU}|WriteIntegerToTextStream|lowest|{bits}|{base}", f"writing the minimum of int{bits}_t in base {base}: after the "
                        f"special case {detail}, but value * {base} + digit must be 2^{bits - 1} with 0 <= digit < {base}: the text "
                        "shows another number than the field holds", TU, wr[0].line, "WriteIntegerToTextStream")
    res.samples = ["lowest() case followed for int8/16/32/64 x base 2/10/16"]
    res.analysed = [TU]
    return res


def enumtext(facts: CppFacts, clauses=("decode", "narrow", "writer")):
    """R-ENUMTEXT (C19/C06): an enum field can hold any value of its underlying type, and the writer prints unnamed values
    as numbers of that type.  The reader is the exact inverse when it decodes a numeric token (leading digit or `-`)
    into `underlying_type<ValueType>::type` -- DecodeInteger then rejects every number the enum cannot hold.  The older
    shape (digits into uint64_t, `-` into int64_t, then static_cast<ValueType>) is accepted for the `decode` clause but
    needs a check that the narrowing cast preserved the value (`narrow` clause, C06: rejected rather than wrapped);
    decoding both kinds of token into one fixed 64-bit type rejects half of a 64-bit enum's values."""
    res = RuleResult("R-ENUMTEXT")
    TU = "runtime/cpp/emboss_text_util.h"
    fn = [f for f in facts.functions if f.name == "ReadEnumViewFromTextStream"]
    if not fn:
        raise AnalysisError("ReadEnumViewFromTextStream not found")
    body = _CM.sub("", fn[0].body)
    # branches: condition text -> declared type of the variable passed to DecodeInteger
    branches = []
    for m in re.finditer(r"if\s*\(", body):
        # balanced condition
        i = m.end() - 1
        depth = 0
        j = i
        while j < len(body):
            if body[j] == "(":
                depth += 1
            elif body[j] == ")":
                depth -= 1
                if depth == 0:
                    break
            j += 1
        cond = body[i + 1:j]
        if not re.match(r"\s*\{", body[j + 1:]):
            continue
        b0, e0 = _block_after(body, j)
        blk = body[b0:e0]
        dm = re.search(r"DecodeInteger\s*\(\s*\w+\s*,\s*&\s*(\w+)\s*\)", blk)
        if not dm:
            continue
        var = dm.group(1)
        tm = re.search(r"((?:::)?std::)?(u?int\d+_t)\s+" + re.escape(var) + r"\s*;", blk)
        um = re.search(r"underlying_type\s*<\s*(?:typename\s+)?[\w:]*ValueType\s*>\s*::\s*type\s+" + re.escape(var) + r"\s*;", blk)
        typ = "underlying" if um else (tm.group(2) if tm else None)
        branches.append((" ".join(cond.split()), typ))
        # narrowing clause: a decoded 64-bit value reaches TryToWrite through static_cast<ValueType>; the branch must
        # compare the decoded variable with the narrowed value cast back (or range-check it) before the write.
        if "narrow" in clauses and typ != "underlying" and \
                re.search(r"static_cast<[^>]*ValueType\s*>\s*\(\s*" + re.escape(var) + r"\s*\)", blk):
            res.instances += 1
            after = re.sub(r"static_cast\s*<[^>]*>", "CAST", blk[dm.end():]).replace("->", ".")
            checked = re.search(r"[^=!<>]=?(==|!=|<=|>=|<|>)[^=]*\b" + re.escape(var) + r"\b|\b" + re.escape(var)
                                + r"\b\s*(==|!=|<=|>=|<|>)", after)
            if not checked:
                res.add(f"{TU}|ReadEnumViewFromTextStream|narrow|{typ or var}",
                        f"the decoded number `{var}` is narrowed with static_cast<ValueType> and written without checking that "
                        "the cast preserved it: a number outside the enum's underlying type wraps instead of being rejected",
                        TU, fn[0].line, "ReadEnumViewFromTextStream")
        elif "narrow" in clauses:
            res.instances += 1
    res.instances += 2
    digit = [t for c, t in branches if "isdigit" in c and "'-'" not in c]
    minus = [t for c, t in branches if "'-'" in c and "isdigit" not in c]
    merged = [(c, t) for c, t in branches if "isdigit" in c and "'-'" in c]
    if merged and not digit and not minus:
        c, t = merged[0]
        if t != "underlying":
            res.add(f"{TU}|ReadEnumViewFromTextStream|merged", f"numbers starting with a digit and numbers starting with `-` are decoded by one branch "
                    f"(`{c}`) into {t}: {'values from 2^63 to 2^64-1 of an unsigned 64-bit enum' if t == 'int64_t' else 'negative values of a signed enum'} "
                    "are rejected when read from text, although the writer prints them", TU, fn[0].line, "ReadEnumViewFromTextStream")
    else:
        if digit not in (["uint64_t"], ["underlying"]):
            res.add(f"{TU}|ReadEnumViewFromTextStream|digits", f"numbers starting with a digit are decoded into {digit or 'nothing'}, not uint64_t "
                    "or the enum's underlying type", TU, fn[0].line, "ReadEnumViewFromTextStream")
        if minus not in (["int64_t"], ["underlying"]):
            res.add(f"{TU}|ReadEnumViewFromTextStream|negative", f"numbers starting with `-` are decoded into {minus or 'nothing'}, not int64_t "
                    "or the enum's underlying type", TU, fn[0].line, "ReadEnumViewFromTextStream")
    res.samples = [f"branches: {branches}"]
    res.analysed = [TU]
    # writer side: the number printed for an unnamed value is the value in the enum's own underlying type -- the type the
    # reader decodes into.  A fixed-width cast (`static_cast<int64_t>(view->Read())`) prints 2^63.. of an unsigned
    # 64-bit enum as negative numbers, which the reader rejects.
    if "writer" in clauses:
        wf = [f_ for f_ in facts.functions if f_.name == "WriteEnumViewToTextStream"]
        if not wf:
            raise AnalysisError("WriteEnumViewToTextStream not found")
        wbody = re.sub(r"/\*\*/", "", _CM.sub("", wf[0].body))
        res.instances += 1
        wm = re.search(r"WriteIntegerToTextStream\s*\(\s*(.*?)\s*,\s*stream\b", wbody, re.S)
        if not wm:
            res.add(f"{TU}|WriteEnumViewToTextStream|numeric", "the enum text writer no longer prints the numeric value through WriteIntegerToTextStream",
                    TU, wf[0].line, "WriteEnumViewToTextStream")
        else:
            arg = " ".join(wm.group(1).split())
            cast = re.match(r"static_cast\s*<\s*(.*)\s*>\s*\(\s*view\s*->\s*Read\s*\(\s*\)\s*\)$", arg)
            ty = cast.group(1) if cast else None
            if not ty or "underlying_type" not in ty or "ValueType" not in ty:
                res.add(f"{TU}|WriteEnumViewToTextStream|numeric-type", f"the enum text writer prints `{arg[:80]}`: the numeric form must be the value in "
                        "`underlying_type<View::ValueType>::type`, the type the reader decodes into; through a fixed 64-bit signed type the "
                        "values 2^63..2^64-1 of an unsigned enum are written as negative numbers and cannot be read back",
                        TU, wf[0].line, "WriteEnumViewToTextStream")
    return res


# ---- R-BYTEPATH: both preprocessor variants of the generic (unaligned) MemoryAccessor -----------------------------------
def _accessor_variants(src):
    """{method name: [body, ...]} for MemoryAccessor<CharT, 1, 0, kBits>, including the #else (portable) variants that the
    compiler run with default flags never sees."""
    m = re.search(r"struct\s+MemoryAccessor\s*<\s*CharT\s*,\s*1\s*,\s*0\s*,\s*kBits\s*>\s*\{", src)
    if not m:
        raise AnalysisError("MemoryAccessor<CharT, 1, 0, kBits> not found")
    i = m.end() - 1
    depth = 0
    j = i
    while j < len(src):
        if src[j] == "{":
            depth += 1
        elif src[j] == "}":
            depth -= 1
            if depth == 0:
                break
        j += 1
    text = _CM.sub("", src[i:j])
    out = {}
    for fm in re.finditer(r"static\s+inline\s+[\w:<>\s]+?\b(\w+EndianUInt)\s*\(([^)]*)\)\s*\{", text):
        k = fm.end() - 1
        d = 0
        e = k
        while e < len(text):
            if text[e] == "{":
                d += 1
            elif text[e] == "}":
                d -= 1
                if d == 0:
                    break
            e += 1
        out.setdefault(fm.group(1), []).append(" ".join(text[k + 1:e].split()))
    return out


def bytepath(repo, side=None):
    """R-BYTEPATH (C02 reads / C03 writes): the generic MemoryAccessor has two implementations of each of Read/Write x
    Little/Big: a memcpy + byte-swap one and a portable byte loop (#else; compiled with EMBOSS_NO_OPTIMIZATIONS or a
    non-GNU compiler).  Decided on the source text of *both*:
      * memcpy variants: a value narrower than its carrier has its bytes at `(char*)&v + sizeof v - kBits / 8` for big
        endian and at `&v` for little endian; the read's destination and the write's source must be that expression
        (read and write agree), the other side is `bytes`, the length kBits / 8;
      * loop variants: each buffer byte is converted through uint8_t before it is widened (CharT may be signed char: no
        sign extension), byte j carries significance 8j (little) / kBits - 8 - 8j (big) for every width 8..64 -- the
        read's shift and the write's index are folded for every i."""
    from .. import cppexpr as X
    res = RuleResult("R-BYTEPATH")
    src = repo.read("runtime/cpp/emboss_memory_util.h")
    FILE = "runtime/cpp/emboss_memory_util.h"
    var = _accessor_variants(src)
    need = ("ReadLittleEndianUInt", "WriteLittleEndianUInt", "ReadBigEndianUInt", "WriteBigEndianUInt")
    for n in need:
        if len(var.get(n, [])) != 2:
            raise AnalysisError(f"MemoryAccessor<CharT,1,0,kBits>::{n}: expected a memcpy and a loop variant, found {len(var.get(n, []))}")

    def norm(e):
        e = re.sub(r"\b(result|value)\b", "V", " ".join(e.split()))
        return e.replace("( ", "(").replace(" )", ")")

    BIG = "reinterpret_cast<char *>(&V) + sizeof V - kBits / 8"
    for n in need:
        big = "Big" in n
        read = n.startswith("Read")
        if side is not None and (side == "read") != read:
            continue
        fast = [b for b in var[n] if "memcpy" in b]
        loop = [b for b in var[n] if "memcpy" not in b]
        if len(fast) != 1 or len(loop) != 1:
            raise AnalysisError(f"{n}: variants not recognised")
        # ---- memcpy variant
        mp = fast[0].find("memcpy")
        args = []
        if mp >= 0:
            k0 = fast[0].index("(", mp)
            d_, k1 = 0, k0
            while k1 < len(fast[0]):
                if fast[0][k1] == "(":
                    d_ += 1
                elif fast[0][k1] == ")":
                    d_ -= 1
                    if d_ == 0:
                        break
                k1 += 1
            args = _split_top(fast[0][k0 + 1:k1])
        res.instances += 1
        if len(args) != 3:
            res.add(f"{FILE}|{n}|memcpy|shape", f"{n}: memcpy call not recognised", FILE, 0, n)
        else:
            dst, s_, ln = (norm(a) for a in args)
            val_side, buf_side = (dst, s_) if read else (s_, dst)
            want = BIG if big else "&V"
            if val_side != want:
                res.add(f"{FILE}|{n}|memcpy|value-side", f"{n} (memcpy variant) {'copies into' if read else 'copies from'} `{val_side}`; a "
                        f"{'big' if big else 'little'}-endian value of kBits/8 bytes inside its carrier integer lives at `{want}`: fields "
                        "of 3, 5, 6 or 7 bytes are " + ("read" if read else "written") + " from the wrong bytes", FILE, 0, n)
            if buf_side != "bytes":
                res.add(f"{FILE}|{n}|memcpy|buffer-side", f"{n}: the buffer side of the copy is `{buf_side}`, not `bytes`", FILE, 0, n)
            if ln != "kBits / 8":
                res.add(f"{FILE}|{n}|memcpy|length", f"{n}: copies `{ln}` bytes, not kBits / 8", FILE, 0, n)
        # ---- loop variant
        body = loop[0]
        res.instances += 1
        if read:
            for bm in re.finditer(r"bytes\s*\[[^\]]*\]", body):
                before = body[max(0, bm.start() - 40):bm.start()]
                if not re.search(r"static_cast<\s*(/\*\*/)?\s*(::)?(std::)?uint8_t\s*>\s*\(\s*$|static_cast<\s*unsigned char\s*>\s*\(\s*$", before):
                    res.add(f"{FILE}|{n}|loop|widen", f"{n} (portable variant) widens `{bm.group(0)}` without converting it to uint8_t first: "
                            "with a (signed) char buffer every byte >= 0x80 is sign-extended over the higher bytes of the result",
                            FILE, 0, n)
            sm = re.search(r"<<\s*(.+?)\s*;", body)
            idx = re.search(r"bytes\s*\[([^\]]*)\]", body)
            exprs = (idx.group(1) if idx else None, sm.group(1) if sm else None)
        else:
            im = re.search(r"bytes\s*\[([^\]]*)\]\s*=", body)
            exprs = (im.group(1) if im else None, None)
            if not re.search(r"value\s*>>=\s*8", body):
                res.add(f"{FILE}|{n}|loop|advance", f"{n} (portable variant) does not shift the value down by 8 per byte", FILE, 0, n)
        if exprs[0] is None or (read and exprs[1] is None):
            res.add(f"{FILE}|{n}|loop|shape", f"{n} (portable variant): byte index / shift not recognised", FILE, 0, n)
            continue
        for kb in range(8, 65, 8):
            for i in range(kb // 8):
                env = X.Env({"kBits": X.V(X.T(False, 64), kb), "i": X.V(X.T(False, 64), i)}, {}, {})
                try:
                    j = X.evaluate(X.parse(exprs[0].strip().strip("()") if False else exprs[0], set()), env).v
                    sig = X.evaluate(X.parse(exprs[1].strip(), set()), env).v if read else 8 * i
                except (X.Unsupported, X.UB) as e:
                    res.add(f"{FILE}|{n}|loop|fold", f"{n}: cannot fold index/shift for kBits={kb}, i={i}: {e}", FILE, 0, n)
                    break
                res.instances += 1
                want_sig = (kb - 8 - 8 * j) if big else 8 * j
                if not (0 <= j < kb // 8) or sig != want_sig:
                    res.add(f"{FILE}|{n}|loop|significance", f"{n} (portable variant), kBits={kb}, i={i}: byte {j} is given significance {sig}; "
                            f"in a {'big' if big else 'little'}-endian field byte {j} carries bit {want_sig}", FILE, 0, n)
                    break
            else:
                continue
            break
    res.analysed = [FILE + " (both #if branches of MemoryAccessor<CharT,1,0,kBits>)"]
    return res


def _split_top(s):
    out, d, cur = [], 0, ""
    for ch in s:
        if ch in "(<[":
            d += 1
        elif ch in ")>]":
            d -= 1
        if ch == "," and d == 0:
            out.append(cur)
            cur = ""
        else:
            cur += ch
    out.append(cur)
    return out


def floattext(repo):
    """R-FLOATTEXT (C06): WriteFloatToTextStream renders with snprintf("%.*g", kPrintfPrecision, (double)n) into a fixed
    char array.  (a) The precision must be at least max_digits10 of the type (9 for float, 17 for double) or the text does
    not read back to the same value; (b) the longest %.{P}g rendering of a double is sign + P digits + '.' + 'e' + sign +
    3 exponent digits = P + 7 characters, so the array needs P + 8 elements (terminating NUL) for the largest P -- one less
    and the last exponent digit of -1.7976931348623157e+308 is cut off silently."""
    res = RuleResult("R-FLOATTEXT")
    FILE = "runtime/cpp/emboss_text_util.h"
    src = _CM.sub("", repo.read(FILE))
    precs = {}
    for m in re.finditer(r"struct\s+FloatConstants\s*<\s*(float|double)\s*>\s*\{(.*?)\n\};", src, re.S):
        pm = re.search(r"kPrintfPrecision\s*\(\s*\)\s*\{\s*return\s+(\d+)\s*;", m.group(2))
        if pm:
            precs[m.group(1)] = int(pm.group(1))
    if set(precs) != {"float", "double"}:
        raise AnalysisError(f"FloatConstants<float/double>::kPrintfPrecision not found ({precs})")
    for t, need in (("float", 9), ("double", 17)):
        res.instances += 1
        if precs[t] < need:
            res.add(f"{FILE}|FloatConstants<{t}>|precision", f"{t} values are printed with {precs[t]} significant digits; {need} "
                    f"(max_digits10) are needed for the text to read back to the same {t}", FILE, 0, "FloatConstants")
    fm = re.search(r"void\s+WriteFloatToTextStream\s*\(", src)
    if not fm:
        raise AnalysisError("WriteFloatToTextStream not found")
    body = src[fm.start():src.index("\ntemplate", fm.start())]
    am = re.search(r"std::array\s*<\s*char\s*,\s*(\d+)\s*>\s*(\w+)\s*;", body)
    if not am or "%.*g" not in body:
        raise AnalysisError("WriteFloatToTextStream: buffer declaration or \"%.*g\" format not recognised")
    n = int(am.group(1))
    need = max(precs.values()) + 8
    res.instances += 1
    if n < need:
        res.add(f"{FILE}|WriteFloatToTextStream|buffer", f"the snprintf buffer has {n} chars; the longest %.{max(precs.values())}g rendering "
                f"(-d.{'d' * (max(precs.values()) - 1)}e-ddd) needs {need - 1} characters plus the terminating NUL = {need}: the output is "
                "silently truncated and reads back as a different value", FILE, 0, "WriteFloatToTextStream")
    res.samples = [f"precisions {precs}, buffer {n} >= {need}"]
    res.analysed = [FILE]
    return res


def storageiface(facts: CppFacts, templates: Templates):
    """R-STORAGEIFACE (C20/C07): the view class generated for every structure -- `struct` and `bits` alike -- forwards to
    its storage (`backing_.<Method>(...)` in the structure_view_class template).  The storage of a struct view is a
    ContiguousBuffer, the storage of a bits view a BitBlock or an OffsetBitBlock, so all three classes must declare every
    method the template calls on `backing_` (`SizeIn${units}` counts as SizeInBytes for the byte storage and SizeInBits
    for the bit storages).  A method missing from the bit storages compiles until someone calls it on a bits view."""
    res = RuleResult("R-STORAGEIFACE")
    sv = templates["structure_view_class"]["text"] if "structure_view_class" in templates else None
    if sv is None:
        raise AnalysisError("template structure_view_class vanished")
    called = sorted(set(re.findall(r"backing_\s*\.\s*(?:template\s+)?([A-Za-z_]\w*)", sv)))
    if len(called) < 3:
        raise AnalysisError(f"structure_view_class: only {called} called on backing_")
    storages = {"ContiguousBuffer": "SizeInBytes", "BitBlock": "SizeInBits", "OffsetBitBlock": "SizeInBits"}
    for cls, sizer in storages.items():
        have = {m.name for m in facts.by_class(cls)}
        if not have:
            raise AnalysisError(f"runtime class {cls} not found")
        for name in called:
            want = sizer if name == "SizeIn" else name
            res.instances += 1
            if want not in have:
                res.add(f"runtime/cpp/emboss_memory_util.h|{cls}|{want}", f"generated structure views call `backing_.{want}(...)`, but {cls} "
                        f"(the storage of {'struct' if cls == 'ContiguousBuffer' else 'bits'} views) has no such method: the call does not "
                        "compile for those views", "runtime/cpp/emboss_memory_util.h", 0, cls)
    res.samples = [f"called on backing_: {called}"]
    res.analysed = [TEMPLATES, "runtime/cpp/emboss_memory_util.h"]
    return res


def wsagree(facts: CppFacts):
    """R-WSAGREE (C06): the text reader has one notion of blank space in two places.  `ReadToken` ends a word at ' ', '\\t',
    '\\n', '\\r' (and '#', punctuation); `DiscardWhitespace` must skip exactly those blank characters before the next
    token, or a blank that ends one token becomes the first character of the next (`"\\tcount"`) and the field name no
    longer matches.  Decided: the character sets compared in the two loops are equal, and contain the four blanks the
    writer can emit (the indent string of multi-line output is user-chosen: tabs are common)."""
    res = RuleResult("R-WSAGREE")
    FILE = "runtime/cpp/emboss_text_util.h"
    fn = {f.name: f for f in facts.functions if f.name in ("DiscardWhitespace", "ReadToken")}
    if set(fn) != {"DiscardWhitespace", "ReadToken"}:
        raise AnalysisError(f"text reader: found only {sorted(fn)}")

    def chars(body, op):
        return set(re.findall(r"\bc\s*" + op + r"\s*'(\\?.)'", _CM.sub("", body)))
    skip = chars(fn["DiscardWhitespace"].body.split("while")[-1], "==")
    stop = chars(fn["ReadToken"].body, "!=") - {"#"}
    res.instances = 2
    BLANKS = {" ", "\\t", "\\n", "\\r"}
    if skip != stop:
        res.add(f"{FILE}|DiscardWhitespace|disagree", f"DiscardWhitespace skips {sorted(skip)} but ReadToken ends a token at {sorted(stop)}: "
                f"{sorted(stop - skip) or sorted(skip - stop)} terminates a token without being skipped before the next one, so "
                "multi-line text indented with it cannot be read back", FILE, fn["DiscardWhitespace"].line, "DiscardWhitespace")
    if not BLANKS <= skip:
        res.add(f"{FILE}|DiscardWhitespace|blanks", f"DiscardWhitespace does not skip {sorted(BLANKS - skip)}", FILE,
                fn["DiscardWhitespace"].line, "DiscardWhitespace")
    res.samples = [f"skip={sorted(skip)} stop={sorted(stop)}"]
    res.analysed = [FILE]
    return res


def digitseen(facts: CppFacts):
    """R-DIGITSEEN (C06): "malformed numbers are rejected rather than wrapped".  DecodeInteger skips the separator `_`
    with `continue`, so a token made of a sign, a base prefix and separators only (`0x_`, `-_`) runs through the loop
    without consuming a digit and would be returned as 0.  Required shape: a boolean that is false before the loop, set
    to true only at the end of an iteration that consumed a digit (after the last `return false` of the loop body, i.e.
    not on the `continue` path), and tested (`if (!flag) return false;`) between the loop and the store to `*result`;
    and the "no leading separator" test compares the position with the first character *after* the sign (an operand
    that depends on `negative`, or a recorded start position), not with 0."""
    res = RuleResult("R-DIGITSEEN")
    TU = "runtime/cpp/emboss_text_util.h"
    rd = [f for f in facts.functions if f.name == "DecodeInteger"]
    if not rd:
        raise AnalysisError("DecodeInteger not found")
    body = _CM.sub("", rd[0].body)
    lm = re.search(r"\bfor\s*\(\s*;\s*offset\s*<\s*text\s*\.\s*size\s*\(\s*\)\s*;[^)]*\)\s*\{", body)
    if not lm:
        raise AnalysisError("DecodeInteger: the digit loop was not recognised")
    depth, i = 1, lm.end()
    while i < len(body) and depth:
        depth += {"{": 1, "}": -1}.get(body[i], 0)
        i += 1
    loop, before, after = body[lm.end():i - 1], body[:lm.start()], body[i:]
    res.instances = 3
    flags = re.findall(r"\bbool\s+(\w+)\s*=\s*false\s*;", before)
    ok_flag = None
    for fl in flags:
        sets = [m_.start() for m_ in re.finditer(r"\b" + fl + r"\s*=\s*true\s*;", loop)]
        if not sets:
            continue
        last_ret = max([m_.start() for m_ in re.finditer(r"return\s+false\s*;", loop)] + [0])
        cont = max([m_.start() for m_ in re.finditer(r"\bcontinue\s*;", loop)] + [0])
        tested = re.search(r"if\s*\(\s*!\s*" + fl + r"\s*\)\s*(?:\{\s*)?return\s+false\s*;", after)
        store = re.search(r"\*\s*result\s*=", after)
        if all(s_ > last_ret and s_ > cont for s_ in sets) and tested and store and tested.start() < store.start():
            ok_flag = fl
    if ok_flag is None:
        res.add(f"{TU}|DecodeInteger|digit-seen", "DecodeInteger can reach `*result = accumulator; return true;` without having consumed a "
                "digit: the separator `_` is skipped with `continue`, so `0x_`, `0b_`, `-_` decode as 0 (UpdateFromText(\"{ a: 0x_ }\") "
                "succeeds and zeroes the field)", TU, rd[0].line, "DecodeInteger")
    um = re.search(r"if\s*\(\s*c\s*==\s*'_'\s*\)\s*\{(.*?)continue\s*;", loop, re.S)
    if not um:
        raise AnalysisError("DecodeInteger: the separator branch was not recognised")
    lead = re.search(r"if\s*\(\s*offset\s*==\s*(.*?)\)\s*\{?\s*return\s+false", um.group(1), re.S)
    if not lead or not re.search(r"negative|first|start|begin", lead.group(1)):
        res.add(f"{TU}|DecodeInteger|leading-separator", "the leading-separator test compares the position with "
                f"`{lead.group(1).strip() if lead else '?'}`: `_12` is rejected but `-_12` (separator right after the sign) decodes as -12",
                TU, rd[0].line, "DecodeInteger")
    res.analysed = [TU]
    return res


def arraystorage(repo):
    """R-ARRAYSTORAGE (C07/C03): GenericArrayView is written against its storage type and is instantiated over all of them:
    ContiguousBuffer for arrays in a `struct`, OffsetBitBlock (over a BitBlock over a byte orderer) for arrays in a
    `bits`.  What emboss_array_view.h does with the storage fixes what every storage class must offer:
      * `BufferType::OffsetStorageType<...>(nullptr)` (the element past the end in at() and the iterators) -> the class
        handed out as OffsetStorageType has a constructor from `::std::nullptr_t`;
      * `buffer_ == other.buffer_` (array and iterator comparison) -> `operator==` on the storage and on everything it
        compares in turn (BitBlock, the three byte orderers);
      * `view_ = array_view_.at(i)` in the iterators -> element views, hence their storage, are copy-assignable: no
        `const` data member (a defaulted `operator=` is then silently deleted).
    A missing piece compiles until someone iterates an array inside a `bits`.  The requirements are read from the array
    view; if it stops using one of the three, the corresponding obligation is dropped."""
    res = RuleResult("R-ARRAYSTORAGE")
    MU, AV = "runtime/cpp/emboss_memory_util.h", "runtime/cpp/emboss_array_view.h"
    av = re.sub(r"//[^\n]*", "", repo.read(AV))
    mu = re.sub(r"//[^\n]*", "", repo.read(MU))
    need_null = bool(re.search(r"OffsetStorageType\s*<[^>]*>\s*\(\s*nullptr\s*\)", av))
    need_eq = bool(re.search(r"buffer_\s*==\s*other\s*\.\s*buffer_", av))
    need_assign = bool(re.search(r"\bview_\s*=\s*array_view_", av))
    if not (need_null or need_eq or need_assign):
        raise AnalysisError("emboss_array_view.h: none of the storage uses (nullptr element, ==, assignment) recognised")

    def block(cls):
        m = re.search(r"\bclass\s+" + cls + r"\s+final\s*\{", mu)
        if not m:
            raise AnalysisError(f"{MU}: class {cls} not found")
        depth, i = 1, m.end()
        while i < len(mu) and depth:
            depth += {"{": 1, "}": -1}.get(mu[i], 0)
            i += 1
        return mu[m.end():i - 1], mu[:m.start()].count("\n") + 1
    storages = ("ContiguousBuffer", "OffsetBitBlock")            # what GetOffsetStorage hands out
    comparable = ("ContiguousBuffer", "OffsetBitBlock", "BitBlock", "LittleEndianByteOrderer", "BigEndianByteOrderer", "NullByteOrderer")
    for cls in comparable:
        body, line = block(cls)
        if need_null and cls in storages:
            res.instances += 1
            if not re.search(r"\b" + cls + r"\s*\(\s*::std::nullptr_t\s*\)", body):
                res.add(f"{MU}|{cls}|nullptr-constructor", f"GenericArrayView builds the element past the end as `OffsetStorageType<...>(nullptr)`, "
                        f"but {cls} has no constructor from nullptr_t: `at()`, `begin()`/`end()` do not compile for arrays "
                        f"{'inside a `bits`' if cls == 'OffsetBitBlock' else 'in a struct'}", MU, line, cls)
        if need_eq:
            res.instances += 1
            if not re.search(r"\boperator\s*==\s*\(", body):
                res.add(f"{MU}|{cls}|operator==", f"array views and their iterators compare `buffer_ == other.buffer_`; {cls} has no operator==, so "
                        "iterating (range-based for) over an array inside a `bits` does not compile", MU, line, cls)
        if need_assign:
            res.instances += 1
            cm = re.search(r"^\s*const\s+[\w:<>/\*\s]+?\s+(\w+_)\s*;", body, re.M)
            if cm:
                res.add(f"{MU}|{cls}|const-member", f"{cls} has the const data member `{cm.group(1)}`: its (defaulted) copy assignment is deleted, and "
                        "with it that of every view over it; array iterators assign element views (`view_ = array_view_.at(i)`)",
                        MU, line, cls)
    res.samples = [f"array view needs: nullptr element={need_null}, ==={need_eq}, assignment={need_assign}"]
    res.analysed = [MU, AV]
    return res


def cxx11constexpr(repo):
    """R-CXX11CONSTEXPR (C07): the guide promises C++11, where the body of a constexpr function is a single return
    statement (plus static_assert / using / typedef; constructors have an empty body).  Every constexpr function of the
    runtime headers and of the code templates is checked for that shape: a second statement (`static_cast<void>(x);
    return true;`) is a hard error under `clang++ -std=c++11 -pedantic-errors` for every translation unit that includes
    a generated header, and makes `static_assert(View::CouldWriteValue(...))` ill-formed under g++ -std=c++11."""
    import os
    res = RuleResult("R-CXX11CONSTEXPR")
    files = sorted(f"runtime/cpp/{f}" for f in os.listdir(os.path.join(repo.root, "runtime/cpp")) if f.endswith(".h")) + [TEMPLATES]
    for rel in files:
        text = re.sub(r"//[^\n]*", "", repo.read(rel))
        text = re.sub(r"/\*.*?\*/", " ", text, flags=re.S)
        for mm in re.finditer(r"\bconstexpr\b[^;{}()]*?([A-Za-z_~$][\w${}]*|operator\s*\S+?)\s*\(", text):
            # find the end of the parameter list
            i = mm.end() - 1
            depth = 0
            while i < len(text):
                depth += text[i] == "("
                depth -= text[i] == ")"
                if depth == 0:
                    break
                i += 1
            rest = text[i + 1:]
            hm = re.match(r"\s*(?:const\b\s*)?(?:noexcept\b\s*)?(?:->[^{;]*?)?(:[^{;]*?)?\{", rest, re.S)
            if not hm:
                continue  # declaration only, or a variable
            is_ctor = hm.group(1) is not None
            j = i + 1 + hm.end()
            depth = 1
            k = j
            while k < len(text) and depth:
                depth += text[k] == "{"
                depth -= text[k] == "}"
                k += 1
            body = text[j:k - 1]
            # `#if A  return x;  #else  return y;  #endif`: each preprocessor branch is a body of its own
            branches = [body]
            if re.search(r"^\s*#", body, re.M):
                inner = re.sub(r"^\s*#\s*(?:if|ifdef|ifndef|endif)\b[^\n]*$", "", body, flags=re.M)
                branches = re.split(r"^\s*#\s*(?:else|elif)\b[^\n]*$", inner, flags=re.M)

            def statements_of(b):
                out, cur, d = [], "", 0
                for ch in b:
                    d += ch in "({["
                    d -= ch in ")}]"
                    if ch == ";" and d == 0:
                        out.append(cur.strip())
                        cur = ""
                    else:
                        cur += ch
                if cur.strip():
                    out.append(cur.strip())
                return out
            per_branch = [statements_of(b) for b in branches]
            stmts = max(per_branch, key=lambda st_: len([x for x in st_ if x and not re.match(r"(static_assert|using|typedef)\b", x)]))
            res.instances += 1
            line = text[:mm.start()].count("\n") + 1
            real = [s_ for s_ in stmts if s_ and not re.match(r"(static_assert|using|typedef)\b", s_)]
            name = mm.group(1)
            if is_ctor or (not real and not stmts):
                if real:
                    res.add(f"{rel}|{name}|ctor-body", f"constexpr constructor `{name}` has a non-empty body (C++11 requires it empty)", rel, line, name)
                continue
            if len(real) != 1 or not real[0].startswith("return"):
                res.add(f"{rel}|{name}|{len(real)}-statements", f"constexpr function `{name}` has {len(real)} statements (`{'; '.join(real)[:80]}`): C++11 allows "
                        "exactly one return statement, so every translation unit including a generated header fails under "
                        "`-std=c++11 -pedantic-errors` (clang) and the function cannot be used in a constant expression (g++)", rel, line, name)
    if res.instances < 40:
        raise AnalysisError(f"only {res.instances} constexpr function definitions recognised")
    res.analysed = files
    return res


# ---- R-MAXARGS ------------------------------------------------------------------------------------------
def maxargs(repo):
    """R-MAXARGS (C05/C01): every overload of MaximumOperation::Do (hand-written and generated) returns the maximum of
    *all* its arguments: each parameter is a candidate exactly once, a two-way selection `a < b ? x : y` selects among
    the two values it compared (x is b, y is a), and nested Do(...) calls partition the parameters.  The compiler's bounds
    for $max (and every $size_in_bytes, which is a $max over field ends) assume exactly that."""
    res = RuleResult("R-MAXARGS")
    files = ["runtime/cpp/emboss_arithmetic.h", "runtime/cpp/emboss_arithmetic_maximum_operation_generated.h"]
    text = repo.read(files[0])
    a = text.find("struct MaximumOperation")
    if a < 0:
        raise AnalysisError("emboss_arithmetic.h: struct MaximumOperation vanished")
    b = text.find("\n};", a)
    bodies = [(files[0], text[a:b], text[:a].count("\n"))]
    if '#include "emboss_arithmetic_maximum_operation_generated.h"' in text[a:b]:
        bodies.append((files[1], repo.read(files[1]), 0))
    rx = re.compile(r"constexpr\s+T\s+Do\(([^)]*)\)\s*\{((?:[^{}]|\{[^{}]*\})*)\}")
    arities = set()
    for fn, body, base in bodies:
        clean = re.sub(r"//[^\n]*", lambda m_: " " * len(m_.group(0)), body)
        for mt in rx.finditer(clean):
            params = [p.split()[-1] for p in mt.group(1).split(",") if p.strip()]
            line = base + clean[:mt.start()].count("\n") + 1
            rm = re.search(r"return\s+([^;]*);", mt.group(2))
            res.instances += 1
            arities.add(len(params))
            key = f"{fn}|MaximumOperation::Do/{len(params)}"
            if not rm or len(re.findall(r"\breturn\b", mt.group(2))) != 1:
                res.add(key + "|shape", "overload is not a single `return <expr>;`", fn, line, f"Do/{len(params)}")
                continue
            expr = rm.group(1)
            bad = False
            for t in re.finditer(r"([\w.]+)\s*(<|>|<=|>=)\s*([\w.]+)\s*\?\s*([\w.]+)\s*:\s*([\w.]+)", expr):
                l, op, r, x, y = t.groups()
                want = (r, l) if op in ("<", "<=") else (l, r)
                if (x, y) != want:
                    res.add(key + f"|select|{t.group(0)[:30]}", f"`{t.group(0)}` does not select the larger of the two values it compares "
                            f"(expected `{l} {op} {r} ? {want[0]} : {want[1]}`): the result can be smaller than an argument, below the "
                            "lower bound the compiler inferred for $max / $size_in_bytes", fn, line, f"Do/{len(params)}")
                    bad = True
            if "?" in re.sub(r"([\w.]+)\s*(<|>|<=|>=)\s*([\w.]+)\s*\?\s*([\w.]+)\s*:\s*([\w.]+)", "", expr):
                res.add(key + "|shape", f"unrecognised selection in `{expr[:60]}`", fn, line, f"Do/{len(params)}")
                continue
            reduced = re.sub(r"([\w.]+)\s*(<|>|<=|>=)\s*([\w.]+)\s*\?\s*([\w.]+)\s*:\s*([\w.]+)", r"\1, \3", expr)
            used = Counter(w for w in re.findall(r"[A-Za-z_]\w*", reduced) if w != "Do")
            if not bad and used != Counter(params):
                missing = sorted(set(params) - set(used))
                extra = sorted(w for w, c in used.items() if c > 1 or w not in params)
                res.add(key + "|candidates", f"`{expr[:70]}`: parameters {missing or '-'} are never candidates, {extra or '-'} "
                        "are used more than once or are not parameters: the result is not the maximum of all arguments", fn, line,
                        f"Do/{len(params)}")
    if not {1, 2, 3, 4, 5} <= arities:
        raise AnalysisError(f"MaximumOperation::Do overloads found for arities {sorted(arities)[:8]} only")
    res.samples = [f"{res.instances} overloads, arities {min(arities)}..{max(arities)}"]
    res.analysed = files
    return res


# ---- R-PARTIALGUARD -------------------------------------------------------------------------------------
def partialguard(repo, templates):
    """R-PARTIALGUARD (C04/C06): with allow_partial_output the text writers skip what cannot be read instead of reading
    it.  The guard of every writer -- struct fields (two templates) and array elements (two loops in
    emboss_text_util.h) -- has one form: `!opts.allow_partial_output() || X.IsAggregate() || X.Ok()`.  `Ok()` is the
    precondition that X.Read() CHECKs; a weaker last disjunct (`IsComplete()`: the bytes are there, but a BCD nibble
    may be > 9, an enum out of range, a [requires] violated) sends such a value into Read() and aborts."""
    res = RuleResult("R-PARTIALGUARD")
    srcs = [("runtime/cpp/emboss_text_util.h", repo.read("runtime/cpp/emboss_text_util.h"), 0)]
    for tn, t in templates.templates.items():
        if "allow_partial_output()" in t["text"]:
            srcs.append((f"{TEMPLATES}:{tn}", t["text"], t["line"]))
    rx = re.compile(r"if\s*\(\s*!\s*[\w.>()-]*?allow_partial_output\(\)\s*\|\|((?:\$\{\w+\}|[^(){}]|\((?:[^()]|\([^()]*\))*\))*)\)\s*\{")
    for fn, text, base in srcs:
        clean = re.sub(r"//[^\n]*", lambda m_: " " * len(m_.group(0)), text)
        for mt in rx.finditer(clean):
            res.instances += 1
            line = base + clean[:mt.start()].count("\n") + 1
            disj = [re.sub(r"\s+", "", d) for d in mt.group(1).split("||")]
            agg = [d for d in disj if d.endswith(".IsAggregate()")]
            key = f"{fn}|{disj[0][:40] if disj else ''}"
            if len(disj) != 2 or len(agg) != 1:
                res.add(key + "|shape", f"partial-output guard `{' || '.join(disj)[:90]}` is not `!allow_partial_output() || X.IsAggregate() || X.Ok()`",
                        fn.split(":")[0], line)
                continue
            x = agg[0][: -len(".IsAggregate()")]
            other = [d for d in disj if d is not agg[0]][0]
            if other != x + ".Ok()":
                res.add(key + "|readable", f"partial output writes `{x}` when `{other}`; the value is then Read(), whose precondition is "
                        f"`{x}.Ok()`: a complete but invalid value (BCD nibble > 9, [requires] violated) aborts in EMBOSS_CHECK instead "
                        "of being skipped as UNREADABLE", fn.split(":")[0], line)
            elif len(res.samples) < 4:
                res.samples.append(f"{fn}:{line}: {x}.Ok()")
    res.analysed = [s_[0] for s_ in srcs]
    return res


# ---- R-SHIFTOPERAND -------------------------------------------------------------------------------------
_NARROW = re.compile(r"^(?:const\s+)?(?:(?:::)?std::)?(?:unsigned(?:\s+(?:int|char|short))?|signed(?:\s+(?:int|char|short))?|int|short|char|bool|"
                     r"u?int(?:8|16|32)_t|u?int_(?:least|fast)(?:8|16|32)_t)$")


def shiftoperand(cpp):
    """R-SHIFTOPERAND (C03/C02): the views are templates over the field width, up to 64 bits.  Where the amount of a left
    shift is computed (a loop variable, kBits - 1, offset_), the value shifted must have the view's own (dependent)
    value type: an operand declared or cast to a fixed type of at most 32 bits (`unsigned`, `int`, `uint32_t`...) is
    shifted in that type, and for a wide field the high bits are lost or the shift is undefined -- the value written
    is not the value asked for although every check passed."""
    res = RuleResult("R-SHIFTOPERAND")
    units = list(cpp.methods) + list(cpp.functions)
    seen = set()
    for mth in units:
        body = getattr(mth, "body", None)
        if not body or "<<" not in body:
            continue
        key0 = (mth.file, mth.cls, mth.name, mth.line)
        if key0 in seen:
            continue
        seen.add(key0)
        toks = tokens(body)
        decl = {}
        for ptype, pname in (mth.params or []):
            decl[pname] = re.sub(r"\s+", " ", ptype.replace("&", "").strip())
        for dm in re.finditer(r"(?:^|[;{(])\s*((?:const\s+)?(?:typename\s+)?[\w:]+(?:\s*<[^;=]*?>)?(?:::\w+)*(?:\s+(?:int|char|short|long))?)\s+(\w+)\s*(?:=|;|\{)",
                              _COMMENT.sub(" ", body)):
            if dm.group(1).split()[-1] not in ("return", "else", "typename", "const", "case", "goto", "new", "delete", "throw"):
                decl.setdefault(dm.group(2), re.sub(r"\s+", " ", dm.group(1)))
        for i, t in enumerate(toks):
            if t != "<<" or i == 0 or i + 1 >= len(toks):
                continue
            # amount: literal -> not this rule
            j = i + 1
            amount = []
            depth = 0
            while j < len(toks):
                if toks[j] in "([":
                    depth += 1
                elif toks[j] in ")]":
                    if depth == 0:
                        break
                    depth -= 1
                elif depth == 0 and toks[j] in (";", ",", "|", "&", "^", "?", ":", "<<", ">>", "==", "<", ">", "||", "&&", "-", "+") and amount:
                    break
                amount.append(toks[j])
                j += 1
            if not any(re.match(r"[A-Za-z_]", a) and a not in ("sizeof",) for a in amount):
                continue
            # left operand
            k = i - 1
            ltype, shown = None, None
            if toks[k] == ")":
                d, a = 0, k
                while a >= 0:
                    if toks[a] == ")":
                        d += 1
                    elif toks[a] == "(":
                        d -= 1
                        if d == 0:
                            break
                    a -= 1
                inner = toks[a + 1:k]
                if a >= 1 and toks[a - 1] == ">":
                    d2, b = 0, a - 1
                    while b >= 0:
                        if toks[b] in (">", ">>"):
                            d2 += 1 if toks[b] == ">" else 2
                        elif toks[b] == "<":
                            d2 -= 1
                            if d2 == 0:
                                break
                        b -= 1
                    if b >= 1 and toks[b - 1] == "static_cast":
                        ltype = " ".join(x for x in toks[b + 1:a - 1] if x != "typename")
                        ltype = ltype.replace(" :: ", "::").replace(":: ", "::")
                        shown = f"static_cast<{ltype}>(...)"
                elif a >= 1 and re.match(r"[A-Za-z_]", toks[a - 1]):
                    ltype = None  # a call: unknown
                else:
                    ids = [x for x in inner if re.match(r"[A-Za-z_]", x) and x in decl]
                    if ids:
                        ltype, shown = decl[ids[0]], f"({' '.join(inner)})"
            elif re.match(r"[A-Za-z_]\w*$", toks[k]) and (k == 0 or toks[k - 1] not in (".", "->", "::")):
                if toks[k] in decl:
                    ltype, shown = decl[toks[k]], toks[k]
            if toks[k].startswith('"') or (re.match(r"[A-Za-z_]", toks[k]) and "stream" in toks[k].lower()):
                continue
            res.instances += 1
            if ltype is not None and _NARROW.match(ltype.strip()):
                res.add(f"{mth.file}|{mth.cls}::{mth.name}|{shown[:30]}", f"`{shown} << {' '.join(amount)[:40]}`: the shifted value has the fixed type "
                        f"`{ltype}` but the amount is computed from the field width (up to 64): bits above that type's width are lost "
                        "(or the shift is undefined), so a wide field is written with other bits than the value asked for",
                        mth.file, mth.line, f"{mth.cls}::{mth.name}")
            elif len(res.samples) < 4 and ltype:
                res.samples.append(f"{mth.cls}::{mth.name}: {shown} : {ltype}")
    return res


# ---- R-SUBSTRSPAN ---------------------------------------------------------------------------------------
def _lin(expr, var):
    """linear form {sym: coeff, 1: const} of `a + b - 3` over identifiers and `<var>.size()`."""
    e = re.sub(r"\s+", "", expr).replace(f"{var}.size()", "SIZE")
    out = {}
    for sign, term in re.findall(r"([+-]?)([A-Za-z_]\w*|\d+)", e):
        k = -1 if sign == "-" else 1
        if term.isdigit():
            out[1] = out.get(1, 0) + k * int(term)
        else:
            out[term] = out.get(term, 0) + k
    if re.sub(r"[+-]?([A-Za-z_]\w*|\d+)", "", e):
        return None
    return {a: b for a, b in out.items() if b}


def substrspan(repo):
    """R-SUBSTRSPAN (C06): a substring taken between two delimiters that the enclosing condition has just tested is
    exactly the text between them.  For `if (t[P] == '(' && t[Q] == ')') ... t.substr(A, B)`: A == P + 1 and A + B == Q,
    as linear forms over the index variables and t.size().  (The NaN payload of a float token: an off-by-sign in B only
    shows for tokens with a leading sign, i.e. for NaNs with the sign bit set.)"""
    res = RuleResult("R-SUBSTRSPAN")
    fn = "runtime/cpp/emboss_text_util.h"
    text = _COMMENT.sub(lambda m_: " " * len(m_.group(0)), repo.read(fn))
    for mt in re.finditer(r"(\w+)\.substr\(\s*([^,()]*(?:\([^()]*\)[^,()]*)*),\s*([^()]*(?:\([^()]*\)[^()]*)*)\)", text):
        var, a_src, b_src = mt.group(1), mt.group(2), mt.group(3)
        line = text[:mt.start()].count("\n") + 1
        res.instances += 1
        # nearest enclosing `if (` that tests two delimiter characters of the same variable
        head = text[:mt.start()]
        conds = list(re.finditer(r"if\s*\(([^{};]*)\)\s*\{", head))
        delim = None
        for c in reversed(conds[-6:]):
            tests = re.findall(re.escape(var) + r"\[([^\]]+)\]\s*==\s*'(.)'", c.group(1))
            if len(tests) == 2:
                delim = tests
                break
        key = f"{fn}|{var}.substr|{line and ''}"
        if delim is None:
            res.add(f"{fn}|{var}.substr|no-delimiters", f"`{mt.group(0)[:60]}`: no enclosing test of two delimiter characters found", fn, line)
            continue
        (p_src, _), (q_src, _) = delim
        P, Q, A, B = _lin(p_src, var), _lin(q_src, var), _lin(a_src, var), _lin(b_src, var)
        if None in (P, Q, A, B):
            raise AnalysisError(f"{fn}:{line}: substr bounds are not linear: {a_src!r}, {b_src!r}, {p_src!r}, {q_src!r}")
        def add(x, y, k=1):
            o = dict(x)
            for kk, v in y.items():
                o[kk] = o.get(kk, 0) + k * v
            return {kk: v for kk, v in o.items() if v}
        if add(A, add(P, {1: 1}), -1):
            res.add(f"{fn}|{var}.substr|start", f"substring starts at `{a_src.strip()}`, the opening delimiter is at `{p_src.strip()}`: "
                    "the start must be one past it", fn, line)
        if add(add(A, B), Q, -1):
            res.add(f"{fn}|{var}.substr|end", f"substring `{var}.substr({a_src.strip()}, {b_src.strip()})` ends at "
                    f"`{a_src.strip()} + {b_src.strip()}`, the closing delimiter is at `{q_src.strip()}`: the text handed on includes "
                    "the delimiter or stops short for some tokens (here: tokens with a leading sign, e.g. `-NaN(0x...)`, which the "
                    "writer produces for NaNs with the sign bit set)", fn, line)
        elif len(res.samples) < 2:
            res.samples.append(f"{fn}:{line}: [{p_src.strip()}]+1 .. [{q_src.strip()}]")
    res.analysed = [fn]
    return res


# ---- R-NARROWSTORE --------------------------------------------------------------------------------------
def narrowstore(repo):
    """R-NARROWSTORE (C04): a constructor of the runtime that keeps a `size_t` parameter in a narrower member
    (`offset_{static_cast<uint8_t>(offset)}`) loses the high bits of an out-of-range argument -- the caller's own range
    test (`offset + size <= size_`, computed in size_t) can wrap.  Such a constructor has an ok flag, and its initialiser
    must contain `param == member_` for every narrowed member: that comparison is the only thing that rejects a
    truncated offset before a checked Read() shifts by it."""
    res = RuleResult("R-NARROWSTORE")
    files = ["runtime/cpp/emboss_memory_util.h", "runtime/cpp/emboss_array_view.h", "runtime/cpp/emboss_view_parameters.h"]
    rx_init = re.compile(r"(\w+_)\s*[({]\s*static_cast<\s*(?:/\*\*/)?\s*(?:::)?(?:std::)?(u?int(?:8|16|32)_t)\s*>\(\s*(\w+)\s*\)\s*[)}]")
    for fn in files:
        if not repo.exists(fn):
            continue
        text = _COMMENT.sub(lambda m_: " " * len(m_.group(0)) if m_.group(0) != "/**/" else "/**/", repo.read(fn))
        # constructor initialiser lists: from ')' ':' up to the '{' that opens the (usually empty) body
        for ctor in re.finditer(r"\)\s*:\s*((?:\w+_\s*[({][^;]*?[)}]\s*,?\s*)+)\{\s*\}", text, re.S):
            inits = ctor.group(1)
            narrowed = rx_init.findall(inits)
            if not narrowed:
                continue
            line = text[:ctor.start()].count("\n") + 1
            okm = re.search(r"(ok_)\s*[({](.*?)[)}]\s*,?\s*$", inits.strip(), re.S)
            for member, ty, param in narrowed:
                res.instances += 1
                key = f"{fn}|{member}|{param}"
                if not okm:
                    res.add(key + "|no-ok", f"`{member}` keeps `{param}` as {ty} but the constructor has no ok flag to record a truncation", fn, line)
                    continue
                okexpr = re.sub(r"\s+", "", okm.group(2))
                if f"{param}=={member}" not in okexpr and f"{member}=={param}" not in okexpr:
                    res.add(key + "|unchecked", f"`{member}{{static_cast<{ty}>({param})}}` truncates a size_t, and the ok flag "
                            f"(`{okm.group(2).strip()[:60]}`) does not contain `{param} == {member}`: an index whose offset wraps "
                            "past the caller's size_t range test yields a block that is Ok() with a truncated offset, and the next "
                            "checked Read() shifts by it (undefined behaviour)", fn, line)
                elif len(res.samples) < 3:
                    res.samples.append(f"{fn}:{line}: {param} == {member} in ok flag")
    res.analysed = files
    return res
