"""Back-end (header_generator + templates) structural rules:
R-TEMPLATE, R-DEPORDER, R-EQLOCKSTEP, R-CASEDEDUP, R-RENDERINT, R-DOLLAR, R-ENUMCASE, R-ARGROLE(py),
R-ACCESSOR (template text), R-NOPRECEDENCE, R-ABBREV."""
from __future__ import annotations

import ast
import re

from ..pyfacts import Func, Repo, call_name, dotted_name, walk_no_nested_funcs
from ..report import AnalysisError, RuleResult
from ..templates import TEMPLATES, Templates

HG = "compiler/back_end/cpp/header_generator.py"


def _template_candidates(m, f, node):
    """Template names an expression may denote: _TEMPLATES.x, or a local assigned from those."""
    if isinstance(node, ast.Attribute) and isinstance(node.value, ast.Name) and node.value.id == "_TEMPLATES":
        return {node.attr}
    if isinstance(node, ast.Name) and f is not None:
        out = set()
        for n in walk_no_nested_funcs(f.node):
            if isinstance(n, ast.Assign) and any(isinstance(t, ast.Name) and t.id == node.id for t in n.targets):
                c = _template_candidates(m, f, n.value)
                if c is None:
                    return None
                out |= c
        return out or None
    if isinstance(node, ast.IfExp):
        a, b = _template_candidates(m, f, node.body), _template_candidates(m, f, node.orelse)
        if a is None or b is None:
            return None
        return a | b
    return None


def template_rule(repo):
    res = RuleResult("R-TEMPLATE")
    tp = Templates(repo)
    m = repo.mod(HG)
    used = set()
    for n in ast.walk(m.tree):
        if isinstance(n, ast.Attribute) and isinstance(n.value, ast.Name) and n.value.id == "_TEMPLATES":
            used.add(n.attr)
            res.instances += 1
            if n.attr not in tp:
                f = m.enclosing_func(n)
                res.add(f"{HG}|{f.qualname if f else ''}|_TEMPLATES.{n.attr}", f"_TEMPLATES.{n.attr} does not exist in "
                        "generated_code_templates (AttributeError at generation time)", HG, n.lineno, f.qualname if f else "")
    for name, t in tp.templates.items():
        if t["invalid"]:
            res.add(f"{TEMPLATES}|{name}|invalid-placeholder", f"template {name} contains a '$' that is not a valid "
                    "placeholder (string.Template raises ValueError)", TEMPLATES, t["line"])
    nsites = 0
    for n in ast.walk(m.tree):
        if isinstance(n, ast.Call) and (call_name(n) or "").endswith("format_template") and n.args:
            f = m.enclosing_func(n)
            cands = _template_candidates(m, f, n.args[0])
            nsites += 1
            res.instances += 1
            if cands is None:
                res.add(f"{HG}|{f.qualname if f else ''}|opaque-template", "format_template is called with a template "
                        "expression that cannot be resolved statically", HG, n.lineno, f.qualname if f else "")
                continue
            if any(k.arg is None for k in n.keywords):
                res.notes.append(f"{HG}:{n.lineno}: **kwargs at a format_template site (not checked)")
                continue
            have = {k.arg for k in n.keywords}
            for c in sorted(cands):
                if c not in tp:
                    continue
                need = tp[c]["placeholders"]
                for ph in sorted(need - have):
                    res.add(f"{HG}|{f.qualname if f else ''}|{c}|{ph}",
                            f"template {c} needs ${{{ph}}} but the format_template call in {f.qualname if f else '?'} does "
                            "not supply it (KeyError at generation time)", HG, n.lineno, f.qualname if f else "")
                extra = have - need
                if extra and len(cands) == 1:
                    res.notes.append(f"{HG}:{n.lineno}: {c} is given unused keyword(s) {sorted(extra)}")
            if len(res.samples) < 2:
                res.samples.append({"site": f"{HG}:{n.lineno}", "templates": sorted(cands), "keywords": sorted(have)})
    unused = sorted(set(tp.names()) - used)
    if unused:
        res.notes.append(f"templates never referenced: {unused}")
    res.detail = {"templates": len(tp.templates), "sites": nsites}
    res.analysed = [HG, TEMPLATES]
    return res


# ---- structure definition generator --------------------------------------------------------------
def _find_struct_generator(repo):
    m = repo.mod(HG)
    for f in m.top_funcs():
        for n in walk_no_nested_funcs(f.node):
            if isinstance(n, ast.Call) and (call_name(n) or "").endswith("format_template"):
                kws = {k.arg for k in n.keywords}
                if {"equals_method_body", "unchecked_equals_method_body"} <= kws:
                    return m, f, n
    raise AnalysisError("header_generator: the structure_view_class format_template site was not found")


def _join_arg_name(node):
    """X for '<sep>'.join(X)."""
    if isinstance(node, ast.Call) and isinstance(node.func, ast.Attribute) and node.func.attr == "join" and node.args \
            and isinstance(node.args[0], ast.Name):
        return node.args[0].id
    return None


def _enclosing(m, node, stop):
    out = []
    p = m.parent(node)
    while p is not None and p is not stop:
        out.append(p)
        p = m.parent(p)
    return out


def _appends(f, listname):
    out = []
    for n in walk_no_nested_funcs(f.node):
        if isinstance(n, ast.Call) and isinstance(n.func, ast.Attribute) and n.func.attr in ("append", "extend", "insert") \
                and isinstance(n.func.value, ast.Name) and n.func.value.id == listname:
            out.append(n)
    return out


def deporder(repo, clauses=("text", "ok", "decl")):
    res = RuleResult("R-DEPORDER")
    m, f, cls_site = _find_struct_generator(repo)
    # the struct_text_stream site
    ts = None
    for n in walk_no_nested_funcs(f.node):
        if isinstance(n, ast.Call) and (call_name(n) or "").endswith("format_template"):
            kws = {k.arg: k.value for k in n.keywords}
            if {"decode_fields", "write_fields"} <= set(kws):
                ts = kws
    if ts is None:
        raise AnalysisError("header_generator: struct_text_stream site not found")
    for role in ("decode_fields", "write_fields"):
        lst = _join_arg_name(ts[role])
        res.instances += 1
        if lst is None:
            res.add(f"{HG}|{f.qualname}|{role}", f"{role}= is not built by joining a list", HG, f.line, f.qualname)
            continue
        apps = _appends(f, lst)
        if not apps:
            res.add(f"{HG}|{f.qualname}|{role}|empty", f"nothing is appended to {lst}", HG, f.line, f.qualname)
        for a in apps:
            loops = [p for p in _enclosing(m, a, f.node) if isinstance(p, ast.For)]
            ok = any(ast.unparse(l.iter).endswith("fields_in_dependency_order") for l in loops)
            if a.func.attr != "append" or not ok:
                res.add(f"{HG}|{f.qualname}|{role}|order",
                        f"{lst} (text-format {role}) receives an element outside a loop over "
                        "fields_in_dependency_order: dynamic fields could be written/decoded before the fields that "
                        "locate them", HG, a.lineno, f.qualname)
        # no later reordering
        for n in walk_no_nested_funcs(f.node):
            if isinstance(n, ast.Call) and isinstance(n.func, ast.Attribute) and n.func.attr in ("sort", "reverse") \
                    and isinstance(n.func.value, ast.Name) and n.func.value.id == lst:
                res.add(f"{HG}|{f.qualname}|{role}|reorder", f"{lst} is reordered after being built", HG, n.lineno, f.qualname)
    # accessor declarations: an alias accessor is declared with decltype(this-><target>()), which needs the target's
    # declaration earlier in the class body
    ckws = {k.arg: k.value for k in cls_site.keywords}
    role = "field_method_declarations"
    if role in ckws:
        lst = _join_arg_name(ckws[role])
        res.instances += 1
        if lst is None:
            res.add(f"{HG}|{f.qualname}|{role}", f"{role}= is not built by joining a list", HG, f.line, f.qualname)
        else:
            apps = _appends(f, lst)
            if not apps:
                res.add(f"{HG}|{f.qualname}|{role}|empty", f"nothing is appended to {lst}", HG, f.line, f.qualname)
            for a in apps:
                loops = [p for p in _enclosing(m, a, f.node) if isinstance(p, ast.For)]
                ok = any(ast.unparse(l.iter).endswith(("fields_in_dependency_order", "runtime_parameter")) for l in loops)
                if a.func.attr != "append" or not ok:
                    res.add(f"{HG}|{f.qualname}|{role}|order", f"{lst} (accessor declarations) receives elements outside a loop over "
                            "fields_in_dependency_order: an alias accessor `auto a() -> decltype(this->b())` can be declared before "
                            "`b()`, and the header does not compile", HG, a.lineno, f.qualname)
    # Ok() field checks
    res.instances += 1
    kws = {k.arg: k.value for k in cls_site.keywords}
    ok_src = kws.get("field_ok_checks")
    found = False
    if isinstance(ok_src, ast.Name):
        for n in walk_no_nested_funcs(f.node):
            if isinstance(n, ast.Assign) and any(isinstance(t, ast.Name) and t.id == ok_src.id for t in n.targets) \
                    and isinstance(n.value, ast.Call) and n.value.args:
                a0 = n.value.args[0]
                if isinstance(a0, ast.ListComp) and ast.unparse(a0.generators[0].iter).endswith("fields_in_dependency_order") \
                        and not a0.generators[0].ifs:
                    found = True
    if not found:
        res.add(f"{HG}|{f.qualname}|field_ok_checks", "the Ok() field checks are not generated from the complete list of "
                "fields in dependency order", HG, f.line, f.qualname)
    res.samples = [f"{f.qualname}: decode_fields/write_fields/field_ok_checks built in fields_in_dependency_order loops"]
    res.analysed = [HG]
    if "decl" not in clauses:
        res.findings = [x for x in res.findings if "field_method_declarations" not in x.key]
    if "text" not in clauses:
        res.findings = [x for x in res.findings if "_fields" not in x.key.rsplit("|", 2)[-2] and not x.key.endswith(("decode_fields", "write_fields"))]
    if "ok" not in clauses:
        res.findings = [x for x in res.findings if not x.key.endswith("field_ok_checks")]
    return res


def eqlockstep(repo):
    res = RuleResult("R-EQLOCKSTEP")
    m, f, site = _find_struct_generator(repo)
    kws = {k.arg: k.value for k in site.keywords}
    e = _join_arg_name(kws["equals_method_body"])
    u = _join_arg_name(kws["unchecked_equals_method_body"])
    if not e or not u:
        raise AnalysisError("equals bodies are not joins of lists")
    ea, ua = _appends(f, e), _appends(f, u)
    res.instances = len(ea) + len(ua)

    def field_kw(call):
        inner = call.args[0] if call.args else None
        if isinstance(inner, ast.Call):
            for k in inner.keywords:
                if k.arg == "field":
                    return ast.unparse(k.value)
            return ast.unparse(inner)
        return ast.unparse(inner) if inner is not None else ""

    def tmpl(call):
        inner = call.args[0] if call.args else None
        if isinstance(inner, ast.Call) and inner.args:
            return ast.unparse(inner.args[0])
        return ""

    def block(call):
        return id(m.parent(m.parent(call)))  # the statement list holder of the Expr statement

    if len(ea) != len(ua):
        res.add(f"{HG}|{f.qualname}|count", f"Equals gets {len(ea)} clause sites, UncheckedEquals {len(ua)}", HG, f.line, f.qualname)
    for a in ea:
        partner = [b for b in ua if block(b) == block(a) and field_kw(b) == field_kw(a)]
        if not partner:
            res.add(f"{HG}|{f.qualname}|lockstep|{field_kw(a)}", f"Equals clause for `{field_kw(a)}` has no UncheckedEquals "
                    "clause in the same block with the same field", HG, a.lineno, f.qualname)
        if "unchecked" in tmpl(a):
            res.add(f"{HG}|{f.qualname}|template|{field_kw(a)}", "Equals clause uses the unchecked template", HG, a.lineno, f.qualname)
    for b in ua:
        if "unchecked" not in tmpl(b):
            res.add(f"{HG}|{f.qualname}|template-u|{field_kw(b)}", "UncheckedEquals clause does not use the unchecked template",
                    HG, b.lineno, f.qualname)
    # filters: only `not field_is_virtual(field)`; parameters unconditional inside the parameter loop
    seen_field_loop = seen_param_loop = False
    for a in ea:
        encl = _enclosing(m, a, f.node)
        conds = [p for p in encl if isinstance(p, ast.If)]
        loops = [p for p in encl if isinstance(p, ast.For)]
        it = ast.unparse(loops[0].iter) if loops else ""
        if it.endswith("fields_in_dependency_order") or it.endswith("structure.field"):
            seen_field_loop = True
            texts = [ast.unparse(c.test) for c in conds]
            if not (len(texts) == 1 and re.fullmatch(r"not ir_util\.field_is_virtual\(\w+\)", texts[0])):
                res.add(f"{HG}|{f.qualname}|filter", f"physical-field equality clauses are filtered by {texts}; the only "
                        "admissible filter is `not field_is_virtual(field)`", HG, a.lineno, f.qualname)
            else:
                # the append must be in the true branch
                c = conds[0]
                if not any(a in list(ast.walk(st)) for st in c.body):
                    res.add(f"{HG}|{f.qualname}|filter-branch", "equality clause is emitted in the virtual-field branch",
                            HG, a.lineno, f.qualname)
        elif it.endswith("runtime_parameter"):
            seen_param_loop = True
            if conds:
                res.add(f"{HG}|{f.qualname}|param-filter", "parameter equality clauses are conditional", HG, a.lineno, f.qualname)
        else:
            res.add(f"{HG}|{f.qualname}|stray", f"equality clause appended outside the field/parameter loops", HG, a.lineno, f.qualname)
    if not seen_field_loop:
        res.add(f"{HG}|{f.qualname}|no-fields", "no equality clauses are generated for physical fields", HG, f.line, f.qualname)
    if not seen_param_loop:
        res.add(f"{HG}|{f.qualname}|no-params", "no equality clauses are generated for runtime parameters", HG, f.line, f.qualname)
    res.samples = [{"equals_list": e, "unchecked_list": u, "clause_sites": len(ea)}]
    res.analysed = [HG]
    return res


def _guarded_by_seen_set(m, f, node):
    """`node` executes only under `if key not in seen`, and `seen.add(key)` happens inside that if
    body or unconditionally later in the same statement list as the if."""
    for g in [p for p in _enclosing(m, node, f.node) if isinstance(p, ast.If)]:
        t = g.test
        if not (isinstance(t, ast.Compare) and len(t.ops) == 1 and isinstance(t.ops[0], ast.NotIn)):
            continue
        if not any(node in list(ast.walk(s)) for s in g.body):
            continue
        seen = ast.unparse(t.comparators[0])
        key = ast.unparse(t.left)
        want = f"{seen}.add({key})"
        if any(want in ast.unparse(s) for s in g.body):
            return True
        # sibling statements after the guard, walking outwards while staying inside the same loop
        cur = g
        while True:
            parent = m.parent(cur)
            if parent is None or isinstance(parent, (ast.FunctionDef, ast.For, ast.While)) and cur is not g and False:
                break
            for fld in ("body", "orelse"):
                blk = getattr(parent, fld, None)
                if isinstance(blk, list) and cur in blk:
                    for st in blk[blk.index(cur) + 1:]:
                        if isinstance(st, ast.Expr) and want in ast.unparse(st):
                            return True
            if isinstance(parent, (ast.For, ast.While, ast.FunctionDef)):
                break
            cur = parent
    return False


def casededup(repo):
    """Every template that renders a `case X:` label is instantiated under a membership test
    against a seen-set that is updated on the same path."""
    res = RuleResult("R-CASEDEDUP")
    tp = Templates(repo)
    m = repo.mod(HG)
    case_templates = {n for n, t in tp.templates.items() if re.search(r"^\s*case\s+[^:]*\$\{?\w+\}?[^:]*:", t["text"], re.M)}
    if len(case_templates) < 3:
        raise AnalysisError(f"only {sorted(case_templates)} templates render case labels")
    res.detail["case_templates"] = sorted(case_templates)
    for n in ast.walk(m.tree):
        if isinstance(n, ast.Call) and (call_name(n) or "").endswith("format_template") and n.args:
            f = m.enclosing_func(n)
            cands = _template_candidates(m, f, n.args[0]) or set()
            hit = cands & case_templates
            if not hit:
                continue
            res.instances += 1
            tname = sorted(hit)[0]
            ok = _guarded_by_seen_set(m, f, n)
            if not ok:
                # instantiation inside `for ... in X["k"]`: the guard must protect the appends to X["k"]
                for lp in [p for p in _enclosing(m, n, f.node) if isinstance(p, ast.For)]:
                    it = lp.iter
                    if isinstance(it, ast.Subscript) and isinstance(it.slice, ast.Constant):
                        keyname = it.slice.value
                        apps = [c for c in walk_no_nested_funcs(f.node)
                                if isinstance(c, ast.Call) and isinstance(c.func, ast.Attribute) and c.func.attr == "append"
                                and isinstance(c.func.value, ast.Subscript) and isinstance(c.func.value.slice, ast.Constant)
                                and c.func.value.slice.value == keyname]
                        if apps and all(_guarded_by_seen_set(m, f, a) for a in apps):
                            ok = True
            if ok:
                if len(res.samples) < 3:
                    res.samples.append(f"{tname} @ {HG}:{n.lineno}: guarded by a seen-set")
            else:
                res.add(f"{HG}|{f.qualname}|{tname}", f"template {tname} (renders a C++ `case` label) is instantiated without "
                        "a `key not in seen` guard that also records the key: two enumerators/fields with one value "
                        "would produce duplicate case labels (header does not compile)", HG, n.lineno, f.qualname)
    res.analysed = [HG, TEMPLATES]
    return res


def namearms(repo):
    """The converse of R-CASEDEDUP: a template that renders a name-keyed arm (`strcmp("${name}", ...)`)
    is instantiated once per name -- never under a membership test (value de-duplication would
    drop the second name of an aliased value from the name->value mapping)."""
    res = RuleResult("R-NAMEARMS")
    tp = Templates(repo)
    m = repo.mod(HG)
    name_templates = {n for n, t in tp.templates.items() if re.search(r'strcmp\(\s*"\$\{?\w+\}?"', t["text"])}
    if not name_templates:
        raise AnalysisError("no template renders a strcmp(\"${name}\", ...) arm")
    res.detail["name_templates"] = sorted(name_templates)
    for n in ast.walk(m.tree):
        if isinstance(n, ast.Call) and (call_name(n) or "").endswith("format_template") and n.args:
            f = m.enclosing_func(n)
            cands = _template_candidates(m, f, n.args[0]) or set()
            hit = cands & name_templates
            if not hit:
                continue
            res.instances += 1
            tname = sorted(hit)[0]
            bad = None
            for g in [p for p in _enclosing(m, n, f.node) if isinstance(p, ast.If)]:
                if not any(n in list(ast.walk(s)) for s in g.body):
                    continue
                for c in ast.walk(g.test):
                    if isinstance(c, ast.Compare) and any(isinstance(o, (ast.In, ast.NotIn)) for o in c.ops):
                        bad = ast.unparse(g.test)
            if not any(isinstance(p, ast.For) for p in _enclosing(m, n, f.node)):
                res.add(f"{HG}|{f.qualname}|{tname}|loop", f"template {tname} (a name->value arm) is not instantiated in a loop "
                        "over the names", HG, n.lineno, f.qualname)
            elif bad:
                res.add(f"{HG}|{f.qualname}|{tname}", f"template {tname} (a name->value arm keyed by the name) is instantiated only "
                        f"under the membership test `{bad}`: a name whose value (or other key) was seen before gets no arm, "
                        "so the documented name is not accepted by TryToGetEnumFromName / text input", HG, n.lineno, f.qualname)
            elif len(res.samples) < 3:
                res.samples.append(f"{tname} @ {HG}:{n.lineno}: one arm per name, no membership guard")
    res.analysed = [HG, TEMPLATES]
    return res


def dollar(repo):
    """`$`-field names agree between grammar literals, tokenizer literals, synthetics and the
    C++ name table."""
    from .. import grammar as G
    res = RuleResult("R-DOLLAR")
    g = G.ir_grammar(repo)
    lits, _ = G.tokenizer_tables(repo)
    gram = {r[0].strip('"') for l, r in g["productions"] if l == "builtin-field-word" and len(r) == 1}
    if len(gram) < 4:
        raise AnalysisError("grammar: builtin-field-word productions not found")
    m = repo.mod(HG)
    table = None
    for f in m.top_funcs():
        for n in walk_no_nested_funcs(f.node):
            if isinstance(n, ast.Dict) and n.keys and all(isinstance(k, ast.Constant) and isinstance(k.value, str)
                                                           and k.value.startswith("$") for k in n.keys):
                table = ({k.value: v.value for k, v in zip(n.keys, n.values) if isinstance(v, ast.Constant)}, f)
    if table is None:
        raise AnalysisError("header_generator: $-name table not found")
    cpp, fn = table
    syn = repo.mod("compiler/front_end/synthetics.py")
    synth = set()
    for n in ast.walk(syn.tree):
        if isinstance(n, ast.Constant) and isinstance(n.value, str) and re.fullmatch(r"\$[a-z_]+", n.value):
            synth.add(n.value)
    synth_fields = {s for s in synth if s.startswith(("$size_in", "$max_size", "$min_size"))}
    for w in sorted(gram):
        res.instances += 1
        if w not in lits:
            res.add(f"tokenizer|{w}", f"{w} is a grammar literal but not a tokenizer literal", G.TOKENIZER)
        if w not in cpp:
            res.add(f"cpp|{w}", f"{w} can be referenced in source but {fn.name} has no C++ name for it (KeyError)", HG, fn.line, fn.name)
        if w not in synth_fields:
            res.add(f"synthetics|{w}", f"{w} is referencable but synthetics never defines such a virtual field", syn.rel)
    for w in sorted(synth_fields):
        res.instances += 1
        if w not in cpp:
            res.add(f"cpp-synth|{w}", f"synthetics defines {w} but {fn.name} has no C++ name for it (KeyError)", HG, fn.line, fn.name)
        if w not in gram:
            res.add(f"grammar|{w}", f"synthetics defines {w} but the grammar has no builtin-field-word for it", G.MODULE_IR)
    names = list(cpp.values())
    if len(set(names)) != len(names):
        res.add("cpp|duplicate", "two $-fields map to one C++ name", HG, fn.line, fn.name)
    res.samples = [f"{k} -> {v}" for k, v in list(cpp.items())[:3]]
    res.analysed = [HG, syn.rel, G.MODULE_IR, G.TOKENIZER]
    return res


def enumcase(repo):
    """Every supported enum case has a conversion registered from SHOUTY_CASE."""
    res = RuleResult("R-ENUMCASE")
    m = repo.mod(HG)
    nc = repo.mod("compiler/util/name_conversion.py")
    supported = None
    for name, vals in m.assigns.items():
        if "ENUM_CASE" in name and "SUPPORTED" in name:
            v = vals[-1]
            supported = (name, [ast.unparse(e) for e in getattr(v, "elts", [])] or [ast.unparse(v)])
    if supported is None:
        raise AnalysisError("header_generator: supported enum case list not found")
    # Case members and registered conversions
    members = {}
    for st in nc.classes.get("Case", ast.ClassDef(body=[])).body:
        if isinstance(st, ast.Assign) and isinstance(st.value, ast.Constant):
            members[st.targets[0].id] = st.value.value
    conv = set()
    for f in nc.funcs.values():
        for d in f.node.decorator_list:
            if isinstance(d, ast.Call) and len(d.args) == 2:
                conv.add((ast.unparse(d.args[0]).split(".")[-1], ast.unparse(d.args[1]).split(".")[-1]))
    for mem in members:
        conv.add((mem, mem))
    by_value = {v: k for k, v in members.items()}
    for s in supported[1]:
        res.instances += 1
        mem = s.split(".")[-1]
        try:
            lit = ast.literal_eval(s)
        except Exception:
            lit = None
        if lit in by_value:
            mem = by_value[lit]
        if mem not in members:
            res.add(f"enumcase|{s}", f"{s} in {supported[0]} is not a name_conversion.Case member", HG)
        elif ("SHOUTY", mem) not in conv:
            res.add(f"enumcase|{s}|conversion", f"no conversion registered from SHOUTY_CASE to {mem}: "
                    f"[(cpp) enum_case: \"{members[mem]}\"] passes validation and then raises KeyError", nc.rel)
    res.samples = [f"{supported[0]} = {supported[1]}", f"conversions: {sorted(conv)}"]
    res.analysed = [HG, nc.rel]
    return res


def renderint(repo):
    """Integer literals reach generated code only through _render_integer (which adds the
    right suffix and handles INT64_MIN)."""
    res = RuleResult("R-RENDERINT")
    m = repo.mod(HG)
    ri = m.funcs.get("_render_integer")
    if ri is None:
        raise AnalysisError("header_generator._render_integer vanished")
    # uses of int(...) of IR numeric strings inside format()/template keyword arguments without _render_integer
    for f in m.funcs.values():
        if f is ri or f.name == "_render_integer_for_expression":
            continue
        for n in walk_no_nested_funcs(f.node):
            if isinstance(n, ast.Call) and isinstance(n.func, ast.Attribute) and n.func.attr == "format":
                args = list(n.args) + [k.value for k in n.keywords]
            elif isinstance(n, ast.Call) and (call_name(n) or "").endswith("format_template"):
                args = [k.value for k in n.keywords]
            else:
                continue
            for a in args:
                res.instances += 1
                # a numeric IR string (`enum_type.value`, `...integer.modular_value`) pasted as it is
                if isinstance(a, ast.Attribute) and a.attr in ("value", "modular_value", "minimum_value", "maximum_value") \
                        and re.search(r"enum|integer|\.type\b", ast.unparse(a.value)):
                    res.add(f"{HG}|{f.qualname}|{ast.unparse(a)[:40]}", f"the numeric IR string `{ast.unparse(a)}` is formatted into generated "
                            "code as it is: values at the 64-bit limits (18446744073709551615, -9223372036854775808) are not valid C++ "
                            "literals; they have to go through _render_integer", HG, a.lineno, f.qualname)
                for c in ast.walk(a):
                    if isinstance(c, ast.Call) and isinstance(c.func, ast.Name) and c.func.id == "int" and c.args and \
                            re.search(r"\.(value|modular_value|minimum_value|maximum_value|modulus)\b|constant_value\(",
                                      ast.unparse(c.args[0])):
                        # allowed when wrapped in _render_integer*(...)
                        p = m.parent(c)
                        wrapped = False
                        while p is not None and p is not n:
                            if isinstance(p, ast.Call) and (call_name(p) or "").startswith("_render_integer"):
                                wrapped = True
                            p = m.parent(p)
                        if not wrapped:
                            res.add(f"{HG}|{f.qualname}|{ast.unparse(c)[:40]}",
                                    f"integer `{ast.unparse(c)[:50]}` is formatted into generated code without "
                                    "_render_integer (no LL/ULL suffix; INT64_MIN ill-formed)", HG, c.lineno, f.qualname)
    # _render_integer itself: handles the most negative value specially
    src = m.seg(ri.node)
    res.instances += 1
    if "-(2**63)" not in src.replace(" ", "") and "-9223372036854775808" not in src and "2**63" not in src:
        res.add(f"{HG}|_render_integer|int64-min", "_render_integer no longer special-cases -2**63", HG, ri.line, ri.name)
    res.samples = ["_render_integer wraps every int(...) formatted into C++"]
    res.analysed = [HG]
    return res


# ---- R-ACCESSOR (template text) -----------------------------------------------------------------
def accessor(repo):
    res = RuleResult("R-ACCESSOR")
    tp = Templates(repo)
    name = "structure_single_field_method_definitions"
    if name not in tp:
        raise AnalysisError(f"template {name} vanished")
    text = re.sub(r"\$\{(\w+)\}", r"$\1", tp[name]["text"])
    res.instances = 5
    i = text.find("GetOffsetStorage")
    if i < 0:
        res.add(f"{name}|GetOffsetStorage", "field accessor no longer calls GetOffsetStorage", TEMPLATES, tp[name]["line"])
        return res
    # conditions enclosing the call: walk back collecting `if (...)` whose braces enclose position i
    depth = 0
    enclosing = []
    stack = []
    j = 0
    pending_if = None
    for mt in re.finditer(r"if\s*\(|\{|\}", text):
        tok = mt.group(0)
        if tok.startswith("if"):
            # capture the parenthesised condition
            k = mt.end()
            d = 1
            while k < len(text) and d:
                d += text[k] == "("
                d -= text[k] == ")"
                k += 1
            pending_if = (text[mt.end():k - 1], mt.start())
        elif tok == "{":
            stack.append((pending_if, mt.start()))
            pending_if = None
        else:
            if stack:
                cond, start = stack.pop()
                if start < i < mt.start() and cond:
                    enclosing.append(cond[0])
    conds = " && ".join(enclosing)
    needles = [("has_$name", "existence of the field")]
    am = re.search(r"GetOffsetStorage<[^>]*>\(\s*(\w+)\.ValueOrDefault\(\)\s*,\s*(\w+)\.ValueOrDefault\(\)", text, re.S)
    if am:
        for var, role in ((am.group(1), "offset"), (am.group(2), "size")):
            needles.append((f"{var}.Known()", f"a known {role}"))
            needles.append((f"{var}.ValueOr(0) >= 0", f"a non-negative {role}"))
    else:
        needles += [(".Known()", "known offset/size"), (">= 0", "non-negative offset/size")]
    cflat = " ".join(conds.split())
    for needle, what in needles:
        if needle not in cflat:
            res.add(f"{name}|guard|{needle}", f"GetOffsetStorage in the field accessor is not guarded by {what} "
                    f"(enclosing conditions: {conds[:120]!r})", TEMPLATES, tp[name]["line"])
    m = re.search(r"GetOffsetStorage<[^>]*>\(\s*([^,]+),\s*([^)]+)\)", text, re.S)
    if m:
        a0, a1 = m.group(1).strip(), m.group(2).strip()
        if "offset" not in a0 or "size" not in a1:
            res.add(f"{name}|argrole", f"GetOffsetStorage(offset, size) is called with ({a0}, {a1})", TEMPLATES, tp[name]["line"])
    tail = text[i:]
    if not re.search(r"return\s+\$type_reader\(\s*\)\s*;", tail):
        res.add(f"{name}|null-view", "the fall-through no longer returns a default-constructed (null) view", TEMPLATES, tp[name]["line"])
    res.samples = [{"template": name, "enclosing_conditions": enclosing}]
    res.analysed = [TEMPLATES]
    return res


# ---- resolver rules ------------------------------------------------------------------------------
SR = "compiler/front_end/symbol_resolver.py"


def noprecedence(repo):
    res = RuleResult("R-NOPRECEDENCE")
    m = repo.mod(SR)
    target = None
    for f in m.top_funcs():
        for n in walk_no_nested_funcs(f.node):
            if isinstance(n, ast.For) and isinstance(n.iter, ast.Name) and n.iter.id == "visible_scopes":
                target = (f, n)
    if target is None:
        raise AnalysisError("symbol_resolver: loop over visible_scopes not found")
    f, loop = target
    res.instances = 3
    for n in ast.walk(loop):
        if isinstance(n, (ast.Break, ast.Return)):
            def narrow(t):
                # the early exit is admissible only for inline-type (local) names: the test is `X.is_local_name`,
                # possibly narrowed further by `and`; any `or` widens it to other references
                if isinstance(t, ast.Attribute) and t.attr == "is_local_name":
                    return True
                if isinstance(t, ast.BoolOp) and isinstance(t.op, ast.And):
                    return any(narrow(v) for v in t.values)
                return False
            guards = [p.test for p in _enclosing(m, n, loop) if isinstance(p, ast.If)]
            if not any(narrow(g) for g in guards):
                res.add(f"{SR}|{f.qualname}|early-exit", "the scope search stops at the first match (precedence) instead of "
                        "examining every visible scope for ambiguity", SR, n.lineno, f.qualname)
    src = m.seg(loop)
    if "ambiguous_name_error" not in src:
        res.add(f"{SR}|{f.qualname}|ambiguity", "a second match in another visible scope no longer reports "
                "ambiguous_name_error", SR, loop.lineno, f.qualname)
    else:
        # must be under `if found... is not None`
        ok = False
        for n in ast.walk(loop):
            if isinstance(n, ast.Call) and (call_name(n) or "").endswith("ambiguous_name_error"):
                guards = [ast.unparse(p.test) for p in _enclosing(m, n, loop) if isinstance(p, ast.If)]
                if any("is not None" in g for g in guards):
                    ok = True
        if not ok:
            res.add(f"{SR}|{f.qualname}|ambiguity-guard", "ambiguous_name_error is not tied to a previous match", SR, loop.lineno, f.qualname)
        # ... and it is reported for *every* second match: inside the `is not None` block nothing skips to the next scope
        # before the error has been appended
        for g in [n for n in ast.walk(loop) if isinstance(n, ast.If) and "is not None" in ast.unparse(n.test)
                  and any(isinstance(c, ast.Call) and (call_name(c) or "").endswith("ambiguous_name_error") for c in ast.walk(n))]:
            res.instances += 1
            report_at = next((i for i, st in enumerate(g.body) if any(isinstance(c, ast.Call) and (call_name(c) or "").endswith("ambiguous_name_error")
                                                                       for c in ast.walk(st))), None)
            for i, st in enumerate(g.body):
                if report_at is None or i >= report_at:
                    break
                for x in ast.walk(st):
                    if isinstance(x, (ast.Continue, ast.Break, ast.Return)):
                        res.add(f"{SR}|{f.qualname}|ambiguity-skipped", f"a second match is skipped (`{ast.unparse(st).splitlines()[0][:80]}`) before "
                                "ambiguous_name_error is reported: a name defined in two visible scopes is then bound by precedence "
                                "(to the innermost definition) instead of being rejected", SR, x.lineno, f.qualname)
            if report_at is not None and isinstance(g.body[report_at], (ast.If, ast.For, ast.While, ast.Try)):
                res.add(f"{SR}|{f.qualname}|ambiguity-conditional", f"ambiguous_name_error is reported only under "
                        f"`{ast.unparse(g.body[report_at]).splitlines()[0][:80]}`", SR, g.body[report_at].lineno, f.qualname)
    # the visibility test
    if not re.search(r"scope == current_scope or .*visibility == _Scope\.SEARCHABLE", src.replace("\n", " ")):
        res.add(f"{SR}|{f.qualname}|visibility", "names are matched without the `scope == current_scope or SEARCHABLE` "
                "visibility test: LOCAL/PRIVATE names leak into other scopes", SR, loop.lineno, f.qualname)
    res.samples = [f"{f.fq}: loop over visible_scopes"]
    res.analysed = [SR]
    return res


def abbrev(repo):
    res = RuleResult("R-ABBREV")
    allowed_files = {"compiler/front_end/module_ir.py", "compiler/front_end/synthetics.py", SR,
                     "compiler/front_end/format_emb.py", "compiler/util/ir_data.py"}
    for m in repo.compile_path_modules():
        for n in ast.walk(m.tree):
            hit = (isinstance(n, ast.Attribute) and n.attr == "abbreviation") or \
                  (isinstance(n, ast.Constant) and n.value == "abbreviation")
            if not hit:
                continue
            res.instances += 1
            if m.rel not in allowed_files:
                f = m.enclosing_func(n)
                res.add(f"{m.rel}|{f.qualname if f else ''}|abbreviation", "Field.abbreviation is read outside the builder, "
                        "the alias synthesiser and the scope constructor: abbreviations may become visible outside "
                        "their structure", m.rel, n.lineno, f.qualname if f else "")
    m = repo.mod(SR)
    ok = False
    for n in ast.walk(m.tree):
        if isinstance(n, ast.Call) and n.args and ast.unparse(n.args[0]).endswith(".abbreviation"):
            res.instances += 1
            if any(ast.unparse(a) == "_Scope.PRIVATE" for a in n.args):
                ok = True
            else:
                f = m.enclosing_func(n)
                res.add(f"{SR}|{f.qualname if f else ''}|visibility", "an abbreviation is registered with a visibility "
                        "other than _Scope.PRIVATE", SR, n.lineno, f.qualname if f else "")
    if not ok and not res.findings:
        res.add(f"{SR}|unregistered", "abbreviations are no longer registered in the field's scope", SR)
    res.samples = ["abbreviation registered with _Scope.PRIVATE in _add_struct_field_to_scope"]
    res.analysed = sorted(allowed_files)
    return res


# ---- R-SPELL -----------------------------------------------------------------------------------
def spell(repo):
    """Generated-identifier collision analysis for the members of a generated view class.

    Member-name schemas come from the class-scope templates and from header_generator's literal
    format strings; user-spellable languages from the tokenizer regexes minus reserved words.
    A collision is reported with a concrete witness (a pair of legal Emboss names)."""
    from .. import grammar as G
    res = RuleResult("R-SPELL")
    tp = Templates(repo)
    lits, regs = G.tokenizer_tables(repo)
    sym_re = {}
    for pat, sym, _ in regs:
        sym_re.setdefault(sym, []).append(re.compile(pat))
    if "SnakeWord" not in sym_re or "CamelWord" not in sym_re:
        raise AnalysisError("tokenizer: SnakeWord/CamelWord patterns not found")
    reserved = set()
    for line in repo.read("compiler/front_end/reserved_words").splitlines():
        w = line.partition("#")[0].strip()
        if w and not w.startswith("--"):
            reserved.add(w)
    bad_prefix = [re.compile(p) for p, s, _ in regs if s == "BadWord" and "eserved" in p.lower()]

    def spellable(word, kind):
        if word in reserved or word in lits:
            return False
        if any(b.fullmatch(word) for b in bad_prefix):
            return False
        return any(r.fullmatch(word) for r in sym_re[kind])

    cls = tp["structure_view_class"]["text"]
    start = cls.find("class Generic${name}View final {")
    end = cls.find("\n};", start)
    if start < 0 or end < 0:
        raise AnalysisError("structure_view_class: class body not found")
    body = re.sub(r"\$\{\w+\}", " ", cls[start:end])
    constants = set()
    # method names: identifier followed by '(' at class nesting depth 1, excluding control keywords and calls in bodies
    depth = 0
    i = 0
    tok = re.compile(r"[A-Za-z_]\w*|[{}();]")
    toks = [(m.group(0), m.start()) for m in tok.finditer(body)]
    for k, (t, pos) in enumerate(toks):
        if t == "{":
            depth += 1
        elif t == "}":
            depth -= 1
        elif depth == 1 and re.match(r"[A-Za-z_]", t) and k + 1 < len(toks) and toks[k + 1][0] == "(":
            if t not in ("if", "for", "while", "switch", "return", "sizeof", "decltype", "static_cast", "operator", "enable_if", "forward") \
                    and body[pos - 1:pos] != "<":
                constants.add(t)
        elif depth == 1 and re.match(r"[a-z_]\w*_$", t) and k + 1 < len(toks) and toks[k + 1][0] == ";":
            constants.add(t)
    constants -= {"Generic", "View", "explicit", "template", "typename", "const", "constexpr", "static", "friend", "class"}
    # members declared by header_generator literals
    hg = repo.mod(HG)
    hsrc = repo.read(HG)
    for m in re.finditer(r'flag_name\s*=\s*"(\w+)"', hsrc):
        constants.add(m.group(1))
    param_member_schema = bool(re.search(r'"\{\}\s+\{\}_;"', hsrc))
    field_decl = tp["structure_single_field_method_declarations"]["text"] if "structure_single_field_method_declarations" in tp else ""
    has_schema = "has_${name}" in field_decl
    using_schema = "using ${name}" in (tp["enum_using_statement"]["text"] if "enum_using_statement" in tp else "")
    res.detail = {"constant_members": sorted(constants), "schemas": ["${name}", "has_${name}" if has_schema else None,
                                                                     "${name}_" if param_member_schema else None,
                                                                     "using ${Name}" if using_schema else None]}
    # A. constant members spellable as a field name
    for c in sorted(constants):
        res.instances += 1
        if spellable(c, "SnakeWord"):
            res.add(f"spell|constant|{c}", f"the generated view class has a member `{c}`; `{c}` is also a legal Emboss field "
                    f"name, whose accessor `{c}()` would clash with it (header does not compile)", TEMPLATES,
                    tp["structure_view_class"]["line"])
    camel_const = sorted(c for c in constants if spellable(c, "CamelWord"))
    res.instances += 1
    if using_schema and camel_const:
        # an inline `enum foo_bar` inside a struct is named FooBar and imported with `using FooBar = ...`
        res.add("spell|using-vs-method", f"inline enum types are imported into the view class with `using <CamelName>`; "
                f"{len(camel_const)} methods of the class are legal CamelCase type names (e.g. inline `enum ok` -> "
                f"`using Ok` vs `Ok()`): {camel_const[:8]}…", TEMPLATES, tp["enum_using_statement"]["line"])
    # B. schema pairs, with witnesses
    pairs = []
    if has_schema:
        pairs.append(("has_${name}", "${name}", "has_x", "x"))
    if param_member_schema:
        pairs.append(("${name}_", "${name}", "x_", "x (parameter) + x_ (field)"))
    if has_schema and param_member_schema:
        pairs.append(("has_${name}", "${name}_", "has_g_", "g_ (field) + has_g (parameter)"))
    for a, b, witness, how in pairs:
        res.instances += 1
        if spellable(witness.rstrip("_") if False else witness, "SnakeWord"):
            res.add(f"spell|pair|{a}|{b}", f"member schemas `{a}` and `{b}` can produce the same identifier `{witness}` "
                    f"({how}); both names are legal in one structure and the generated class declares the identifier twice",
                    TEMPLATES, tp["structure_single_field_method_declarations"]["line"])
    # C. template parameters of the generated classes: inside `template <class P> class Generic${name}View`, P hides a
    # namespace or type called P.  The per-type namespace of a structure is named after the structure, and the templates
    # refer to it relatively (`${parent_type}::${name}()`), so a structure (or nested enum) named P breaks the header.
    tparams = set()
    for name_, t in tp.templates.items():
        # class-level parameters only: a parameter of a member template (`template <class Stream> void Write...`) is in
        # scope in that member alone, where the templates make no relative reference (checked with g++ for Stream,
        # OtherStorage, IntT, ValueType, Enum, View: all compile)
        for mm in re.finditer(r"template\s*<\s*(?:class|typename)\s+([A-Z]\w*)\s*>\s*class\s+Generic", t["text"]):
            tparams.add(mm.group(1))
    relative = any(re.search(r"(?<![:\w])\$\{parent_type\}::", t["text"]) for t in tp.templates.values())
    if not tparams:
        raise AnalysisError("no class-level template parameter of the generated view classes recognised")
    for tpn in sorted(tparams):
        res.instances += 1
        if spellable(tpn, "CamelWord") and (relative or using_schema):
            what = []
            if relative:
                what.append(f"for `struct {tpn}` the relative references `{tpn}::...` to the type's namespace name the template parameter instead")
            if using_schema:
                what.append(f"a nested `enum {tpn}` is imported into the class with `using {tpn} = ...`, which re-declares the template parameter")
            res.add(f"spell|template-parameter|{tpn}", f"the generated view classes are templates over `{tpn}`, and `{tpn}` is a legal Emboss type "
                    f"name: {'; '.join(what)}; the header does not compile",
                    TEMPLATES, tp["structure_view_class"]["line"])
    res.samples = [f"constants: {sorted(constants)[:6]}", f"pairs: {[(a, b) for a, b, _, _ in pairs]}", f"template parameters: {sorted(tparams)}"]
    res.analysed = [TEMPLATES, HG, G.TOKENIZER, "compiler/front_end/reserved_words"]
    return res


def dupname(repo):
    """R-DUPNAME: a name is entered into a scope only when it is not there yet; a second definition in
    one scope reports duplicate_name_error (never overwrites, never silently keeps the first)."""
    res = RuleResult("R-DUPNAME")
    m = repo.mod(SR)
    n_sites = 0
    for f in m.top_funcs():
        for n in walk_no_nested_funcs(f.node):
            # scope[name] = new_scope
            if isinstance(n, ast.Assign) and isinstance(n.targets[0], ast.Subscript) and isinstance(n.value, ast.Name) \
                    and "scope" in ast.unparse(n.targets[0].value) and isinstance(n.targets[0].slice, ast.Name) \
                    and n.value.id == "new_scope":
                n_sites += 1
                res.instances += 1
                table = ast.unparse(n.targets[0].value)
                key = n.targets[0].slice.id
                p = m.parent(n)
                ok = False
                if isinstance(p, ast.If) and n in p.orelse:
                    t = p.test
                    if isinstance(t, ast.Compare) and isinstance(t.ops[0], ast.In) and ast.unparse(t.left) == key \
                            and ast.unparse(t.comparators[0]) == table:
                        body = "\n".join(ast.unparse(s) for s in p.body)
                        if "duplicate_name_error" in body and "errors.append" in body:
                            ok = True
                if not ok:
                    res.add(f"{SR}|{f.qualname}|insert", f"{f.qualname} enters `{key}` into `{table}` without the "
                            f"`if {key} in {table}: errors.append(duplicate_name_error(...)) else:` guard: a second definition "
                            "in the same scope silently replaces or shadows the first", SR, n.lineno, f.qualname)
    if n_sites < 2:
        raise AnalysisError(f"symbol_resolver: only {n_sites} scope insertion sites found")
    res.samples = [f"{n_sites} guarded insertions of new_scope"]
    res.analysed = [SR]
    return res


def exactname(repo):
    """R-EXACTNAME: enum names are recognised by an exact, whole-string comparison."""
    res = RuleResult("R-EXACTNAME")
    tp = Templates(repo)
    name = "enum_from_name_case"
    if name not in tp:
        raise AnalysisError(f"template {name} vanished")
    text = tp[name]["text"]
    res.instances = 2
    calls = re.findall(r"\b(strn?cmp|memcmp|strncasecmp|strcasecmp|starts_with|find|compare)\s*\(", text)
    if not calls and "==" not in text:
        res.add(f"{name}|compare", "enum_from_name_case no longer compares the candidate with the declared name", TEMPLATES, tp[name]["line"])
    for c in calls:
        if c != "strcmp":
            res.add(f"{name}|{c}", f"enum_from_name_case matches names with {c}(): only a whole-string comparison maps each declared "
                    "name, and nothing else, to its value (a bounded or prefix comparison accepts longer strings and can pick "
                    "the wrong enumerator when one name is a prefix of another)", TEMPLATES, tp[name]["line"])
    m = re.search(r"(!\s*strcmp\s*\(|strcmp\s*\([^)]*\)\s*==\s*0)", text)
    if "strcmp" in calls and not m:
        res.add(f"{name}|polarity", "strcmp result is not tested for equality (`!strcmp(...)` / `== 0`)", TEMPLATES, tp[name]["line"])
    if '"${name}"' not in text or "${enum}::${value}" not in text:
        res.add(f"{name}|operands", "the comparison is not between the declared name literal and the candidate, or the result is "
                "not the matching enumerator", TEMPLATES, tp[name]["line"])
    res.samples = [" ".join(text.split())[:120]]
    res.analysed = [TEMPLATES]
    return res


# ---------------------------------------------------------------------------------------------------------
# R-OKCOVER: Ok() examines every field
def _mentions(node, name):
    return any(isinstance(n, ast.Name) and n.id == name for n in ast.walk(node))


def _placement(st, var):
    """A statement that records `var` in a container: c.append(..var..) / c.add / c[k] = ..var.."""
    if isinstance(st, ast.Expr) and isinstance(st.value, ast.Call) and isinstance(st.value.func, ast.Attribute) \
            and st.value.func.attr in ("append", "add", "extend", "insert") and any(_mentions(a, var) for a in st.value.args):
        return st.value.func.value
    if isinstance(st, ast.Assign) and any(isinstance(t, ast.Subscript) for t in st.targets) and _mentions(st.value, var):
        return st.targets[0]
    return None


def _must_place(stmts, var):
    """Every path through `stmts` records `var` (or leaves the iteration explicitly)."""
    for st in stmts:
        if _placement(st, var) is not None:
            return True
        if isinstance(st, (ast.Continue, ast.Return, ast.Raise)):
            return True
        if isinstance(st, ast.If) and st.orelse and _must_place(st.body, var) and _must_place(st.orelse, var):
            return True
        if isinstance(st, (ast.With, ast.Try)) and _must_place(st.body, var):
            return True
    return False


def _unplaced_path(stmts, var, trail=()):
    """A description of one path through stmts on which var is not recorded (for the report)."""
    for st in stmts:
        if isinstance(st, ast.If) and not (st.orelse and _must_place(st.body, var) and _must_place(st.orelse, var)):
            if not _must_place(st.body, var) and any(_placement(x, var) is not None for b in st.body for x in ast.walk(b)
                                                     if isinstance(x, ast.stmt)):
                return _unplaced_path(st.body, var, trail + (f"line {st.lineno}: `{ast.unparse(st.test)}` true",))
            if st.orelse and not _must_place(st.orelse, var):
                return _unplaced_path(st.orelse, var, trail + (f"line {st.lineno}: `{ast.unparse(st.test)}` false",))
    return trail


def okcover(repo):
    res = RuleResult("R-OKCOVER")
    m, f, cls_site = _find_struct_generator(repo)
    kws = {k.arg: k.value for k in cls_site.keywords}
    ok_src = kws.get("field_ok_checks")
    callee = None
    if isinstance(ok_src, ast.Name):
        for n in walk_no_nested_funcs(f.node):
            if isinstance(n, ast.Assign) and any(isinstance(t, ast.Name) and t.id == ok_src.id for t in n.targets) \
                    and isinstance(n.value, ast.Call) and isinstance(n.value.func, ast.Name):
                callee = m.funcs.get(n.value.func.id)
    if callee is None:
        raise AnalysisError("header_generator: the function producing field_ok_checks was not found")
    params = [a.arg for a in callee.node.args.args]
    if not params:
        raise AnalysisError(f"{callee.name} has no parameters")
    fields = params[0]
    loops = [n for n in walk_no_nested_funcs(callee.node) if isinstance(n, ast.For) and isinstance(n.iter, ast.Name)
             and n.iter.id == fields and isinstance(n.target, ast.Name)]
    if not loops:
        raise AnalysisError(f"{callee.name}: no loop over its field list `{fields}`")
    keys = {}
    for lp in loops:
        var = lp.target.id
        res.instances += 1
        if not _must_place(lp.body, var):
            trail = _unplaced_path(lp.body, var)
            res.add(f"{HG}|{callee.name}|unplaced", f"{callee.name}: on the path [{'; '.join(trail) or 'fall-through'}] the "
                    f"field `{var}` is put into no group, so the generated Ok() never looks at it: a structure whose such "
                    "field is not Ok() still reports Ok()", HG, lp.lineno, callee.name)
        for st in ast.walk(lp):
            if isinstance(st, ast.stmt):
                tgt = _placement(st, var)
                if tgt is not None and isinstance(tgt, ast.Subscript) and isinstance(tgt.slice, ast.Constant) \
                        and isinstance(tgt.slice.value, str):
                    keys.setdefault(tgt.slice.value, st.lineno)
    # every container the fields were put into is turned into text
    for key, line in sorted(keys.items()):
        res.instances += 1
        emitted = False
        for n in walk_no_nested_funcs(callee.node):
            if isinstance(n, ast.For) and n not in loops and isinstance(n.iter, ast.Subscript) \
                    and isinstance(n.iter.slice, ast.Constant) and n.iter.slice.value == key:
                tnames = [x.id for x in ast.walk(n.target) if isinstance(x, ast.Name)]
                for c in ast.walk(n):
                    if isinstance(c, ast.Call) and (call_name(c) or "").endswith("format_template"):
                        kw = {k.arg: k.value for k in c.keywords}
                        if "field" in kw and any(_mentions(kw["field"], t) for t in tnames):
                            emitted = True
        if not emitted:
            res.add(f"{HG}|{callee.name}|unemitted|{key}", f"{callee.name}: fields collected under \"{key}\" are never turned "
                    "into an Ok() test (no loop over that list formats a template with field=...)", HG, line, callee.name)
    res.detail = {"function": callee.name, "containers": sorted(keys)}
    res.samples = [f"{callee.name}: every path of `for {loops[0].target.id} in {fields}` records the field; containers {sorted(keys)} are emitted"]
    res.analysed = [HG]
    return res


# ---------------------------------------------------------------------------------------------------------
# R-TEXTNAME: the name a value is written under in the text format is the name it is read back under
_CSTRING = re.compile(r'"(?:[^"\\\n]|\\.)*"')


def _text_name_slots(text):
    """Placeholders that occur inside a C string literal of the template's code (comments removed)."""
    code = re.sub(r"//[^\n]*", "", text)
    slots = set()
    for lit in _CSTRING.findall(code):
        slots |= set(re.findall(r"\$\{(\w+)\}", lit))
    return slots


def textname(repo):
    res = RuleResult("R-TEXTNAME")
    tp = Templates(repo)
    m = repo.mod(HG)
    slots = {name: _text_name_slots(t["text"]) for name, t in tp.templates.items()}
    slots = {k: v for k, v in slots.items() if v}
    if len(slots) < 3:
        raise AnalysisError(f"only {len(slots)} templates with a placeholder inside a string literal")
    groups = {}
    for n in ast.walk(m.tree):
        if isinstance(n, ast.Call) and (call_name(n) or "").endswith("format_template") and n.args:
            f = m.enclosing_func(n)
            cands = _template_candidates(m, f, n.args[0]) or set()
            for t in cands:
                for k in n.keywords:
                    if k.arg in slots.get(t, ()):
                        groups.setdefault((f.qualname if f else "", k.arg), []).append((t, k.value, n.lineno))
    for (fname, slot), sites in sorted(groups.items()):
        per_template = {}
        for t, v, line in sites:
            per_template.setdefault(t, set()).add(ast.unparse(v))
        if len(per_template) < 2:
            continue  # one template used several times: nothing to agree with
        res.instances += 1
        if len({frozenset(v) for v in per_template.values()}) > 1:
            desc = "; ".join(f"{t}: {sorted(v)}" for t, v in sorted(per_template.items()))
            line = min(l for _, _, l in sites)
            res.add(f"{HG}|{fname}|{slot}", f"{fname} puts different names into the string literals of sibling text-format "
                    f"templates (slot {slot}): {desc}.  The text written by one is matched by the other, so a value written "
                    "under one name is not read back (or is read back as something else)", HG, line, fname)
        elif len(res.samples) < 4:
            res.samples.append(f"{fname}: {sorted(per_template)} all use {sorted(next(iter(per_template.values())))} for ${{{slot}}}")
    res.detail = {"templates_with_text_names": sorted(slots)}
    res.analysed = [HG, TEMPLATES]
    return res


# ---------------------------------------------------------------------------------------------------------
# R-NSPARSE: the namespace validator and the namespace emitter cut the attribute text into the same components
def nsparse(repo):
    """The words tested against the C++ reserved-word list must be the words that are later emitted as
    `namespace <word> {`.  Both come from the `namespace` attribute's text, so the loop that tests membership in
    the reserved-word set has to iterate the result of the same function the emitter returns."""
    res = RuleResult("R-NSPARSE")
    m = repo.mod(HG)
    # emitter: the function that reads the "namespace" attribute and returns components
    emit_fn = None
    for f in m.top_funcs():
        reads = any(isinstance(n, ast.Call) and (call_name(n) or "").endswith("get_attribute") and len(n.args) >= 2
                    and isinstance(n.args[1], ast.Constant) and n.args[1].value == "namespace" for n in walk_no_nested_funcs(f.node))
        if not reads:
            continue
        for n in walk_no_nested_funcs(f.node):
            if isinstance(n, ast.Return) and isinstance(n.value, ast.Call) and isinstance(n.value.func, ast.Name):
                emit_fn = (f, n.value.func.id)
    if emit_fn is None:
        raise AnalysisError("header_generator: the function returning the module's namespace components was not found")
    splitter = emit_fn[1]
    # validator: loops whose body tests membership in a *RESERVED* set
    loops = []
    for f in m.top_funcs():
        for n in walk_no_nested_funcs(f.node):
            if isinstance(n, ast.For) and isinstance(n.target, ast.Name):
                for x in ast.walk(n):
                    if isinstance(x, ast.Compare) and len(x.ops) == 1 and isinstance(x.ops[0], ast.In) \
                            and isinstance(x.left, ast.Name) and x.left.id == n.target.id \
                            and "RESERVED" in ast.unparse(x.comparators[0]).upper():
                        loops.append((f, n))
                        break
    if not loops:
        raise AnalysisError("header_generator: no loop testing namespace components against the reserved words")
    for f, lp in loops:
        res.instances += 1
        it = lp.iter
        if not (isinstance(it, ast.Call) and isinstance(it.func, ast.Name) and it.func.id == splitter):
            res.add(f"{HG}|{f.name}|components", f"{f.name} tests `{ast.unparse(it)}` against the reserved words, but the namespace that is "
                    f"emitted is cut into components by {splitter}() (in {emit_fn[0].name}): a keyword component that the two cut "
                    "differently (e.g. with blanks around `::`) passes validation and is emitted as `namespace <keyword> {`",
                    HG, lp.lineno, f.name)
        else:
            res.samples.append(f"{f.name}: reserved-word test over {splitter}(...), as emitted by {emit_fn[0].name}")
    res.analysed = [HG]
    return res


# ---------------------------------------------------------------------------------------------------------
# R-SLOTAGREE: one placeholder name, one meaning per generator function
SLOT_EXCEPTIONS = {
    ("_generate_enum_definition", "name"): "C++ enumerator spelling vs. Emboss name, by design (R-TEXTNAME decides which template gets which)",
    ("_generate_enum_definition", "value"): "numeric value in enum_value, enumerator name in the case templates",
    ("_generate_structure_definition", "field"): "field accessor vs. parameter accessor",
    ("_generate_structure_definition", "name"): "subtype name, parameter name, structure name: three different templates",
    ("_get_includes", "file_name"): "three different includes",
}


def _expand_locals(node, fnode, depth=0):
    """Source text of `node` with locals that are assigned exactly once (from a call-free expression) replaced by their
    definition, so that `name=field_name` and `name=field_ir.name.name.text` compare equal."""
    if depth > 3:
        return ast.unparse(node)

    class R(ast.NodeTransformer):
        def visit_Name(self, n):
            defs = [x for x in walk_no_nested_funcs(fnode) if isinstance(x, ast.Assign)
                    and any(isinstance(t, ast.Name) and t.id == n.id for t in x.targets)]
            if len(defs) == 1 and not any(isinstance(c, ast.Call) for c in ast.walk(defs[0].value)) \
                    and not any(isinstance(c, ast.Name) and c.id == n.id for c in ast.walk(defs[0].value)):
                return ast.parse(_expand_locals(defs[0].value, fnode, depth + 1), mode="eval").body
            return n
    import copy
    return ast.unparse(R().visit(copy.deepcopy(node)))


def slotagree(repo):
    """Within one generator function a placeholder name filled in several templates is filled with the same
    expression (locals expanded); the five (function, slot) pairs where the meaning differs by design are tabled.
    A template that gets another variable under the same slot name (`parent_type=`, `name=`, `buffer_type=` ...)
    produces a header that names the wrong entity."""
    res = RuleResult("R-SLOTAGREE")
    m = repo.mod(HG)
    groups = {}
    for n in ast.walk(m.tree):
        if isinstance(n, ast.Call) and (call_name(n) or "").endswith("format_template") and n.args:
            f = m.enclosing_func(n)
            if f is None:
                continue
            cands = _template_candidates(m, f, n.args[0]) or {"?"}
            for k in n.keywords:
                groups.setdefault((f.qualname, k.arg), []).append((sorted(cands)[0], _expand_locals(k.value, f.node), n.lineno, f))
    for (fn, slot), sites in sorted(groups.items()):
        if len({t for t, _, _, _ in sites}) < 2:
            continue
        res.instances += 1
        forms = {}
        for t, src, line, f in sites:
            forms.setdefault(src, []).append((t, line))
        if len(forms) == 1:
            if len(res.samples) < 3:
                res.samples.append(f"{fn}: ${{{slot}}} = {next(iter(forms))} in {len(sites)} templates")
            continue
        if (fn, slot) in SLOT_EXCEPTIONS:
            res.notes.append(f"{fn} ${{{slot}}}: {SLOT_EXCEPTIONS[(fn, slot)]}")
            continue
        major = max(forms.items(), key=lambda kv: len(kv[1]))[0]
        for src, ts in sorted(forms.items()):
            if src == major:
                continue
            for t, line in ts:
                res.add(f"{HG}|{fn}|{slot}|{t}", f"{fn} fills ${{{slot}}} of template {t} with `{src}`, while the other templates of "
                        f"the same function get `{major}`: the generated code names a different entity there", HG, line, fn)
    res.detail = {"tabled": sorted(f"{a}|{b}" for a, b in SLOT_EXCEPTIONS)}
    res.analysed = [HG]
    return res


# ---------------------------------------------------------------------------------------------------------
# R-HEADERGUARD: the include guard keeps the whole module path
_LOSSY_PATH_OPS = ("basename", "split", "rsplit", "rpartition", "partition", "splitext", "stem", "name", "relpath", "lstrip", "strip")


def headerguard(repo):
    """R-HEADERGUARD (C07): two modules with different paths get different include guards only if the guard is
    computed from the whole path.  In the guard generator the path parameter may be suffixed, upper-cased and have
    punctuation replaced, but must not go through an operation that drops directory components (basename, split,
    slicing, ...): otherwise `v1/types.emb` and `v2/types.emb` share a guard and the second header is skipped by the
    preprocessor of any translation unit that includes both."""
    res = RuleResult("R-HEADERGUARD")
    m = repo.mod(HG)
    f = None
    for g in m.top_funcs():
        src = m.seg(g.node)
        if "guard" in g.name.lower() and g.node.args.args:
            f = g
    if f is None:
        raise AnalysisError("header_generator: the include-guard generator was not found")
    param = f.node.args.args[0].arg
    tainted = {param}
    order = sorted((n for n in walk_no_nested_funcs(f.node) if isinstance(n, ast.Assign)), key=lambda n: n.lineno)
    for _ in range(3):
        for n in order:
            if any(isinstance(x, ast.Name) and x.id in tainted for x in ast.walk(n.value)):
                tainted |= {t.id for t in n.targets if isinstance(t, ast.Name)}
    res.instances += 1
    bad = []
    for n in walk_no_nested_funcs(f.node):
        uses = lambda node: any(isinstance(x, ast.Name) and x.id in tainted for x in ast.walk(node))
        if isinstance(n, ast.Call):
            nm = (call_name(n) or "").split(".")[-1]
            if nm in _LOSSY_PATH_OPS and (any(uses(a) for a in n.args) or (isinstance(n.func, ast.Attribute) and uses(n.func.value))):
                bad.append((n.lineno, ast.unparse(n)))
        if isinstance(n, ast.Subscript) and uses(n.value) and not isinstance(n.value, ast.Call):
            bad.append((n.lineno, ast.unparse(n)))
        if isinstance(n, ast.Attribute) and n.attr in ("name", "stem") and uses(n.value):
            bad.append((n.lineno, ast.unparse(n)))
    rets = [n for n in walk_no_nested_funcs(f.node) if isinstance(n, ast.Return) and n.value is not None]
    if not rets or not any(any(isinstance(x, ast.Name) and x.id in tainted for x in ast.walk(r.value)) for r in rets):
        res.add(f"{HG}|{f.name}|independent", f"{f.name} returns a guard that does not depend on `{param}`", HG, f.line, f.name)
    for line, src in bad[:1]:
        res.add(f"{HG}|{f.name}|lossy", f"{f.name} derives the include guard through `{src}`, which drops part of the module path: "
                "modules in different directories with the same file name get the same guard, and a translation unit including "
                "both headers loses the second one", HG, line, f.name)
    res.samples = [f"{f.name}: guard computed from the whole `{param}`"]
    res.analysed = [HG]
    return res


# ---------------------------------------------------------------------------------------------------------
def aliasctor(repo):
    """R-ALIASCTOR (C07): an alias field's accessor returns `decltype(this-><target>)()` when the alias is absent, i.e.
    it default-constructs the target's view type.  Physical field views are default-constructible; the view class
    generated for a computed virtual field declares its default constructor deleted.  write_inference makes `let b = a`
    an alias whatever `a` is, so an alias of a computed virtual field (`let a = x + 1`, or `let a = x` with `[requires]`)
    yields a header that does not compile.  Decided from the two templates and the alias branch of _add_write_method."""
    res = RuleResult("R-ALIASCTOR")
    tp = Templates(repo)
    need = ("structure_single_field_indirect_method_declarations", "structure_single_virtual_field_method_declarations")
    for n in need:
        if n not in tp:
            raise AnalysisError(f"template {n} vanished")
    alias_t = re.sub(r"//[^\n]*", "", tp[need[0]]["text"])
    virt_t = re.sub(r"//[^\n]*", "", tp[need[1]]["text"])
    default_constructs = bool(re.search(r"decltype\s*\(\s*this\s*->\s*\$\{aliased_field\}\s*\)\s*\(\s*\)", alias_t))
    deleted = bool(re.search(r"\$\{virtual_view_type_name\}\s*\(\s*\)\s*=\s*delete", virt_t))
    wi = repo.mod("compiler/front_end/write_inference.py")
    f = next((g for g in wi.top_funcs() if any(isinstance(n, ast.Call) and isinstance(n.func, ast.Attribute) and n.func.attr == "CopyFrom"
                                              and ast.unparse(n.func.value).endswith("write_method.alias") for n in walk_no_nested_funcs(g.node))), None)
    if f is None:
        raise AnalysisError("write_inference: alias assignment not found")
    # does the alias path look at whether the *referenced* field is virtual?
    ref_names = {n.targets[0].id for n in walk_no_nested_funcs(f.node) if isinstance(n, ast.Assign) and isinstance(n.targets[0], ast.Name)
                 and isinstance(n.value, ast.Call) and (call_name(n.value) or "").endswith("find_object")}
    excludes_virtual_target = any(isinstance(n, ast.Call) and (call_name(n) or "").endswith("field_is_virtual") and n.args
                                  and isinstance(n.args[0], ast.Name) and n.args[0].id in ref_names for n in walk_no_nested_funcs(f.node))
    res.instances += 3
    if default_constructs and deleted and not excludes_virtual_target:
        res.add(f"{TEMPLATES}|{need[0]}|default-constructs-virtual-view", "the alias accessor default-constructs the aliased field's view type, "
                "virtual view classes delete their default constructor, and _add_write_method aliases virtual targets too: "
                "`let a = x + 1` / `let b = a` is accepted and the header does not compile", TEMPLATES, tp[need[0]]["line"], need[0])
    res.samples = [f"alias default-constructs target: {default_constructs}; virtual view default ctor deleted: {deleted}; "
                   f"alias path excludes virtual targets: {excludes_virtual_target}"]
    res.analysed = [TEMPLATES, wi.rel]
    return res


def textsig(repo, templates):
    """R-TEXTSIG (C07): with --no-cc-enum-traits the generated header does not include emboss_text_util.h, so
    ::emboss::TextOutputOptions is only forward-declared there.  The views generated for virtual fields are ordinary
    nested classes whose member definitions are checked when the header is parsed, so a method of theirs may mention
    the type only behind a reference or pointer.  Every `WriteToTextStream` / `UpdateFromTextStream`-family method in a
    virtual-field template takes the options as `const ::emboss::TextOutputOptions &`, and the constant and non-constant
    virtual-field templates declare the same signature (siblings)."""
    res = RuleResult("R-TEXTSIG")
    sigs = {}
    for name, t in templates.templates.items():
        if "virtual_field" not in name:
            continue
        text = t["text"]
        for m in re.finditer(r"\b(WriteToTextStream|WriteShorthandToTextStream)\s*\(", text):
            i = m.end() - 1
            d, j = 0, i
            while j < len(text):
                if text[j] == "(":
                    d += 1
                elif text[j] == ")":
                    d -= 1
                    if d == 0:
                        break
                j += 1
            after = text[j + 1:j + 40]
            if not re.match(r"\s*(const)?\s*\{", after):
                continue                      # a call, not a definition
            params = " ".join(text[i + 1:j].split())
            sigs.setdefault(m.group(1), {})[name] = params
            res.instances += 1
            for p in params.split(","):
                if "TextOutputOptions" in p and not ("&" in p or "*" in p):
                    res.add(f"{TEMPLATES}|{name}|{m.group(1)}|by-value", f"template {name}: {m.group(1)} takes `{p.strip()}` by value; "
                            "::emboss::TextOutputOptions is an incomplete type in headers generated with --no-cc-enum-traits, so "
                            "the header does not compile (`has incomplete type`)", TEMPLATES, 0, name)
    for meth, per in sigs.items():
        vals = {re.sub(r"\s*&\s*", " &", v) for v in per.values()}
        if len(vals) > 1:
            res.add(f"{TEMPLATES}|{meth}|siblings", f"the virtual-field templates declare {meth} with different parameter lists: "
                    f"{sorted(vals)}", TEMPLATES, 0, meth)
    if res.instances < 2 and not res.findings:
        raise AnalysisError(f"only {res.instances} text-output methods found in the virtual-field templates")
    res.analysed = [TEMPLATES]
    return res


def constpresent(repo, templates):
    """R-CONSTPRESENT (C01): a template whose text hard-codes `has_${name}()` as `Maybe<bool>(true)` states that the field is
    always present.  The generator may select such a template only under a condition that implies the field's existence
    condition is the constant *true*: a conjunct that evaluates it (`ir_util.constant_value(<field>.existence_condition)`),
    not merely `.is_constant` -- `if false: let x = 7` is constant too."""
    res = RuleResult("R-CONSTPRESENT")
    hard = set()
    for name, t in templates.templates.items():
        if re.search(r"has_\$\{name\}\s*\(\s*\)\s*\{\s*return\s+::emboss::support::Maybe<(/\*\*/)?\s*bool>\(true\)", " ".join(t["text"].split())):
            hard.add(name)
    if not hard:
        raise AnalysisError("no template hard-codes has_${name}() == true any more (constant virtual fields restructured?)")
    hg = repo.mod("compiler/back_end/cpp/header_generator.py")
    for f in hg.funcs.values():
        for n in walk_no_nested_funcs(f.node):
            if not isinstance(n, ast.If):
                continue
            picked = {a.attr for st in n.body for a in ast.walk(st)
                      if isinstance(a, ast.Attribute) and isinstance(a.value, ast.Name) and a.value.id == "_TEMPLATES" and a.attr in hard}
            if not picked:
                continue
            res.instances += 1
            conj = n.test.values if isinstance(n.test, ast.BoolOp) and isinstance(n.test.op, ast.And) else [n.test]
            ok = any(isinstance(c, ast.Call) and (call_name(c) or "").split(".")[-1] == "constant_value"
                     and "existence_condition" in ast.unparse(c) for c in conj)
            if not ok:
                res.add(f"{hg.rel}|{f.qualname}|{sorted(picked)[0]}", f"{f.qualname} selects {sorted(picked)} (has_x() hard-coded to true) under "
                        f"`{ast.unparse(n.test)[:100]}`, which does not require the existence condition to be the constant true: "
                        "a field under `if false:` reports has_x() == true and is printed in text output", hg.rel, n.lineno, f.qualname)
            # the same templates hard-code `Ok() { return true; }`: they cannot carry a [requires], so the selection has
            # to exclude fields that have one (a conjunct `not ...get_attribute(<field>.attribute, "requires")`)
            okhard = {nm for nm in picked if re.search(r"\bOk\s*\(\s*\)\s*(?:const\s*)?\{\s*return\s+true\s*;", " ".join(templates.templates[nm]["text"].split()))}
            if okhard:
                res.instances += 1
                excl = any(isinstance(c, ast.UnaryOp) and isinstance(c.op, ast.Not) and "get_attribute" in ast.unparse(c.operand)
                           and "requires" in ast.unparse(c.operand).lower() for c in conj)
                if not excl:
                    res.add(f"{hg.rel}|{f.qualname}|{sorted(okhard)[0]}|requires", f"{f.qualname} selects {sorted(okhard)} (Ok() hard-coded to true) "
                            "for fields that may carry [requires]: `let version = 5` / `[requires: this == 6]` is accepted and both the "
                            "field and the structure report Ok()", hg.rel, n.lineno, f.qualname)
    if res.instances < 1 and not res.findings:
        raise AnalysisError("header_generator: the selection of the constant-virtual-field templates was not found")
    res.analysed = [hg.rel, TEMPLATES]
    return res


def textpair(repo, templates, facts=None):
    """R-TEXTPAIR (C06/C07): a write-through virtual field can have an integer, boolean or enum type.  Its view prints
    itself with Write<Kind>ViewToTextStream chosen by the type, so UpdateFromTextStream must parse with the reader of the
    same kind: the write template may not hard-wire one Read*FromTextStream, the generator's kind->reader table covers
    every kind the writer chain covers, and each entry names the reader of *that* kind (an existing runtime function).
    A hard-wired integer reader does not compile for enum fields and cannot re-read `true` for Flag fields."""
    res = RuleResult("R-TEXTPAIR")
    name = "structure_single_virtual_field_write_methods"
    if name not in templates.templates:
        raise AnalysisError(f"template {name} vanished")
    text = templates.templates[name]["text"]
    res.instances += 1
    um = re.search(r"UpdateFromTextStream\s*\([^)]*\)\s*(?:const\s*)?\{(.*?)\n    \}", text, re.S)
    if not um:
        raise AnalysisError(f"{name}: UpdateFromTextStream not found")
    hard = re.findall(r"\bRead\w+FromTextStream\b", um.group(1))
    ph = re.findall(r"\$\{(\w+)\}\s*\(", um.group(1))
    if hard or not ph:
        res.add(f"{TEMPLATES}|{name}|hard-wired", f"the write-through virtual field template parses text with a fixed `{(hard or ['?'])[0]}`: "
                "enum-typed fields do not compile ('cannot convert int to <Enum>') and Flag-typed ones cannot read `true`",
                TEMPLATES, 0, name)
    hg = repo.mod("compiler/back_end/cpp/header_generator.py")
    KIND = {"integer": "Integer", "boolean": "Boolean", "enumeration": "Enum"}
    writer_kinds, table = set(), None
    for f in hg.funcs.values():
        src = ast.unparse(f.node)
        if name not in src:
            continue
        for n in walk_no_nested_funcs(f.node):
            if isinstance(n, ast.Compare) and "which_type" in ast.unparse(n.left) and isinstance(n.comparators[0], ast.Constant):
                writer_kinds.add(n.comparators[0].value)
            if isinstance(n, ast.Dict) and n.keys and all(isinstance(k, ast.Constant) and k.value in KIND for k in n.keys) \
                    and all(isinstance(v, ast.Constant) and "FromTextStream" in str(v.value) for v in n.values):
                table = ({k.value: v.value for k, v in zip(n.keys, n.values)}, n.lineno, f)
    writer_kinds &= set(KIND)
    if not hard and table is None:
        raise AnalysisError("header_generator: the kind -> text reader table for write-through virtual fields was not found")
    if table:
        tb, line, f = table
        for k in sorted(writer_kinds | set(tb)):
            res.instances += 1
            if k not in tb:
                res.add(f"{hg.rel}|{f.qualname}|reader|{k}", f"no text reader for write-through virtual fields of kind {k} (the writer "
                        "chain handles it)", hg.rel, line, f.qualname)
            elif KIND[k] not in tb[k] or not tb[k].startswith("Read"):
                res.add(f"{hg.rel}|{f.qualname}|reader|{k}", f"kind {k} is parsed with `{tb[k]}`, which is not the {KIND[k]} reader",
                        hg.rel, line, f.qualname)
            elif facts is not None and not any(fn.name == tb[k] for fn in facts.functions):
                res.add(f"{hg.rel}|{f.qualname}|reader|{k}|missing", f"`{tb[k]}` does not exist in the runtime", hg.rel, line, f.qualname)
    res.analysed = [TEMPLATES, hg.rel]
    return res


def switchfit(repo):
    """R-SWITCHFIT (C07/C01): the optimized Ok() emits `switch (<discriminant>)` with `case <constant>:` labels.  The
    operand has the C++ type chosen from the discriminant's range; a label must be representable in it (a converted
    constant expression: a constant outside is a hard narrowing error, g++ and clang++, every standard).  So every path
    of _get_switch_candidate that hands out a (discriminant, case) pair passes a test that rejects the pair when the
    constant is outside the discriminant's [minimum_value, maximum_value]."""
    res = RuleResult("R-SWITCHFIT")
    hg = repo.mod("compiler/back_end/cpp/header_generator.py")
    fs = [f for f in hg.top_funcs() if f.name == "_get_switch_candidate"]
    if not fs:
        raise AnalysisError("header_generator._get_switch_candidate not found")
    f = fs[0]
    parents = {}
    for n in ast.walk(f.node):
        for c in ast.iter_child_nodes(n):
            parents[id(c)] = n

    def is_none_pair(r):
        return isinstance(r.value, ast.Tuple) and all(isinstance(e, ast.Constant) and e.value is None for e in r.value.elts)

    def range_reject(st):
        if not isinstance(st, ast.If):
            return False
        ordered = [c for c in ast.walk(st.test) if isinstance(c, ast.Compare)
                   and any(isinstance(o, (ast.Lt, ast.LtE, ast.Gt, ast.GtE)) for o in c.ops)]
        t = " ".join(ast.unparse(c) for c in ordered)
        direct = "minimum_value" in t and "maximum_value" in t and any(isinstance(x, ast.Return) and is_none_pair(x) for x in st.body)
        nested = any(range_reject(x) for x in st.body)
        return direct or nested

    for r in walk_no_nested_funcs(f.node):
        if not (isinstance(r, ast.Return) and isinstance(r.value, ast.Tuple) and len(r.value.elts) == 2) or is_none_pair(r):
            continue
        res.instances += 1
        ok = False
        node = r
        while id(node) in parents and not ok:
            par = parents[id(node)]
            for fld in ("body", "orelse"):
                blk = getattr(par, fld, None)
                if isinstance(blk, list) and node in blk:
                    ok = ok or any(range_reject(st) for st in blk[:blk.index(node)])
            node = par
        if not ok:
            res.add(f"{hg.rel}|_get_switch_candidate|range", f"_get_switch_candidate returns `{ast.unparse(r.value)}` (line {r.lineno}) without "
                    "having compared the constant with the discriminant's minimum_value/maximum_value: `if int32_field == "
                    "0xFFFF_FFFF` yields `case 4294967295:` on an int32_t operand -- the header does not compile once Ok() is used",
                    hg.rel, r.lineno, f.name)
    if res.instances < 1 and not res.findings:
        raise AnalysisError("_get_switch_candidate: no return of a (discriminant, case) pair found")
    res.analysed = [hg.rel]
    return res


def choicetype(repo, facts):
    """R-CHOICETYPE (C07/C01): agreement between the runtime's contract and the generator.  ::emboss::support::Choice
    static_asserts is_same<IntermediateT, ResultT>; the generic intermediate type covers the ranges of *all* arguments
    and is wider than the result type whenever the condition is a constant (the result then has the selected branch's
    range).  So _render_builtin_operation must, for FunctionMapping.CHOICE, set the intermediate type to the result type
    before it formats the template arguments."""
    res = RuleResult("R-CHOICETYPE")
    ch = [f for f in facts.functions if f.name == "Choice"]
    if not ch:
        raise AnalysisError("runtime: ::emboss::support::Choice not found")
    body = " ".join(ch[0].body.split())
    res.instances += 1
    if not re.search(r"static_assert\s*\(\s*(::)?std::is_same<\s*IntermediateT\s*,\s*ResultT\s*>::value", body):
        res.samples.append("Choice no longer requires IntermediateT == ResultT; nothing to agree on")
        return res
    hg = repo.mod("compiler/back_end/cpp/header_generator.py")
    fs = [f for f in hg.top_funcs() if f.name == "_render_builtin_operation"]
    if not fs:
        raise AnalysisError("header_generator._render_builtin_operation not found")
    f = fs[0]
    fmt_line = None
    for n in walk_no_nested_funcs(f.node):
        if isinstance(n, ast.Assign) and isinstance(n.targets[0], ast.Name) and n.targets[0].id == "function_variant":
            fmt_line = n.lineno
    if fmt_line is None:
        raise AnalysisError("_render_builtin_operation: the statement formatting the template arguments was not found")
    ok = False
    for n in walk_no_nested_funcs(f.node):
        if isinstance(n, ast.If) and "FunctionMapping.CHOICE" in ast.unparse(n.test) and n.lineno < fmt_line:
            for st in n.body:
                if isinstance(st, ast.Assign) and ast.unparse(st.targets[0]) == "intermediate_type" and ast.unparse(st.value) == "result_type":
                    ok = True
    res.instances += 1
    if not ok:
        res.add(f"{hg.rel}|_render_builtin_operation|choice", "Choice<IntermediateT, ResultT, ...> is instantiated with the generic "
                "intermediate type (covering all arguments) although the runtime requires IntermediateT == ResultT: `let v = true ? a "
                ": b` with a narrow a and a 64-bit b fails the runtime's static_assert when the field is used", hg.rel, fmt_line, f.name)
    res.analysed = [hg.rel, "runtime/cpp/emboss_arithmetic.h"]
    return res


def paramvis(repo, templates):
    """R-PARAMVIS (C07): front end / template agreement.  `_resolve_field_reference` looks the next component of `a.b` up
    among *all* members of a's type, runtime parameters included, so `inner.n` is accepted for a parameter n and rendered
    as `inner().n()` from the enclosing view class.  Either the resolver rejects a RuntimeParameter found by the member
    lookup, or the parameter accessor template declares `n()` under `public:`."""
    res = RuleResult("R-PARAMVIS")
    name = "structure_single_parameter_field_method_declarations"
    if name not in templates.templates:
        raise AnalysisError(f"template {name} vanished")
    text = templates.templates[name]["text"]
    m = re.search(r"^\s*(public|private|protected)\s*:", text, re.M)
    res.instances = 1
    if m and m.group(1) == "public":
        return res
    sr = repo.mod("compiler/front_end/symbol_resolver.py")
    f = [x for x in sr.top_funcs() if x.name == "_resolve_field_reference"]
    if not f:
        raise AnalysisError("symbol_resolver._resolve_field_reference not found")
    # a rejection of parameters *after* the member lookup: an isinstance(.., RuntimeParameter) test whose body appends an error,
    # located after the assignment from find_object_or_none(member_name, ...)
    lookup = [n.lineno for n in walk_no_nested_funcs(f[0].node) if isinstance(n, ast.Assign) and "member_name" in ast.unparse(n.value)
              and "find_object" in ast.unparse(n.value)]
    rejects = [n for n in walk_no_nested_funcs(f[0].node) if isinstance(n, ast.If) and "RuntimeParameter" in ast.unparse(n.test)
               and "errors.append" in ast.unparse(n) and lookup and n.lineno > min(lookup)]
    if not rejects:
        res.add(f"{TEMPLATES}|{name}|private", "runtime parameter accessors are declared `" + (m.group(1) if m else "?") + ":` but the front "
                "end accepts `inner.n` (member lookup finds parameters) and the back end renders it as `inner().n()` from another "
                "class: the header does not compile", TEMPLATES, templates.templates[name]["line"], name)
    res.analysed = [TEMPLATES, sr.rel]
    return res


def crossfriend(repo, templates):
    """R-CROSSFRIEND (C07): Generic<Name>View<A> and Generic<Name>View<B> are unrelated classes.  The view class has member
    templates over another storage (converting constructor, operator=, Equals, UncheckedEquals) whose generated bodies
    reach into the other instantiation: the parameter members (`other.x_`, `other.parameters_initialized_`, rendered by
    header_generator) live in the class's `private:` section, and fields whose visibility is "private" (members of an
    anonymous `bits`) are compared through `other.<field>()`.  As long as any of these accesses is generated, the class
    template must befriend its other instantiations, or `view = writer` / `view.Equals(writer)` does not compile."""
    res = RuleResult("R-CROSSFRIEND")
    name = "structure_view_class"
    if name not in templates.templates:
        raise AnalysisError(f"template {name} vanished")
    text = templates.templates[name]["text"]
    line0 = templates.templates[name]["line"]
    cross = re.findall(r"Generic\$\{name\}View<\s*OtherStorage\s*>", text)
    res.instances += 1
    if not cross:
        res.samples.append("no member template over another storage: nothing to befriend")
        return res
    m = repo.mod(HG)
    needs = []
    priv_at = re.search(r"^\s*private\s*:", text, re.M)
    private_part = text[priv_at.end():] if priv_at else ""
    for n in ast.walk(m.tree):
        if isinstance(n, ast.Constant) and isinstance(n.value, str) and "emboss_reserved_local_other." in n.value:
            res.instances += 1
            for mem in re.findall(r"emboss_reserved_local_other\.([\w{}]+)", n.value):
                # rendered into ${parameter_copy_*}; the members themselves are the ${parameter_fields} /
                # ${parameters_initialized_flag} placeholders of the private section
                if "parameter_fields" in private_part or "parameters_initialized_flag" in private_part:
                    needs.append((n.lineno, f"other.{mem} (a data member of the private section)"))
    vis = [f for f in m.top_funcs() if f.name == "_visibility_for_field"]
    if not vis:
        raise AnalysisError("header_generator._visibility_for_field vanished")
    if any(isinstance(n, ast.Constant) and n.value == "private" for n in ast.walk(vis[0].node)):
        for tn, t in templates.templates.items():
            if re.search(r"emboss_reserved_local_other\.(has_)?\$\{field\}", t["text"]):
                res.instances += 1
                needs.append((t["line"], f"template {tn}: other.${{field}}() of a field that _visibility_for_field makes private"))
    friend = re.search(r"template\s*<\s*(class|typename)\s+\w+\s*>\s*friend\s+class\s+Generic\$\{name\}View\s*;", text)
    if len(needs) < 2:
        raise AnalysisError(f"cross-storage accesses to private members found: {needs} (expected parameter members and private fields)")
    if not friend:
        res.add(f"{TEMPLATES}|{name}|friend", f"{name} has {len(cross)} member templates over Generic${{name}}View<OtherStorage> and the "
                f"generated code reaches {len(needs)} private members of the other instantiation (e.g. {needs[0][1]}), but the class "
                "no longer declares `template <class OtherStorage> friend class Generic${name}View;`: cross-storage construction, "
                "assignment and Equals of structures with parameters or anonymous bits do not compile", TEMPLATES, line0, name)
    res.samples = [f"{len(cross)} cross-storage members, {len(needs)} private accesses, friend declared: {bool(friend)}"]
    res.analysed = [TEMPLATES, HG]
    return res


def resubrepl(repo):
    """R-RESUBREPL (C07): in a replacement string of re.sub, `\\0` is the NUL character (an octal escape), not "the whole
    match" (that is `\\g<0>`).  No literal replacement passed to re.sub/re.subn in the compiler contains a backslash
    followed by `0`; the one user, _cpp_string_escape, builds #include lines from import file names."""
    res = RuleResult("R-RESUBREPL")
    for m in repo.modules.values():
        if not m.rel.startswith("compiler/"):
            continue
        for f in m.funcs.values():
            for n in walk_no_nested_funcs(f.node):
                if isinstance(n, ast.Call) and (call_name(n) or "") in ("re.sub", "re.subn") and len(n.args) >= 2:
                    res.instances += 1
                    r = n.args[1]
                    if isinstance(r, ast.Constant) and isinstance(r.value, str) and re.search(r"\\0(?![0-9])|\\00", r.value):
                        res.add(f"{m.rel}|{f.qualname}|nul-replacement", f"{f.qualname} calls re.sub with the replacement {r.value!r}: `\\0` "
                                "there is a NUL character, so every escaped character is replaced by backslash + NUL "
                                "(`import \"it's.emb\"` -> `#include \"it\\<NUL>s.emb.h\"`)", m.rel, n.lineno, f.qualname)
    if res.instances < 3 and not res.findings:
        raise AnalysisError(f"only {res.instances} re.sub calls found in the compiler")
    res.analysed = ["compiler/**/*.py"]
    return res


def paramcopy(repo, templates):
    """R-PARAMCOPY (C20/C01): the converting constructor and the converting `operator=` of a generated view are siblings:
    both must transfer the storage *and* the runtime parameters (each `<p>_` and `parameters_initialized_`).  Decided: the
    structure template's converting operator= contains the `${parameter_copy_assignments}` slot next to the storage
    assignment, and the generator appends to `parameter_copy_assignments` at every place where it appends to
    `parameter_copy_initializers` (same enclosing statement list), and hands the list to the template."""
    res = RuleResult("R-PARAMCOPY")
    sv = templates.templates.get("structure_view_class")
    if sv is None:
        raise AnalysisError("template structure_view_class vanished")
    text = sv["text"]
    res.instances += 1
    om = re.search(r"operator=\s*\(\s*const\s+Generic\$\{name\}View<OtherStorage>[^)]*\)\s*\{(.*?)\n  \}", text, re.S)
    if not om:
        raise AnalysisError("structure_view_class: converting operator= not found")
    if "${parameter_copy_assignments}" not in om.group(1):
        res.add(f"{TEMPLATES}|structure_view_class|operator=|parameters", "the converting operator= assigns the storage only; the "
                "converting constructor also copies the runtime parameters: after `v = w` a parameterised view is not Ok() (or "
                "keeps its old parameters and misreads the new buffer)", TEMPLATES, sv["line"], "structure_view_class")
    hg = repo.mod("compiler/back_end/cpp/header_generator.py")
    gen = None
    for f in hg.funcs.values():
        if "parameter_copy_initializers" in ast.unparse(f.node):
            gen = f
    if gen is None:
        raise AnalysisError("header_generator: the generator of parameter_copy_initializers was not found")

    def appends(listname):
        out = []
        parents = {}
        for n in ast.walk(gen.node):
            for c in ast.iter_child_nodes(n):
                parents[id(c)] = n
        for n in walk_no_nested_funcs(gen.node):
            if isinstance(n, ast.Expr) and isinstance(n.value, ast.Call) and isinstance(n.value.func, ast.Attribute) \
                    and n.value.func.attr == "append" and ast.unparse(n.value.func.value) == listname:
                out.append(id(parents[id(n)]))
        return out
    a, b = appends("parameter_copy_initializers"), appends("parameter_copy_assignments")
    res.instances += max(len(a), 1)
    if sorted(a) != sorted(b):
        res.add(f"{hg.rel}|{gen.qualname}|assignments", f"{gen.qualname} appends to parameter_copy_initializers in {len(a)} place(s) but to "
                f"parameter_copy_assignments in {len(b)} (or in other blocks): the assignment does not transfer everything the "
                "constructor does", hg.rel, gen.node.lineno, gen.qualname)
    if "parameter_copy_assignments=" not in ast.unparse(gen.node).replace(" ", ""):
        res.add(f"{hg.rel}|{gen.qualname}|not-passed", "parameter_copy_assignments is not handed to the structure template", hg.rel,
                gen.node.lineno, gen.qualname)
    res.analysed = [TEMPLATES, hg.rel]
    return res


def elemstorage(repo, facts=None):
    """R-ELEMSTORAGE (C07): generator/runtime agreement on the storage type of array elements.  GenericArrayView builds each
    element view over `BufferType::OffsetStorageType<kElementSize, 0>` (kElementSize in addressable units, the template
    argument the generator fills from `element_size=`).  The element view type the generator names must be declared over
    the same storage type, i.e. `_offset_storage_adapter(buffer_type, <the same element_size>, 0)`: with any other value
    (the size in bits) the two types differ in their alignment parameter as soon as the root buffer is aligned
    (MakeAligned...View<.., N> with N >= 2) and the header no longer compiles."""
    res = RuleResult("R-ELEMSTORAGE")
    hg = repo.mod("compiler/back_end/cpp/header_generator.py")
    gen = None
    for f in hg.funcs.values():
        if "array_view_adapter" in ast.unparse(f.node) and "_offset_storage_adapter" in ast.unparse(f.node):
            gen = f
    if gen is None:
        raise AnalysisError("header_generator: the array branch (array_view_adapter + _offset_storage_adapter) was not found")
    tmpl_arg = None
    adapters = []
    for n in walk_no_nested_funcs(gen.node):
        if isinstance(n, ast.Call) and (call_name(n) or "").endswith("format_template") and n.args and "array_view_adapter" in ast.unparse(n.args[0]):
            for k in n.keywords:
                if k.arg == "element_size":
                    tmpl_arg = k.value
            # the element view type is computed just before, in the same branch: collect adapters in the enclosing If
    parents = {}
    for n in ast.walk(gen.node):
        for c in ast.iter_child_nodes(n):
            parents[id(c)] = n
    if tmpl_arg is None:
        raise AnalysisError("array_view_adapter is not given `element_size=`")
    node = tmpl_arg
    branch = None
    while id(node) in parents:
        node = parents[id(node)]
        if isinstance(node, ast.If):
            branch = node
            break
    scope = branch.body if branch is not None else gen.node.body
    for st in scope:
        for n in ast.walk(st):
            if isinstance(n, ast.Call) and (call_name(n) or "") == "_offset_storage_adapter" and len(n.args) == 3:
                adapters.append(n)
    res.instances = 1 + len(adapters)
    if not adapters:
        res.add(f"{hg.rel}|{gen.qualname}|no-adapter", "the element view type is not declared over an offset storage type", hg.rel,
                gen.node.lineno, gen.qualname)
    for a in adapters:
        if ast.unparse(a.args[1]) != ast.unparse(tmpl_arg) or ast.unparse(a.args[2]) != "0":
            res.add(f"{hg.rel}|{gen.qualname}|adapter-alignment", f"the element view is declared over OffsetStorageType<{ast.unparse(a.args[1])}, "
                    f"{ast.unparse(a.args[2])}> but GenericArrayView creates elements over OffsetStorageType<{ast.unparse(tmpl_arg)}, 0> "
                    "(its kElementSize): the types differ for aligned root buffers and the header does not compile", hg.rel, a.lineno, gen.qualname)
    if facts is not None:
        av = [m for m in facts.methods if m.cls.endswith("GenericArrayView") and "OffsetStorageType" in m.body]
        if av and not any(re.search(r"OffsetStorageType\s*<\s*kElementSize\s*,\s*0\s*>", " ".join(m.body.split())) for m in av):
            res.add("runtime/cpp/emboss_array_view.h|GenericArrayView|element-storage", "GenericArrayView no longer builds elements over "
                    "OffsetStorageType<kElementSize, 0>", "runtime/cpp/emboss_array_view.h", 0, "GenericArrayView")
    res.analysed = [hg.rel, "runtime/cpp/emboss_array_view.h"]
    return res


def charstream(templates):
    """R-CHARSTREAM (C19): an enum's underlying type is `uint8_t`/`int8_t` when maximum_bits <= 8, and those are character
    types for `operator<<`.  Wherever a template streams `static_cast<underlying_type<...>::type>(value)` into an ostream
    the value has to be promoted first (unary `+`, or a cast to a wider integer type); otherwise unnamed values of small
    enums print as a raw character while every other enum prints the number."""
    res = RuleResult("R-CHARSTREAM")
    for name, t in templates.templates.items():
        text = " ".join(re.sub(r"//[^\n]*", "", t["text"]).split())
        for m in re.finditer(r"<<\s*(\+?)\s*static_cast<\s*(/\*\*/)?\s*(::)?std::underlying_type<[^>]*>::type\s*>", text):
            res.instances += 1
            if m.group(1) != "+":
                res.add(f"{TEMPLATES}|{name}|char-stream", f"template {name} streams an enum's underlying value without promoting it: for "
                        "maximum_bits <= 8 the underlying type is (u)int8_t and ostream prints a character (`os << Small(66)` "
                        "gives \"B\")", TEMPLATES, t["line"], name)
    if res.instances < 1 and not res.findings:
        raise AnalysisError("no template streams an enum's underlying value any more")
    res.analysed = [TEMPLATES]
    return res


def enumunique(repo, schema=None, sites=None):
    """R-ENUMUNIQUE (C19/C07): snake/SHOUTY -> kCamelCase is not injective (underscores vanish), and one value can have
    several case spellings, so uniqueness of the *generated* enumerator names is a property of the whole enum that only the
    back end can check.  Decided: `_propagate_defaults_and_verify_attributes` runs, after the `enum_case` defaults have
    been propagated, a traversal over [Enum] whose action walks `enum.value`, obtains the names from the same function
    the emitter uses (`_get_enum_value_names`) and appends an error when a name repeats."""
    from . import traversal as T
    from ..irschema import Schema
    res = RuleResult("R-ENUMUNIQUE")
    hg = repo.mod(HG)
    drv = [f for f in hg.top_funcs() if f.name == "_propagate_defaults_and_verify_attributes"]
    if not drv:
        raise AnalysisError("header_generator._propagate_defaults_and_verify_attributes not found")
    res.instances = 2
    prop_line = None
    uniq = None
    for n in walk_no_nested_funcs(drv[0].node):
        if isinstance(n, ast.Call) and (call_name(n) or "") == "_propagate_defaults":
            prop_line = n.lineno
        if isinstance(n, ast.Call) and (call_name(n) or "").endswith("fast_traverse_ir_top_down") and len(n.args) >= 3 \
                and ast.unparse(n.args[1]).replace(" ", "") == "[ir_data.Enum]" and isinstance(n.args[2], ast.Name):
            act = hg.funcs.get(n.args[2].id)
            if act is not None:
                src = ast.unparse(act.node)
                if "_get_enum_value_names" in src and "errors.append" in src and ".value" in src:
                    uniq = (n, act)
    if uniq is None:
        res.add(f"{HG}|_propagate_defaults_and_verify_attributes|no-uniqueness-check", "no traversal over [Enum] checks that the generated "
                "enumerator names of an enum are pairwise different: `ADC_1` and `ADC1` under kCamelCase both become kAdc1 and the "
                "header does not compile", HG, drv[0].node.lineno, drv[0].name)
    elif prop_line is None or uniq[0].lineno < prop_line:
        res.add(f"{HG}|_propagate_defaults_and_verify_attributes|before-defaults", "the uniqueness check runs before the enum_case "
                "defaults are propagated, so it sees SHOUTY_CASE names only", HG, uniq[0].lineno, drv[0].name)
    else:
        # duplicates must be recognised by identity of the *name*, first use remembered
        src = ast.unparse(uniq[1].node)
        if not re.search(r"setdefault\(|\bin\s+\w+", src):
            res.add(f"{HG}|{uniq[1].name}|no-comparison", f"{uniq[1].name} does not compare a name with the names seen so far", HG,
                    uniq[1].node.lineno, uniq[1].name)
    res.analysed = [HG]
    return res


def virtnarrow(repo):
    """R-VIRTNARROW (C03): the view class generated for a write-through virtual field declares its write methods with
    the field's own C++ type (`int32_t` ... `uint64_t`), so an integer argument of another type is converted at the
    call, before `CouldWriteValue` can look at it: `a1().TryToWrite(int64_t{4294967301})` stored 5 and `e0().TryToWrite(-1)`
    stored 0xffffffff.  As for UIntView / IntView / BcdView (R-NARROWARG), the value the caller wrote has to reach a
    check unconverted: (a) the write-method template carries a placeholder that the generator fills, for every
    integer-typed field, from an overload template; (b) that template declares CouldWriteValue, TryToWrite and Write
    over a template parameter type, and the first two test the representability of the argument (a call of one
    static predicate over the unconverted argument) before any `static_cast` to the field's type; (c) the predicate
    compares against numeric_limits of the field's type on both sides (negative and non-negative)."""
    res = RuleResult("R-VIRTNARROW")
    tp = Templates(repo)
    wname = "structure_single_virtual_field_write_methods"
    if wname not in tp:
        raise AnalysisError(f"template {wname} vanished")
    wt = re.sub(r"//[^\n]*", "", tp[wname]["text"])
    hg = repo.mod("compiler/back_end/cpp/header_generator.py")
    # which placeholder of the write template is filled from another template under an `integer` test?
    filler = None
    for f in hg.top_funcs():
        for n in walk_no_nested_funcs(f.node):
            if isinstance(n, ast.If) and "integer" in ast.unparse(n.test) and "which_type" in ast.unparse(n.test):
                for a in ast.walk(n):
                    if isinstance(a, ast.Assign) and isinstance(a.targets[0], ast.Name) and isinstance(a.value, ast.Call) \
                            and (call_name(a.value) or "").endswith("format_template") and a.value.args:
                        tname = ast.unparse(a.value.args[0]).split(".")[-1]
                        var = a.targets[0].id
                        # is `var` handed to the write template?
                        for c in walk_no_nested_funcs(f.node):
                            if isinstance(c, ast.Call) and (call_name(c) or "").endswith("format_template") and c.args \
                                    and ast.unparse(c.args[0]).endswith(wname):
                                for k in c.keywords:
                                    if isinstance(k.value, ast.Name) and k.value.id == var:
                                        filler = (k.arg, tname, n.lineno)
    res.instances += 1
    if filler is None or ("${" + filler[0] + "}") not in tp[wname]["text"]:
        res.add(f"{TEMPLATES}|{wname}|no-integer-overloads", "the write methods of a virtual field take the field's own C++ type only and the "
                "generator adds no overloads for integer-typed fields: an out-of-range argument is narrowed at the call "
                "(`TryToWrite(int64_t{4294967301})` on an int32_t field stores 5) before CouldWriteValue sees it",
                TEMPLATES, tp[wname]["line"], wname)
        res.analysed = [TEMPLATES, hg.rel]
        return res
    oname = filler[1]
    if oname not in tp:
        raise AnalysisError(f"template {oname} named by the generator does not exist")
    ot = re.sub(r"//[^\n]*", "", tp[oname]["text"])
    ot = re.sub(r"/\*\*/", "", ot)
    # split into member functions: `template <...> <ret> Name(<one parameter>) {body}`
    meths = {}
    for mm in re.finditer(r"template\s*<((?:[^<>]|<(?:[^<>]|<(?:[^<>]|<[^<>]*>)*>)*>)*)>\s*(?:static\s+constexpr\s+)?(bool|void)\s+(\w+)\s*\(\s*(\w+)\s+(\w+)\s*\)\s*(?:const\s*)?\{", ot):
        start = mm.end()
        depth, i = 1, start
        while i < len(ot) and depth:
            depth += {"{": 1, "}": -1}.get(ot[i], 0)
            i += 1
        meths[mm.group(3)] = (mm.group(1), mm.group(4), mm.group(5), ot[start:i - 1])
    pred = None
    for meth in ("CouldWriteValue", "TryToWrite", "Write"):
        res.instances += 1
        if meth not in meths:
            res.add(f"{TEMPLATES}|{oname}|{meth}|missing", f"{oname} has no templated {meth}: the argument of the non-template "
                    f"{meth}(${{logical_type}}) is narrowed at the call", TEMPLATES, tp[oname]["line"], oname)
            continue
        tparams, ptype, pname, body = meths[meth]
        if not re.search(r"typename\s+" + re.escape(ptype) + r"\b", tparams):
            res.add(f"{TEMPLATES}|{oname}|{meth}|not-templated", f"{oname}: {meth} takes `{ptype}`, which is not a template parameter",
                    TEMPLATES, tp[oname]["line"], oname)
            continue
        if meth == "Write":
            if not re.search(r"\bTryToWrite\s*\(\s*" + re.escape(pname) + r"\s*\)", body):
                res.add(f"{TEMPLATES}|{oname}|Write|forward", f"{oname}: Write does not hand its unconverted argument to TryToWrite",
                        TEMPLATES, tp[oname]["line"], oname)
            continue
        cast = re.search(r"static_cast\s*<", body)
        chk_ = re.search(r"\b(\w+)\s*\(\s*" + re.escape(pname) + r"\s*\)\s*&&", body)
        if not chk_ or (cast and chk_.start() > cast.start()):
            res.add(f"{TEMPLATES}|{oname}|{meth}|unchecked-cast", f"{oname}: {meth} converts its argument to the field's type without first "
                    "testing that it is representable (`Fits(v) && ...static_cast...`)", TEMPLATES, tp[oname]["line"], oname)
        else:
            pred = pred or chk_.group(1)
            if chk_.group(1) != pred:
                res.add(f"{TEMPLATES}|{oname}|{meth}|predicate", f"{oname}: {meth} uses `{chk_.group(1)}`, CouldWriteValue uses `{pred}`",
                        TEMPLATES, tp[oname]["line"], oname)
    res.instances += 1
    if pred and pred in meths:
        body = meths[pred][3]
        pn = meths[pred][2]
        ok = re.search(re.escape(pn) + r"\s*<\s*0\s*\?", body) and "is_signed" in body and re.search(r">=\s*static_cast<\s*::std::int64_t>\(\s*::std::numeric_limits<\s*\$\{logical_type\}>::min\(\)", body) \
            and re.search(r"<=\s*static_cast<\s*::std::uint64_t>\(\s*::std::numeric_limits<\s*\$\{logical_type\}>::max\(\)", body)
        if not ok:
            res.add(f"{TEMPLATES}|{oname}|{pred}|shape", f"{oname}: the representability predicate `{pred}` no longer has the shape "
                    "`v < 0 ? (signed && int64(v) >= int64(min)) : uint64(v) <= uint64(max)` over numeric_limits of the field's type",
                    TEMPLATES, tp[oname]["line"], oname)
    elif not res.findings:
        res.add(f"{TEMPLATES}|{oname}|predicate|missing", f"{oname}: no representability predicate found", TEMPLATES, tp[oname]["line"], oname)
    res.samples = [f"{wname}: ${{{filler[0]}}} <- {oname} for integer fields (header_generator.py:{filler[2]}); predicate {pred}"]
    res.analysed = [TEMPLATES, hg.rel]
    return res


def virtok(repo):
    """R-VIRTOK (C01): "a field exists iff its condition holds".  Physical fields and aliases under a false `if` are
    handed out as null views (R-ACCESSOR); the view class of a *computed* virtual field is always constructed, so its
    own methods have to consult `has_<name>()`.  References to a field from other expressions are rendered as
    `x.Ok() ? Maybe(x.UncheckedRead()) : Maybe()`, so `Ok()` is what makes dependants of an absent field unknown: in
    the template `structure_single_virtual_field_method_declarations`, `Ok()` returns false when
    `!view_.has_${name}().ValueOr(false)` *before* it evaluates MaybeRead(), and Read() CHECKs the same predicate
    (the two agree: Read() may not abort right after Ok() said the field is readable)."""
    res = RuleResult("R-VIRTOK")
    tp = Templates(repo)
    name = "structure_single_virtual_field_method_declarations"
    if name not in tp:
        raise AnalysisError(f"template {name} vanished")
    text = re.sub(r"//[^\n]*", "", tp[name]["text"])

    def body_of(sig):
        m = re.search(sig + r"\s*\(\s*\)\s*const\s*\{", text)
        if not m:
            return None
        depth, i = 1, m.end()
        while i < len(text) and depth:
            depth += {"{": 1, "}": -1}.get(text[i], 0)
            i += 1
        return text[m.end():i - 1]
    ok = body_of(r"\bbool\s+Ok")
    rd = body_of(r"\$\{logical_type\}\s+Read")
    if ok is None or rd is None:
        raise AnalysisError(f"{name}: Ok() / Read() not recognised")
    res.instances = 2
    pres = r"view_\s*\.\s*has_\$\{name\}\s*\(\s*\)\s*\.\s*ValueOr\s*\(\s*false\s*\)"
    pm = re.search(r"if\s*\(\s*!\s*" + pres + r"\s*\)\s*(?:\{\s*)?return\s+false\s*;", ok) or \
        re.search(r"return\s+" + pres + r"\s*&&", ok)
    mr = ok.find("MaybeRead(")
    if not pm or (mr >= 0 and pm.start() > mr):
        res.add(f"{TEMPLATES}|{name}|Ok|presence", "Ok() of a computed virtual field does not test `view_.has_${name}()` before evaluating the "
                "expression: under a false `if` the field is Ok() (and Read() aborts on its own CHECK), and every expression that "
                "mentions it -- other fields' conditions, $size_in_bytes -- silently uses the value it would have",
                TEMPLATES, tp[name]["line"], name)
    if not re.search(r"EMBOSS_CHECK\s*\(\s*" + pres + r"\s*\)", rd):
        res.add(f"{TEMPLATES}|{name}|Read|presence", "Read() of a computed virtual field no longer CHECKs `has_${name}()`",
                TEMPLATES, tp[name]["line"], name)
    res.analysed = [TEMPLATES]
    return res


def includename(repo):
    """R-INCLUDENAME (C07): the name in `#include "..."` is a header-name, not a string literal: no escape sequences are
    processed (g++ looks for a file whose name contains the backslash), and a name containing `"` or a line break cannot
    be written.  (a) What header_generator hands to the `include` template as `file_name` is the imported file's name
    itself plus a suffix -- not the result of a call (an escaping function: `bob's_types.emb` became `bob\\'s_types.emb.h`,
    file not found).  (b) Names that cannot be written are diagnosed: a function reached from generate_header tests
    `'"' in <import>.file_name.text` and appends an error."""
    res = RuleResult("R-INCLUDENAME")
    hg = repo.mod("compiler/back_end/cpp/header_generator.py")
    n_inc = 0
    for f in hg.funcs.values():
        for c in walk_no_nested_funcs(f.node):
            if isinstance(c, ast.Call) and (call_name(c) or "").endswith("format_template") and c.args \
                    and ast.unparse(c.args[0]).endswith("_TEMPLATES.include"):
                n_inc += 1
                res.instances += 1
                for k in c.keywords:
                    if k.arg == "file_name" and any(isinstance(x, ast.Call) for x in ast.walk(k.value)):
                        res.add(f"{hg.rel}|{f.qualname}|include-transformed", f"{f.qualname} writes `{ast.unparse(k.value)[:60]}` into #include \"...\": "
                                "header names have no escape sequences, so a transformed name (a backslash before `'`) names a "
                                "different file and the generated header does not compile", hg.rel, c.lineno, f.qualname)
    if n_inc < 2:
        raise AnalysisError(f"header_generator: only {n_inc} uses of the include template found")
    res.instances += 1
    checker = None
    for f in hg.funcs.values():
        src = ast.unparse(f.node)
        if "foreign_import" in src and re.search(r"""['"]\\?"['"]\s+in\s+\w+\.file_name\.text""", src) and "errors.append" in src:
            checker = f
    reached = False
    if checker is not None:
        # called (transitively, two levels) from generate_header
        gh = [f for f in hg.top_funcs() if f.name == "generate_header"]
        names = set()
        frontier = {gh[0].name} if gh else set()
        byname = {f.name: f for f in hg.top_funcs()}
        for _ in range(3):
            nxt = set()
            for nm in frontier:
                for c in walk_no_nested_funcs(byname[nm].node):
                    if isinstance(c, ast.Call) and (call_name(c) or "") in byname:
                        nxt.add(call_name(c))
            names |= nxt
            frontier = nxt
        reached = checker.name in names
    if checker is None or not reached:
        res.add(f"{hg.rel}|generate_header|unwritable-include", "no check reached from generate_header rejects an imported file name that "
                "contains a double quote: `import \"q\\\"x.emb\"` yields `#include \"q\"x.emb.h\"`", hg.rel, 0, "generate_header")
    res.analysed = [hg.rel]
    return res


def constwrite(repo, facts=None):
    """R-CONSTWRITE (C07/C06): siblings agree on the interface.  The scalar views of the runtime (UIntView, IntView,
    FlagView ...) declare TryToWrite, Write, UncheckedWrite, CouldWriteValue and UpdateFromTextStream `const` -- a view
    is a handle, writing goes to the buffer -- and the C++ reference documents them that way; `::emboss::UpdateFromText`
    takes its view by const reference.  The view class generated for a write-through virtual field must declare the same
    methods const, otherwise `UpdateFromText(v.y(), "17")` and `const auto f = v.y(); f.Write(1);` compile for physical
    fields and not for virtual ones.  The obligation is read from UIntView; if a runtime method there is not const, it is
    not demanded of the template."""
    res = RuleResult("R-CONSTWRITE")
    prelude = re.sub(r"//[^\n]*", "", repo.read("runtime/cpp/emboss_prelude.h"))
    m = re.search(r"\bclass\s+UIntView\s+final\s*\{", prelude)
    if not m:
        raise AnalysisError("emboss_prelude.h: class UIntView not found")
    depth, i = 1, m.end()
    while i < len(prelude) and depth:
        depth += {"{": 1, "}": -1}.get(prelude[i], 0)
        i += 1
    uint = prelude[m.end():i]
    wanted = [meth for meth in ("TryToWrite", "Write", "UncheckedWrite", "CouldWriteValue", "UpdateFromTextStream")
              if re.search(r"\b" + meth + r"\s*\([^)]*\)\s*const\b", uint)
              or re.search(r"\bstatic\s+(?:constexpr\s+)?\w+\s+" + meth + r"\s*\(", uint)]   # static: callable on a const view too
    if len(wanted) < 3:
        raise AnalysisError(f"UIntView: only {wanted} are const methods")
    tp = Templates(repo)
    for tname in ("structure_single_virtual_field_write_methods", "structure_single_virtual_field_integer_write_overloads"):
        if tname not in tp:
            if tname.endswith("write_methods"):
                raise AnalysisError(f"template {tname} vanished")
            continue
        text = re.sub(r"//[^\n]*", "", tp[tname]["text"])
        for meth in wanted:
            for mm in re.finditer(r"\b(?:bool|void)\s+" + meth + r"\s*\(([^)]*)\)\s*(const\b)?\s*\{", text):
                res.instances += 1
                if not mm.group(2):
                    res.add(f"{TEMPLATES}|{tname}|{meth}|non-const", f"{tname}: `{meth}({' '.join(mm.group(1).split())[:40]})` is not const, "
                            f"UIntView::{meth} is: code that writes through a const view or `::emboss::UpdateFromText(view.field(), ...)` "
                            "compiles for physical fields and not for write-through virtual fields", TEMPLATES, tp[tname]["line"], tname)
    if res.instances < 5:
        raise AnalysisError(f"only {res.instances} write methods recognised in the virtual-field templates")
    # the text writers of the runtime's scalar views take the options by const reference (FlagView, the enum view and the
    # generated views do; the reference documents it): with a non-const reference a const options object or a temporary
    # (`x().WriteToTextStream(&s, ::emboss::TextOutputOptions())`) compiles for some field kinds only
    nw = 0
    for mm in re.finditer(r"\bvoid\s+WriteToTextStream\s*\(\s*Stream\s*\*\s*\w+\s*,\s*(const\s+)?(?:::emboss::)?TextOutputOptions\s*&\s*\w+\s*\)", prelude):
        nw += 1
        res.instances += 1
        if not mm.group(1):
            line = prelude[:mm.start()].count("\n") + 1
            cls = re.findall(r"\bclass\s+(\w+)\s+final\s*\{", prelude[:mm.start()])
            res.add(f"runtime/cpp/emboss_prelude.h|{cls[-1] if cls else '?'}|WriteToTextStream|options-non-const",
                    f"{cls[-1] if cls else '?'}::WriteToTextStream takes `TextOutputOptions &` (non-const): a const options object or a "
                    "temporary does not bind, while FlagView, enum and generated views take `const TextOutputOptions &`",
                    "runtime/cpp/emboss_prelude.h", line, cls[-1] if cls else "")
    if nw < 4:
        raise AnalysisError(f"emboss_prelude.h: only {nw} WriteToTextStream methods recognised")
    res.analysed = [TEMPLATES, "runtime/cpp/emboss_prelude.h"]
    return res


def fieldreader(repo):
    """R-FIELDREADER (C16/C07): _render_expression hands field references to `reader.render_field` and `$present(...)` to
    `reader.render_existence`; which reader is used depends on where the expression sits (structure view, virtual view,
    [requires] validator).  Every class of header_generator.py that implements one of the two methods implements both,
    and neither is a stub that asserts: inside `[requires]` the front end accepts `$present(this)`, which is constant
    (and never rendered) for an unconditional field but a run-time expression for a conditional one -- the validator's
    reader used to `assert False` there."""
    res = RuleResult("R-FIELDREADER")
    hg = repo.mod(HG)
    classes = [n for n in ast.walk(hg.tree) if isinstance(n, ast.ClassDef)]
    readers = []
    for c in classes:
        meths = {st.name: st for st in c.body if isinstance(st, ast.FunctionDef)}
        if "render_field" in meths or "render_existence" in meths:
            readers.append((c, meths))
    if len(readers) < 3:
        raise AnalysisError(f"header_generator: only {len(readers)} field-reader classes found")
    bases = {c.name: [ast.unparse(b) for b in c.bases] for c, _ in readers}
    for c, meths in readers:
        for need in ("render_field", "render_existence"):
            res.instances += 1
            inherited = any(b in {k.name for k, mm in readers if need in mm} for b in bases[c.name])
            if need not in meths and not inherited and not c.name.startswith("_FieldRenderer"):
                res.add(f"{hg.rel}|{c.name}|{need}|missing", f"field reader {c.name} has no {need}", hg.rel, c.lineno, c.name)
            if need in meths:
                for n in ast.walk(meths[need]):
                    if isinstance(n, ast.Assert) and isinstance(n.test, ast.Constant) and not n.test.value:
                        res.add(f"{hg.rel}|{c.name}|{need}|stub", f"{c.name}.{need} is `assert False`: an expression the front end accepts in that "
                                "position (`[requires: $present(this) && this < 5]` on a conditional field) ends the back end with "
                                "AssertionError", hg.rel, n.lineno, f"{c.name}.{need}")
    res.analysed = [hg.rel]
    return res


def qualns(repo):
    """R-QUALNS (C07): the constants and validators of a structure `Foo` live in `namespace Foo` next to the view class
    `GenericFooView`.  Inside that class (and in its member functions) the bare name `Foo` is looked up in class scope
    first, where a nested or inline enum of the same name (`struct Mode: 0 [+1] enum mode: ...` -> `using Mode = ...`)
    or the template parameter hides the namespace: `Foo::IntrinsicSizeInBytes()` then names a member of the enum.
    Decided: no template refers to the type's namespace by the bare `${parent_type}::`, and the validator type handed
    to the view templates is built from `_get_fully_qualified_namespace(...)`."""
    res = RuleResult("R-QUALNS")
    tp = Templates(repo)
    res.instances = 2
    for name_, t in sorted(tp.templates.items()):
        text = re.sub(r"//[^\n]*", "", t["text"])
        for mm in re.finditer(r"(?<![:\w}])\$\{parent_type\}::", text):
            res.add(f"{TEMPLATES}|{name_}|relative-namespace", f"template {name_} refers to the type's namespace as `${{parent_type}}::...` from inside the "
                    "view class: a nested or inline enum with the structure's own name (or a structure named like the template "
                    "parameter) hides the namespace and the header does not compile", TEMPLATES, t["line"], name_)
            break
    hg = repo.mod(HG)
    f = hg.funcs.get("_generate_validator_type_for")
    if f is None:
        raise AnalysisError("header_generator._generate_validator_type_for not found")
    ok = False
    for n in walk_no_nested_funcs(f.node):
        if isinstance(n, ast.Call) and isinstance(n.func, ast.Attribute) and n.func.attr == "format" and isinstance(n.func.value, ast.Constant) \
                and n.func.value.value == "{}::{}" and n.args and isinstance(n.args[0], ast.Call) \
                and (call_name(n.args[0]) or "").endswith("_get_fully_qualified_namespace"):
            ok = True
    if not ok:
        res.add(f"{hg.rel}|_generate_validator_type_for|relative", "_generate_validator_type_for names the validator `<Type>::EmbossReservedValidatorFor...` "
                "relative to the bare type name: inside the view class a nested enum of the same name hides the namespace", hg.rel, f.node.lineno, f.name)
    res.analysed = [TEMPLATES, hg.rel]
    return res
