"""R-CPPRANGE (C03, C02): the range predicates and mask constants of the runtime denote the language-level
ranges for every width.

`CouldWriteValue` of UIntView / IntView / BcdView / EnumView is a conjunction whose conjuncts compare the value
with an integer expression over `Parameters::kBits` and the view's value type.  The rule splits the
conjunction, folds each comparand with the typed C++ constant folder (sa/cppexpr.py: promotions, usual
arithmetic conversions, modular unsigned arithmetic, lazy ?: && ||, undefined behaviour reported) for every
legal width and value type, and compares with 0..2^k-1, -2^(k-1)..2^(k-1)-1, the BCD maximum of k bits, and
2^k for enums.  The mask of `MaskToNBits` and the read-modify-write mask of `OffsetBitBlock::MaskInValue` are
folded for every (width, offset, size).  No predicate is evaluated on a candidate value: only the constants the
value is compared with are computed."""
from __future__ import annotations

import re

from .. import cppexpr as X
from ..cppast import CppFacts
from ..report import AnalysisError, RuleResult

PRELUDE = "runtime/cpp/emboss_prelude.h"


def _least(k):
    for w in (8, 16, 32, 64):
        if k <= w:
            return w
    raise ValueError(k)


def _return_expr(m):
    body = re.sub(r"//[^\n]*", "", m.body)
    body = re.sub(r"static_cast<void>\(\w+\);", "", body)
    mm = re.fullmatch(r"\s*\{\s*return\s+(.*);\s*\}\s*", body, re.S)
    if not mm:
        raise AnalysisError(f"{m.cls}::{m.name}: body is not a single return statement")
    return mm.group(1)


def _conjuncts(e):
    if e[0] == "bin" and e[1] == "&&":
        return _conjuncts(e[2]) + _conjuncts(e[3])
    return [e]


def _mentions(e, name):
    if isinstance(e, tuple):
        if e[0] == "name" and e[1] == name:
            return True
        return any(_mentions(x, name) for x in e[1:])
    if isinstance(e, list):
        return any(_mentions(x, name) for x in e)
    return False


_CASTLIKE = set()   # names of helper functions whose body is a chain of casts of their only parameter


def _strip_casts(e):
    while isinstance(e, tuple) and e[0] == "call" and e[1] in _CASTLIKE and len(e[3]) == 1:
        e = e[3][0]
    return _strip_casts_plain(e)


def _strip_casts_plain(e):
    while e[0] == "cast":
        e = e[2]
    return e


def _bound_of(conj, var):
    """('<=', E) / ('>=', E) / ('<', E) when conj is `[cast](var) OP E`; None otherwise."""
    if conj[0] == "bin" and conj[1] in ("<=", ">=", "<", ">"):
        l, r = conj[2], conj[3]
        if _strip_casts(l) == ("name", var, None) and not _mentions(r, var):
            return conj[1], r
        if _strip_casts(r) == ("name", var, None) and not _mentions(l, var):
            return {"<=": ">=", ">=": "<=", "<": ">", ">": "<"}[conj[1]], l
    return None


def _is_value_ok(conj):
    return conj[0] == "call" and conj[1].endswith("ValueIsOk")


TYPES = ("ValueType", "BitViewType::ValueType", "IntT")


def _fold(e, env, what, res, key, file, line, fn):
    try:
        return X.evaluate(e, env)
    except X.UB as u:
        res.add(key + "|ub", f"{what}: undefined behaviour while folding the bound: {u}", file, line, fn)
    except X.Unsupported as u:
        raise AnalysisError(f"{what}: {u}")
    return None


def cpprange(facts: CppFacts, parts=("write", "mask", "keepmask"), ub_only=False):
    """`ub_only`: keep only the findings about undefined behaviour met while folding (bad shifts, signed overflow) --
    what C04 is about; wrong-but-defined bounds and masks concern C02/C03."""
    res = RuleResult("R-CPPRANGE")

    def method(cls, name):
        ms = [m for m in facts.method(cls, name)]
        if not ms:
            raise AnalysisError(f"{cls}::{name} vanished")
        return ms[0]

    # helper functions available to the folder
    functions = {}
    for fn in facts.functions:
        if fn.name in ("MaxBcd", "MaskToNBits"):
            try:
                expr = X.function_from_source(fn.body, None, None)
            except X.Unsupported as u:
                raise AnalysisError(f"{fn.name}: {u}")
            tparam = "ValueType" if fn.name == "MaxBcd" else "T"
            params = [((tparam if p[0].strip() in (tparam,) else re.sub(r"^(const )?", "", p[0]).strip()), p[1]) for p in fn.params]
            params = [(pt if pt in (tparam, "int", "unsigned") else "int", pn) for pt, pn in params]
            functions[fn.name] = (params, X.parse(expr, type_names={tparam}), tparam, (tparam,))
    for need in ("MaxBcd", "MaskToNBits"):
        if need not in functions:
            raise AnalysisError(f"helper {need} not found")

    def env_for(value_t, k, bv_t=None, extra=None):
        types = {"ValueType": value_t, "BitViewType::ValueType": bv_t or X.T(False, value_t.bits), "IntT": X.LONG}
        values = {"Parameters::kBits": X.V(X.INT, k), "is_signed::value": X.V(X.BOOL, 1)}
        values.update(extra or {})
        return X.Env(values, types, functions)

    def split(cls, var="value"):
        m = method(cls, "CouldWriteValue")
        e = X.parse(_return_expr(m), type_names=TYPES)
        return m, _conjuncts(e)

    if "write" in parts:
        # ---- UIntView --------------------------------------------------------------------------------------
        m, conj = split("UIntView")
        lows, highs, other = [], [], []
        for c in conj:
            b = _bound_of(c, "value")
            if b and b[0] in (">=", ">"):
                lows.append(b)
            elif b:
                highs.append(b)
            elif not _is_value_ok(c):
                other.append(c)
        if other or len(highs) > 1 or len(lows) > 1:
            raise AnalysisError(f"UIntView::CouldWriteValue: unrecognised conjunct structure ({len(lows)} lower, {len(highs)} upper, {len(other)} other)")
        if not highs:
            res.add(f"{m.file}|UIntView::CouldWriteValue|no-upper-bound", "UIntView::CouldWriteValue compares the value with no upper bound: "
                    "values that do not fit the field are accepted and truncated", m.file, m.line, "UIntView::CouldWriteValue")
        if not lows:
            res.add(f"{m.file}|UIntView::CouldWriteValue|no-lower-bound", "UIntView::CouldWriteValue has no `value >= 0` conjunct: the upper "
                    "bound is tested after static_cast<uint64_t>, so for a 64-bit field (bound 2^64-1) every negative signed argument "
                    "is accepted and stored as a huge value", m.file, m.line, "UIntView::CouldWriteValue")
        for k in range(1, 65):
            vt = X.T(False, _least(k))
            env = env_for(vt, k)
            res.instances += 2
            key = f"{m.file}|UIntView::CouldWriteValue|k={k}"
            hi = _fold(highs[0][1], env, f"UIntView<{k}> upper bound", res, key, m.file, m.line, "UIntView::CouldWriteValue") if highs else None
            lo = _fold(lows[0][1], env, f"UIntView<{k}> lower bound", res, key, m.file, m.line, "UIntView::CouldWriteValue") if lows else None
            if hi is not None:
                # the comparison is made after converting both sides to a common type with static_cast<uint64_t>(value)
                hv = X.convert(hi, X.ULONG).v if hi.v >= 0 else None
                want = (1 << k) - 1
                got = hv if highs[0][0] == "<=" else (hv - 1 if hv is not None else None)
                if got != want:
                    res.add(key + "|max", f"UIntView of {k} bits accepts values up to {got} (bound folds to {hi}); a {k}-bit unsigned field "
                            f"holds 0..{want}", m.file, m.line, "UIntView::CouldWriteValue")
            if lo is not None:
                got = lo.v if lows[0][0] == ">=" else lo.v + 1
                if got != 0:
                    res.add(key + "|min", f"UIntView of {k} bits accepts values from {got}; must be 0", m.file, m.line, "UIntView::CouldWriteValue")

        # ---- IntView ---------------------------------------------------------------------------------------
        m, conj = split("IntView")
        lows, highs, other = [], [], []
        for c in conj:
            b = _bound_of(c, "value")
            if b is None and c[0] == "bin" and c[1] == "||":
                # !is_signed<IntT> || value >= E : the lower bound applies to signed argument types
                l, r = c[2], c[3]
                bb = _bound_of(r, "value")
                if bb and not _mentions(l, "value"):
                    b = bb
            if b and b[0] in (">=", ">"):
                lows.append(b)
            elif b:
                highs.append(b)
            elif not _is_value_ok(c):
                other.append(c)
        if other or len(highs) > 1 or len(lows) > 1:
            raise AnalysisError(f"IntView::CouldWriteValue: unrecognised conjunct structure ({len(lows)} lower, {len(highs)} upper, {len(other)} other)")
        for missing, what in ((not highs, "upper"), (not lows, "lower")):
            if missing:
                res.add(f"{m.file}|IntView::CouldWriteValue|no-{what}-bound", f"IntView::CouldWriteValue compares the value with no {what} bound: "
                        "values outside the two's complement range of the field are accepted and truncated", m.file, m.line, "IntView::CouldWriteValue")
        if not highs or not lows:
            highs = highs or [("<=", ("lit", "0"))]
            lows = lows or [(">=", ("lit", "0"))]
        for k in range(1, 65):
            vt = X.T(True, _least(k))
            env = env_for(vt, k)
            res.instances += 2
            key = f"{m.file}|IntView::CouldWriteValue|k={k}"
            hi = _fold(highs[0][1], env, f"IntView<{k}> upper bound", res, key, m.file, m.line, "IntView::CouldWriteValue")
            lo = _fold(lows[0][1], env, f"IntView<{k}> lower bound", res, key, m.file, m.line, "IntView::CouldWriteValue")
            if hi is not None:
                got = hi.v if highs[0][0] == "<=" else hi.v - 1
                want = (1 << (k - 1)) - 1
                if got != want:
                    res.add(key + "|max", f"IntView of {k} bits accepts values up to {got}; a {k}-bit two's complement field holds up to {want}",
                            m.file, m.line, "IntView::CouldWriteValue")
            if lo is not None:
                got = lo.v if lows[0][0] == ">=" else lo.v + 1
                want = -(1 << (k - 1))
                if got != want:
                    res.add(key + "|min", f"IntView of {k} bits accepts values from {got}; a {k}-bit two's complement field starts at {want}",
                            m.file, m.line, "IntView::CouldWriteValue")

        # ---- BcdView ---------------------------------------------------------------------------------------
        m, conj = split("BcdView")
        bounds = [b for b in (_bound_of(c, "value") for c in conj) if b]
        highs = [b for b in bounds if b[0] in ("<=", "<")]
        blows = [b for b in bounds if b[0] in (">=", ">")]
        other = [c for c in conj if _bound_of(c, "value") is None and not _is_value_ok(c)]
        if other or len(highs) != 1 or len(blows) > 1:
            raise AnalysisError("BcdView::CouldWriteValue: unrecognised conjunct structure")
        # a templated argument (any integer type) needs the explicit `value >= 0`; a ValueType argument is unsigned already
        cw = method("BcdView", "CouldWriteValue")
        templated = not re.search(r"\bValueType\s+value\b", getattr(cw, "decl_text", "") or "")
        if blows:
            res.instances += 1
            lo0 = _fold(blows[0][1], env_for(X.T(False, 8), 8), "BcdView lower bound", res, f"{m.file}|BcdView::CouldWriteValue|min",
                        m.file, m.line, "BcdView::CouldWriteValue")
            if lo0 is not None and (lo0.v if blows[0][0] == ">=" else lo0.v + 1) != 0:
                res.add(f"{m.file}|BcdView::CouldWriteValue|min", "BcdView accepts values from a lower bound other than 0", m.file, m.line,
                        "BcdView::CouldWriteValue")
        mv = method("BcdView", "MaxValue")
        functions["MaxValue"] = ([], X.parse(_return_expr(mv), type_names=TYPES), "ValueType", ())
        for k in range(1, 65):
            vt = X.T(False, _least(k))
            env = env_for(vt, k)
            res.instances += 1
            key = f"{m.file}|BcdView::CouldWriteValue|k={k}"
            hi = _fold(highs[0][1], env, f"BcdView<{k}> upper bound", res, key, m.file, m.line, "BcdView::CouldWriteValue")
            if hi is not None:
                n, r = divmod(k, 4)
                want = ((1 << r) - 1) * 10 ** n + 10 ** n - 1
                got = hi.v if highs[0][0] == "<=" else hi.v - 1
                if got != want:
                    res.add(key + "|max", f"BcdView of {k} bits accepts values up to {got}; {n} full decimal digit(s) and a {r}-bit top "
                            f"digit hold up to {want}", m.file, m.line, "BcdView::CouldWriteValue")

    if "write" in parts or "enum" in parts:
        # private one-expression helpers of EnumView (ToBits: the value's bit pattern in the enum's own width,
        # zero-extended to the storage integer) are inlined by the folder like MaskToNBits
        for hm in facts.by_class("EnumView"):
            if hm.name in ("CouldWriteValue", "TryToWrite", "Write", "Read", "UncheckedRead", "UncheckedWrite", "Ok", "IsComplete") or hm.name in functions:
                continue
            if not re.search(r"\b" + hm.name + r"\s*\(", method("EnumView", "CouldWriteValue").body):
                continue
            try:
                hexpr = X.function_from_source(hm.body, None, None)
                def _pt(t_):
                    t_ = re.sub(r"^(const )?", "", t_).strip()
                    t_ = re.sub(r"^typename\s+", "", t_)
                    if t_.endswith("BitViewType::ValueType"):
                        return "BitViewType::ValueType"
                    return "ValueType" if t_.endswith("ValueType") else t_
                hparams = [(_pt(p_[0]), p_[1]) for p_ in hm.params]
                parsed = X.parse(hexpr, type_names=TYPES)
                functions[hm.name] = (hparams, parsed, "BitViewType::ValueType", ())
                if len(hparams) == 1 and _strip_casts_plain(parsed) == ("name", hparams[0][1], None):
                    _CASTLIKE.add(hm.name)
            except X.Unsupported as u:
                raise AnalysisError(f"EnumView::{hm.name}: {u}")
        # ---- EnumView --------------------------------------------------------------------------------------
        m, conj = split("EnumView")
        bounds = []
        roundtrips = []
        width_conjuncts = []
        for c in conj:
            if _is_value_ok(c):
                continue
            if c[0] == "bin" and c[1] == "==" and _mentions(c, "value"):
                roundtrips.append(c)
                continue  # round trip through the storage type (a): evaluated below
            if c[0] == "bin" and c[1] == "||" and not _mentions(c[2], "value") and _bound_of(c[3], "value"):
                bounds.append((c[2], _bound_of(c[3], "value")))
                width_conjuncts.append(c)
                continue
            raise AnalysisError("EnumView::CouldWriteValue: unrecognised conjunct structure")
        if len(bounds) != 1:
            raise AnalysisError("EnumView::CouldWriteValue: no width bound found")
        full, (op, bexpr) = bounds[0]
        for w in (8, 16, 32, 64):
            for k in range(1, w + 1):
                env = env_for(X.LONG, k, bv_t=X.T(False, w))
                res.instances += 1
                key = f"{m.file}|EnumView::CouldWriteValue|w={w}|k={k}"
                f_ = _fold(full, env, f"EnumView<{k} in {w}> full-width test", res, key, m.file, m.line, "EnumView::CouldWriteValue")
                if f_ is None:
                    continue
                if f_.v:
                    if k != w:
                        res.add(key + "|full", f"EnumView treats a {k}-bit field in a {w}-bit block as full width: any value is accepted",
                                m.file, m.line, "EnumView::CouldWriteValue")
                    continue
                b = _fold(bexpr, env, f"EnumView<{k} in {w}> bound", res, key, m.file, m.line, "EnumView::CouldWriteValue")
                if b is not None:
                    got = b.v - 1 if op == "<" else b.v
                    if got != (1 << k) - 1:
                        res.add(key + "|max", f"EnumView of {k} bits in a {w}-bit block accepts values up to {got}; the field holds up to {(1 << k) - 1}",
                                m.file, m.line, "EnumView::CouldWriteValue")

        # conjunct (a): "the value survives the conversion to the storage integer and back".  Evaluated with C++ semantics
        # (promotions, usual arithmetic conversions) for every underlying type of an enum and every block type, on the
        # extreme and the small values of the underlying type; the oracle is plain arithmetic: (U)(B)v == v.
        if len(roundtrips) != 1:
            raise AnalysisError(f"EnumView::CouldWriteValue: {len(roundtrips)} round-trip conjuncts (expected 1)")
        for ubits in (8, 16, 32, 64):
            for usigned in (True, False):
                U = X.T(usigned, ubits)
                lo = -(1 << (ubits - 1)) if usigned else 0
                hi = (1 << (ubits - 1)) - 1 if usigned else (1 << ubits) - 1
                for w in (8, 16, 32, 64):
                    B = X.T(False, w)
                    for v in sorted({lo, lo + 1, -1 if usigned else 0, 0, 1, hi - 1, hi, (1 << (w - 1)) if (1 << (w - 1)) <= hi else hi}):
                        if not lo <= v <= hi:
                            continue
                        res.instances += 1
                        bv = v % (1 << w)
                        back = bv % (1 << ubits)
                        if usigned and back >= (1 << (ubits - 1)):
                            back -= 1 << ubits
                        want = back == v
                        env = X.Env({"Parameters::kBits": X.V(X.INT, w), "value": X.V(U, v)},
                                    {"ValueType": U, "BitViewType::ValueType": B, "IntT": X.LONG}, functions)
                        key = f"{m.file}|EnumView::CouldWriteValue|roundtrip|{'i' if usigned else 'u'}{ubits}|w={w}"
                        r_ = _fold(roundtrips[0], env, f"EnumView round trip {('int' if usigned else 'uint')}{ubits}_t in uint{w}_t value {v}", res, key,
                                   m.file, m.line, "EnumView::CouldWriteValue")
                        if r_ is not None and bool(r_.v) != want:
                            res.add(key + "|value", f"EnumView::CouldWriteValue: the 'fits the storage integer' test answers {bool(r_.v)} for the value {v} of an "
                                    f"enum over {'int' if usigned else 'uint'}{ubits}_t stored through uint{w}_t; converting there and back "
                                    f"{'preserves' if want else 'changes'} the value (mixed-sign comparison after integer promotion?)",
                                    m.file, m.line, "EnumView::CouldWriteValue")
                            break

        # "enum fields accept any in-range value": a field exactly as wide as the enum's underlying type (k == its width)
        # holds every value of that type, negative ones included, in whatever block it sits (an int8_t enum in an 8-bit
        # field of a 16-bit `bits`): both value conjuncts are true for every sample value
        for ubits in (8, 16, 32, 64):
            for usigned in (True, False):
                U = X.T(usigned, ubits)
                lo = -(1 << (ubits - 1)) if usigned else 0
                hi = (1 << (ubits - 1)) - 1 if usigned else (1 << ubits) - 1
                for w in (8, 16, 32, 64):
                    if w < ubits:
                        continue
                    B = X.T(False, w)
                    for v in sorted({lo, -1 if usigned else 0, 0, 1, hi}):
                        res.instances += 1
                        env = X.Env({"Parameters::kBits": X.V(X.INT, ubits), "value": X.V(U, v)},
                                    {"ValueType": U, "BitViewType::ValueType": B, "IntT": X.LONG}, functions)
                        key = f"{m.file}|EnumView::CouldWriteValue|fullwidth|{'i' if usigned else 'u'}{ubits}|w={w}"
                        vals = [_fold(cj, env, f"EnumView full-width {('int' if usigned else 'uint')}{ubits}_t in uint{w}_t value {v}", res, key,
                                      m.file, m.line, "EnumView::CouldWriteValue") for cj in roundtrips + width_conjuncts]
                        if any(x is not None and not x.v for x in vals):
                            res.add(key + "|rejects", f"EnumView::CouldWriteValue rejects the value {v} of an enum over {'int' if usigned else 'uint'}{ubits}_t in a "
                                    f"{ubits}-bit field carried by a uint{w}_t block: the field is as wide as the type, every value fits "
                                    "(the value is cast to the block's unsigned type without first reducing it to the enum's own width)",
                                    m.file, m.line, "EnumView::CouldWriteValue")
                            break

        # what is written is what was bounded: TryToWrite / UncheckedWrite hand buffer_.(Unchecked)WriteUInt the same
        # conversion of `value` that the width conjunct of CouldWriteValue compares with 2^k
        cw = method("EnumView", "CouldWriteValue")
        bm = re.search(r"\(\s*([^()]*(?:\([^()]*\))?[^()]*?)\s*<\s*\(\s*\(\s*static_cast", " ".join(cw.body.split()))
        bounded = re.sub(r"\s+", "", bm.group(1)) if bm else None
        for wname, call in (("TryToWrite", "WriteUInt"), ("UncheckedWrite", "UncheckedWriteUInt")):
            wm_ = method("EnumView", wname)
            res.instances += 1
            am = re.search(r"buffer_\s*\.\s*" + call + r"\s*\((.*)\)\s*;", " ".join(wm_.body.split()))
            written = re.sub(r"\s+", "", am.group(1)) if am else None
            if bounded is None or written is None:
                raise AnalysisError(f"EnumView::{wname}: written value / bounded value not recognised")
            if written != bounded:
                res.add(f"{wm_.file}|EnumView::{wname}|written-vs-bounded", f"EnumView::{wname} writes `{written[:60]}` while CouldWriteValue bounds "
                        f"`{bounded[:60]}`: a value accepted by the check can be written with bits above the field's width set "
                        "(OffsetBitBlock::WriteUInt then CHECK-fails or overwrites neighbours)", wm_.file, wm_.line, f"EnumView::{wname}")

    if "mask" in parts:
        # ---- MaskToNBits -----------------------------------------------------------------------------------
        mk = X.parse("MaskToNBits(probe, bits)")
        fnm = next(f for f in facts.functions if f.name == "MaskToNBits")
        for w in (8, 16, 32, 64):
            t = X.T(False, w)
            for bits in range(0, 65):
                env = X.Env({"probe": X.V(t, t.hi), "bits": X.V(X.UINT, bits)}, {}, functions)
                res.instances += 1
                key = f"{fnm.file}|MaskToNBits|w={w}|bits={bits}"
                r = _fold(mk, env, f"MaskToNBits<uint{w}_t>(~0, {bits})", res, key, fnm.file, fnm.line, "MaskToNBits")
                if r is not None:
                    want = t.hi if bits >= w else (1 << bits) - 1
                    if r.v != want:
                        res.add(key + "|mask", f"MaskToNBits<uint{w}_t>(all ones, {bits}) folds to {r.v:#x}; the low {bits} bits are {want:#x}",
                                fnm.file, fnm.line, "MaskToNBits")

    if "keepmask" in parts:
        # ---- OffsetBitBlock::MaskInValue -------------------------------------------------------------------
        mi = method("OffsetBitBlock", "MaskInValue")
        body = re.sub(r"//[^\n]*", "", mi.body)
        mm = re.search(r"\boriginal_mask\s*=\s*(.*?);", body, re.S)
        if not mm:
            raise AnalysisError("OffsetBitBlock::MaskInValue: original_mask not found")
        mexpr = X.parse(mm.group(1), type_names=TYPES)
        for w in (8, 16, 32, 64):
            t = X.T(False, w)
            for size in range(1, w + 1):
                for off in range(0, w - size + 1):
                    if w == 64 and (off % 7 and size % 5):  # thin the 64-bit grid: 2 080 -> ~900 points, all edges kept
                        if not (off in (0, 1) or off + size in (w, w - 1) or size in (1, w)):
                            continue
                    env = X.Env({"size_": X.V(X.T(False, 8), size), "offset_": X.V(X.T(False, 8), off)}, {"ValueType": t}, functions)
                    res.instances += 1
                    key = f"{mi.file}|OffsetBitBlock::MaskInValue|w={w}|off={off}|size={size}"
                    r = _fold(mexpr, env, f"MaskInValue<uint{w}_t> offset {off} size {size}", res, key, mi.file, mi.line, "OffsetBitBlock::MaskInValue")
                    if r is not None:
                        want = t.hi & ~(((1 << size) - 1) << off)
                        if X.convert(r, t).v != want:
                            res.add(f"{mi.file}|OffsetBitBlock::MaskInValue|w={w}|mask", f"the keep-mask for a {size}-bit field at bit {off} of a "
                                    f"{w}-bit block folds to {X.convert(r, t).v:#x}; the bits outside the field are {want:#x}: a write "
                                    "changes (or fails to clear) neighbouring bits", mi.file, mi.line, "OffsetBitBlock::MaskInValue")
    if ub_only:
        res.findings = [f for f in res.findings if f.construct.endswith("|ub")]
    res.samples = ["UIntView/IntView/BcdView bounds folded for k = 1..64; EnumView for every (block, k); MaskToNBits and MaskInValue masks"]
    res.analysed = [PRELUDE, "runtime/cpp/emboss_enum_view.h", "runtime/cpp/emboss_bit_util.h", "runtime/cpp/emboss_memory_util.h"]
    return res


def loopcover(facts: CppFacts, methods=("ConvertToBinary", "ConvertToBcd")):
    """R-LOOPCOVER (C02/C03): the digit loops of BcdView visit every bit of the field.  The loop header
    `for (int s = A; COND; s += N)` is unrolled symbolically for every width k = 1..64 (only the induction variable is
    followed; the body is not evaluated): the nibbles [s, s+N) visited must cover bits 0..k-1, start inside the field,
    and not repeat.  A bound such as `s + 4 <= kBits` silently drops a partial top digit (widths that are not a
    multiple of four)."""
    res = RuleResult("R-LOOPCOVER")
    for mname in methods:
        ms = facts.method("BcdView", mname)
        if not ms:
            raise AnalysisError(f"BcdView::{mname} vanished")
        m = ms[0]
        body = re.sub(r"//[^\n]*", "", m.body)
        loops = re.findall(r"for\s*\(\s*(?:int|unsigned|::std::size_t|auto)\s+(\w+)\s*=\s*([^;]+);([^;]+);\s*([^)]+)\)", body)
        if not loops:
            raise AnalysisError(f"BcdView::{mname}: no counted loop found")
        for var, init, cond, step in loops:
            sm = re.fullmatch(r"\s*" + var + r"\s*\+=\s*(\d+)\s*|\s*\+\+" + var + r"\s*|\s*" + var + r"\+\+\s*", step)
            if not sm:
                raise AnalysisError(f"BcdView::{mname}: loop step `{step.strip()}` not recognised")
            n = int(sm.group(1)) if sm.group(1) else 1
            try:
                cexpr = X.parse(cond, type_names=TYPES)
                iexpr = X.parse(init, type_names=TYPES)
            except X.Unsupported as u:
                raise AnalysisError(f"BcdView::{mname}: {u}")
            bad = None
            for k in range(1, 65):
                res.instances += 1
                env = X.Env({"Parameters::kBits": X.V(X.INT, k)}, {"ValueType": X.T(False, _least(k))}, {})
                try:
                    s = X.evaluate(iexpr, env).v
                    visited = []
                    for _ in range(200):
                        env.values[var] = X.V(X.INT, s)
                        if not X.evaluate(cexpr, env).v:
                            break
                        visited.append(s)
                        s += n
                except (X.UB, X.Unsupported) as u:
                    raise AnalysisError(f"BcdView::{mname}: {u}")
                covered = set()
                for s in visited:
                    covered |= set(range(s, s + n))
                missing = [b for b in range(k) if b not in covered]
                outside = [s for s in visited if s >= k or s < 0]
                if (missing or outside) and bad is None:
                    bad = (k, visited, missing, outside)
            if bad:
                k, visited, missing, outside = bad
                what = f"bits {missing} of a {k}-bit field are never visited" if missing else f"digit positions {outside} lie outside a {k}-bit field"
                res.add(f"{m.file}|BcdView::{mname}|cover", f"BcdView::{mname}: with `{cond.strip()}` the loop visits shifts {visited} for "
                        f"kBits = {k}: {what} (first failing width; a partial top digit is "
                        f"{'ignored when reading' if mname == 'ConvertToBinary' else 'not written'})", m.file, m.line, f"BcdView::{mname}")
            elif len(res.samples) < 2:
                res.samples.append(f"BcdView::{mname}: `{cond.strip()}` step {n} covers bits 0..k-1 for k = 1..64")
    res.analysed = [PRELUDE]
    return res


def signconv(facts: CppFacts):
    """R-SIGNCONV (C02): IntView::ConvertToSigned (the branch compiled on two's-complement targets) is one integer
    expression over the raw field bits.  It is folded with the typed C++ folder — integer promotions matter here: for
    8- and 16-bit value types the operands of the shifts are `int`, so the truncating cast has to sit between the two
    shifts — for every block width, every field width k and the five bit patterns that delimit the two sign classes
    (0, 1, 2^(k-1)-1, 2^(k-1), 2^k-1); the result must be the k-bit two's-complement value of the pattern.  Local
    `constexpr` constants in front of the return are bound first."""
    res = RuleResult("R-SIGNCONV")
    ms = facts.method("IntView", "ConvertToSigned")
    if not ms:
        raise AnalysisError("IntView::ConvertToSigned vanished")
    m = ms[0]
    body = re.sub(r"//[^\n]*", "", m.body)
    mm = re.search(r"#if\s+EMBOSS_SYSTEM_IS_TWOS_COMPLEMENT(.*?)#else", body, re.S)
    if not mm:
        raise AnalysisError("ConvertToSigned: the two's-complement branch was not found")
    branch = mm.group(1)
    consts = re.findall(r"(?:static\s+)?(?:constexpr|const)\s+(?:\w+(?:::\w+)*\s+)+(\w+)\s*=\s*([^;]+);", branch)
    rm = re.search(r"return\s+(.*?);", branch, re.S)
    if not rm:
        raise AnalysisError("ConvertToSigned: no return in the two's-complement branch")
    pnames = [p[1] for p in m.params]
    dname = pnames[0] if pnames else "data"
    try:
        cexprs = [(n, X.parse(e, type_names=TYPES)) for n, e in consts]
        rexpr = X.parse(rm.group(1), type_names=TYPES)
    except X.Unsupported as u:
        raise AnalysisError(f"ConvertToSigned: {u}")
    bad = None
    for w in (8, 16, 32, 64):
        bv = X.T(False, w)
        for k in range(1, w + 1):
            vt = X.T(True, _least(k))
            for probe in sorted({0, 1, (1 << (k - 1)) - 1, 1 << (k - 1), (1 << k) - 1}):
                if probe >= (1 << k):
                    continue
                res.instances += 1
                env = X.Env({"Parameters::kBits": X.V(X.INT, k), dname: X.V(bv, probe)},
                            {"ValueType": vt, "BitViewType::ValueType": bv}, {})
                want = probe - (1 << k) if probe >> (k - 1) else probe
                try:
                    for n, e in cexprs:
                        env.values[n] = X.evaluate(e, env)
                    got = X.evaluate(rexpr, env)
                    got = X.convert(got, vt).v
                except X.UB as u:
                    got = f"undefined behaviour ({u})"
                except X.Unsupported as u:
                    raise AnalysisError(f"ConvertToSigned: {u}")
                if got != want and bad is None:
                    bad = (w, k, probe, got, want, vt)
    if bad:
        w, k, probe, got, want, vt = bad
        res.add(f"{m.file}|IntView::ConvertToSigned|sign-extension", f"IntView::ConvertToSigned: a {k}-bit field holding {probe:#x} "
                f"(value type {vt!r}, {w}-bit block) converts to {got}; its two's-complement value is {want}.  With `int` promotion "
                "the truncation to the value type has to happen between the left and the right shift", m.file, m.line, "IntView::ConvertToSigned")
    res.samples = [f"ConvertToSigned: `{' '.join(rm.group(1).split())}`"]
    res.analysed = [PRELUDE]
    return res


def bcdmasks(facts: CppFacts):
    """R-BCDMASK (C02): `IsBcd` tests all nibbles in parallel with two constants, 0x66..6 and 0x88..8, that must span the
    whole value type.  The sub-expressions of its test that do not depend on the value are folded with the typed
    folder for `unsigned` and `uint64_t` (the two types the function is evaluated in): both constants must appear
    at full width — a constant computed in `unsigned` leaves the upper eight nibbles of a 64-bit Bcd unchecked."""
    res = RuleResult("R-BCDMASK")
    fn = [f for f in facts.functions if f.name == "IsBcd"]
    if not fn:
        raise AnalysisError("IsBcd vanished")
    f = fn[0]
    body = re.sub(r"//[^\n]*|/\*.*?\*/", "", f.body, flags=re.S)
    rets = re.findall(r"return\s+(.*?);", body, re.S)
    rets = [r for r in rets if "==" in r and "IsBcd" not in r]
    if not rets:
        raise AnalysisError("IsBcd: the nibble test was not found")
    pname = f.params[0][1] if f.params else "x"
    try:
        e = X.parse(rets[-1], type_names={"ValueType"})
    except X.Unsupported as u:
        raise AnalysisError(f"IsBcd: {u}")

    def mentions(node):
        if isinstance(node, tuple):
            if node[0] == "name" and node[1] == pname:
                return True
            return any(mentions(c) for c in node[1:])
        if isinstance(node, list):
            return any(mentions(c) for c in node)
        return False

    consts = []

    def collect(node):
        if not isinstance(node, tuple):
            return
        if not mentions(node):
            if node[0] != "lit":
                consts.append(node)
            return
        for c in node[1:]:
            if isinstance(c, tuple):
                collect(c)
            elif isinstance(c, list):
                for d in c:
                    collect(d)
    collect(e)
    if len(consts) < 2:
        raise AnalysisError(f"IsBcd: only {len(consts)} value-independent sub-expressions found")
    for w in (32, 64):
        t = X.T(False, w)
        vals = set()
        for c in consts:
            try:
                v = X.evaluate(c, X.Env({}, {"ValueType": t}, {}))
                vals.add((v.v, v.t.bits))
            except X.UB as u:
                res.add(f"{f.file}|IsBcd|ub|{w}", f"IsBcd<{t!r}>: undefined behaviour in a constant: {u}", f.file, f.line, "IsBcd")
            except X.Unsupported as u:
                raise AnalysisError(f"IsBcd: {u}")
        for name, digit in (("0x66..6", 6), ("0x88..8", 8)):
            res.instances += 1
            want = int(str(digit) * (w // 4), 16)
            if (want, w) not in vals and not any(v == want for v, _ in vals):
                got = sorted(hex(v) for v, _ in vals)
                res.add(f"{f.file}|IsBcd|{name}|{w}", f"IsBcd<{t!r}>: the constant {name} is not computed at the full {w}-bit width (constants "
                        f"found: {got}): nibbles above the constant's width are never compared with 9, so a Bcd field with an invalid "
                        "high digit is Ok() and reads as garbage", f.file, f.line, "IsBcd")
    res.samples = [f"IsBcd: {len(consts)} constants folded for unsigned and uint64_t"]
    res.analysed = [PRELUDE]
    return res


_NARROW_ALLONES = re.compile(r"~\s*0\s*[uU]?(?![0-9a-zA-Z_])(?!\s*[lL])|~\s*\(?\s*unsigned\s*\)?\s*\(?\s*0\s*\)?")


def narrowlit(facts: CppFacts, skip=None):
    """R-NARROWLIT (C02/C03): an all-ones mask in the runtime has to be as wide as the value type it is applied to
    (`~ValueType{0}`).  `~0`, `~0u`, `~0U` are 32 bits wide: combined with a 64-bit value they leave the upper half
    unmasked or unchecked.  No runtime header may contain one outside comments.  The pattern is exercised on a built-in
    positive example on every run."""
    res = RuleResult("R-NARROWLIT")
    sample = "return static_cast<ValueType>(~0U) & x; // and ~0u / 0xf, (~0) too"
    if len(_NARROW_ALLONES.findall(re.sub(r"//[^\n]*", "", sample))) != 1 or not _NARROW_ALLONES.search("~0u / 0xf") \
            or _NARROW_ALLONES.search("~ValueType{0}") or _NARROW_ALLONES.search("~0ULL"):
        raise AnalysisError("R-NARROWLIT: built-in example no longer matches as expected")
    res.control_fired = True
    for h in facts.headers:
        rel = f"runtime/cpp/{h}"
        src = re.sub(r"//[^\n]*|/\*.*?\*/", lambda m_: " " * len(m_.group(0)) if "\n" not in m_.group(0) else re.sub(r"[^\n]", " ", m_.group(0)),
                     facts.repo.read(rel), flags=re.S)
        res.instances += 1
        for mm in _NARROW_ALLONES.finditer(src):
            line = src.count("\n", 0, mm.start()) + 1
            ctx = src[max(0, mm.start() - 30):mm.end() + 20].replace("\n", " ")
            fn = next((f_.name for f_ in facts.functions + facts.methods if f_.file == rel and f_.begin <= mm.start() < f_.end), "")
            res.add(f"{rel}|{fn}|narrow-all-ones", f"{rel}:{line} uses a 32-bit all-ones literal (`...{ctx.strip()}...`): applied to a 64-bit value "
                    "type the upper 32 bits are not covered by the mask", rel, line, fn)
    if skip is not None:
        res.findings = [x for x in res.findings if not re.search(skip, x.key.split("|")[2])]
    res.samples = [f"{res.instances} runtime headers, no `~0`/`~0u` literal"]
    res.analysed = [f"runtime/cpp/{h}" for h in facts.headers]
    return res
