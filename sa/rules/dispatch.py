"""R-DISPATCH: every alternative of a closed set has a handler.

Two forms:
 (a) closed chains — an if/elif chain over one discriminator whose final else (or the
     statement after all-returning branches) is `assert False` / `raise`: the code itself
     claims the world is closed; covered ∪ excluded must equal the alternative universe.
 (b) FunctionMapping flow — member sets are propagated through if-chains, asserts and calls;
     a dict literal keyed by FunctionMapping members that is *subscripted* must have a key
     for every member that can still reach the subscript.
"""
from __future__ import annotations

import ast
import dataclasses

from ..irschema import Schema
from ..pyfacts import Func, Repo, call_name, dotted_name, walk_no_nested_funcs
from ..report import AnalysisError, RuleResult

FM = "ir_data.FunctionMapping."
AU = "ir_data.AddressableUnit."


# --- test parsing ---------------------------------------------------------------------
@dataclasses.dataclass
class Test:
    disc: str  # discriminator text
    kind: str  # "str" | "has_field" | "isinstance" | "fm" | "au" | "list"
    members: frozenset
    pure: bool  # the test is exactly the membership test (no extra conjuncts)


def _members_of(node, prefix=None):
    """Constant/enum members from a Constant, Tuple/List/Set of them."""
    elts = node.elts if isinstance(node, (ast.Tuple, ast.List, ast.Set)) else [node]
    out = []
    for e in elts:
        if prefix is None:
            if isinstance(e, ast.Constant) and isinstance(e.value, str):
                out.append(e.value)
            else:
                return None
        else:
            dn = dotted_name(e)
            if dn and dn.startswith(prefix):
                out.append(dn[len(prefix):])
            else:
                return None
    return out


def parse_test(t):
    """Parses one if-test into a Test or None."""
    if isinstance(t, ast.BoolOp) and isinstance(t.op, ast.Or):
        parts = [parse_test(v) for v in t.values]
        if all(parts) and len({(p.disc, p.kind) for p in parts}) == 1:
            return Test(parts[0].disc, parts[0].kind, frozenset().union(*[p.members for p in parts]),
                        all(p.pure for p in parts))
        return None
    if isinstance(t, ast.BoolOp) and isinstance(t.op, ast.And):
        parts = [parse_test(v) for v in t.values]
        good = [p for p in parts if p]
        if len(good) == 1:
            return Test(good[0].disc, good[0].kind, good[0].members, False)
        return None
    if isinstance(t, ast.Compare) and len(t.ops) == 1:
        op = t.ops[0]
        l, r = t.left, t.comparators[0]
        if isinstance(op, ast.Is) and isinstance(r, ast.Constant) and r.value is None:
            return Test(ast.unparse(l), "any", frozenset([None]), True)
        if isinstance(op, (ast.Eq, ast.In, ast.Is)):
            for prefix, kind in ((FM, "fm"), (AU, "au")):
                ms = _members_of(r, prefix)
                if ms is not None:
                    return Test(ast.unparse(l), kind, frozenset(ms), True)
            ms = _members_of(r)
            if ms is not None and ms:
                return Test(ast.unparse(l), "str", frozenset(ms), True)
            if isinstance(op, ast.Eq) and isinstance(r, ast.List):
                ms = _members_of(r)
                if ms:
                    return Test(ast.unparse(l), "list", frozenset([".".join(ms)]), True)
        return None
    if isinstance(t, ast.Call):
        if isinstance(t.func, ast.Attribute) and t.func.attr == "has_field" and len(t.args) == 1 \
                and isinstance(t.args[0], ast.Constant):
            return Test(ast.unparse(t.func.value), "has_field", frozenset([t.args[0].value]), True)
        if isinstance(t.func, ast.Name) and t.func.id == "isinstance" and len(t.args) == 2:
            ms = _members_of(t.args[1], "ir_data.")
            if ms is not None:
                return Test(ast.unparse(t.args[0]), "isinstance", frozenset(ms), True)
    return None


def _terminates(body):
    if not body:
        return False
    last = body[-1]
    if isinstance(last, (ast.Return, ast.Raise, ast.Continue, ast.Break)):
        return True
    if isinstance(last, ast.Assert) and isinstance(last.test, ast.Constant) and last.test.value is False:
        return True
    if isinstance(last, ast.If) and last.orelse:
        return _terminates(last.body) and _terminates(last.orelse)
    return False


def _is_abort(stmt):
    if isinstance(stmt, ast.Raise):
        return True
    return isinstance(stmt, ast.Assert) and isinstance(stmt.test, ast.Constant) and stmt.test.value is False


@dataclasses.dataclass
class Chain:
    func: Func
    node: ast.If
    tests: list  # [Test]
    disc: str
    kind: str
    covered: frozenset
    closed_by: str  # "else" | "after"
    abort_line: int
    message: str

    @property
    def key(self):
        return f"{self.func.file}|{self.func.qualname}|{self.kind}|{self.disc}"


def _chain_branches(ifnode):
    tests, bodies = [ifnode.test], [ifnode.body]
    cur = ifnode
    while len(cur.orelse) == 1 and isinstance(cur.orelse[0], ast.If):
        cur = cur.orelse[0]
        tests.append(cur.test)
        bodies.append(cur.body)
    return tests, bodies, cur.orelse


def closed_chains(func: Func):
    """All closed chains of a function."""
    m = func.module
    out = []

    def scan(body):
        i = 0
        while i < len(body):
            st = body[i]
            if isinstance(st, ast.If):
                # maximal run of consecutive Ifs (+ their elif chains) over one discriminator
                tests, bodies, orelse = _chain_branches(st)
                j = i
                parsed = [parse_test(t) for t in tests]
                run_nodes = [st]
                if not orelse and all(_terminates(b) for b in bodies):
                    # absorb following sibling ifs on the same discriminator
                    while j + 1 < len(body) and isinstance(body[j + 1], ast.If):
                        t2, b2, o2 = _chain_branches(body[j + 1])
                        p2 = [parse_test(t) for t in t2]
                        if o2 or not all(_terminates(b) for b in b2):
                            break
                        if not (all(parsed) and all(p2) and parsed[0].disc == p2[0].disc and parsed[0].kind == p2[0].kind):
                            break
                        tests += t2
                        bodies += b2
                        parsed += p2
                        j += 1
                        run_nodes.append(body[j])
                closed = None
                abort = None
                if orelse and _is_abort(orelse[0]):
                    closed, abort = "else", orelse[0]
                elif not orelse and all(_terminates(b) for b in bodies) and j + 1 < len(body) and _is_abort(body[j + 1]):
                    closed, abort = "after", body[j + 1]
                if all(parsed):
                    kinds = {p.kind for p in parsed} - {"any"}
                    if len(kinds) == 1:
                        for p in parsed:
                            if p.kind == "any":
                                p.kind = next(iter(kinds))
                if closed and all(parsed) and len({(p.disc, p.kind) for p in parsed}) == 1:
                    cov = frozenset().union(*[p.members for p in parsed if p.pure])
                    msg = ""
                    if isinstance(abort, ast.Assert) and abort.msg is not None:
                        msg = ast.unparse(abort.msg)[:80]
                    out.append(Chain(func, st, parsed, parsed[0].disc, parsed[0].kind, cov, closed,
                                     abort.lineno, msg))
                for b in bodies:
                    scan(b)
                if orelse:
                    scan(orelse)
                i = j + 1
                continue
            for fld in ("body", "orelse", "finalbody"):
                sub = getattr(st, fld, None)
                if isinstance(sub, list) and not isinstance(st, (ast.FunctionDef, ast.ClassDef, ast.AsyncFunctionDef)):
                    scan(sub)
            for h in getattr(st, "handlers", []) or []:
                scan(h.body)
            i += 1

    scan(func.node.body)
    return out


# --- universes ------------------------------------------------------------------------
def builtin_words(repo):
    """`$`-words usable as builtin references: rhs literals of `builtin-word` productions
    plus names synthesised by the front end as builtin_reference canonical names."""
    from .. import grammar as G
    g = G.ir_grammar(repo)
    words = set()
    for lhs, rhs in g["productions"]:
        if lhs == "builtin-word" and len(rhs) == 1 and rhs[0].startswith('"'):
            words.add(rhs[0].strip('"'))
    if not words:
        raise AnalysisError("grammar: no builtin-word productions")
    # synthesised: ir_data.Reference(... object_path=["$x"]) in non-module_ir front-end code
    synth = set()
    for m in repo.compile_path_modules():
        if m.rel.endswith("module_ir.py"):
            continue
        for n in ast.walk(m.tree):
            if isinstance(n, ast.keyword) and n.arg == "builtin_reference":
                for c in ast.walk(n.value):
                    if isinstance(c, ast.Constant) and isinstance(c.value, str) and c.value.startswith("$"):
                        synth.add(c.value)
    return words, synth


def prelude_integer_externals(repo):
    text = repo.read("compiler/front_end/prelude.emb")
    out = set()
    cur = None
    for line in text.splitlines():
        s = line.strip()
        if line.startswith("external "):
            cur = s.split()[1].rstrip(":")
        elif cur and s.replace(" ", "").startswith("[is_integer:true]"):
            out.add(cur)
    return out


def universe_for(chain: Chain, schema: Schema, repo):
    """Returns (universe set, description) or (None, reason)."""
    cov = set(chain.covered) - {None}
    if chain.kind == "fm":
        return set(schema.enums["FunctionMapping"]), "FunctionMapping members"
    if chain.kind == "au":
        return set(schema.enums["AddressableUnit"]), "AddressableUnit members"
    if chain.kind in ("str", "has_field"):
        want_group = None
        last = chain.disc.rsplit(".", 1)[-1]
        if last.startswith("which_"):
            want_group = last[len("which_"):]
        cands = []
        for cls in schema.classes:
            for g, members in schema.oneofs(cls).items():
                if cov and cov <= set(members) and (want_group is None or g == want_group):
                    cands.append((len(members), cls, g, set(members)))
        if cands:
            cands.sort(key=lambda c: (c[0], c[1]))
            # all smallest candidates must agree on the member set
            best = [c for c in cands if c[3] == cands[0][3]] if len({frozenset(c[3]) for c in cands}) == 1 else None
            if best is None:
                # disambiguate: prefer the group containing every covered member and minimal size
                smallest = [c for c in cands if c[0] == cands[0][0]]
                if len({frozenset(c[3]) for c in smallest}) != 1:
                    return None, f"ambiguous oneof group for {sorted(cov)}"
                best = smallest
            _, cls, g, members = best[0]
            return set(members), f"oneof {cls}.{g}"
        if cov and all(isinstance(x, str) and x.startswith("$") for x in cov):
            words, synth = builtin_words(repo)
            return words | synth, "builtin words (grammar builtin-word productions + synthesised)"
        ints = prelude_integer_externals(repo)
        if cov and cov <= ints | {"Flag", "Float"}:
            return ints, "prelude externals with [is_integer: true]"
        return None, "no alternative universe recognised"
    if chain.kind == "isinstance":
        from .pipeline import named_kinds
        for cls in schema.classes:
            for g, members in schema.oneofs(cls).items():
                types = {schema.classes[cls][mname].type for mname in members}
                if cov and cov <= types and len(types) == len(members):
                    return types, f"types of oneof {cls}.{g}"
        nk = set(named_kinds(schema))
        if cov and cov <= nk:
            return nk, "node kinds carrying a NameDefinition (results of find_object)"
        return None, "no alternative universe recognised"
    if chain.kind == "list":
        ints = prelude_integer_externals(repo)
        if cov and cov <= ints | {"Flag", "Float"}:
            return ints, "prelude externals with [is_integer: true]"
    return None, "no alternative universe recognised"


# --- exclusions -----------------------------------------------------------------------
def _w_param_types_rejected_earlier(repo):
    """type_check has a function that rejects parameter types outside integer/enumeration."""
    m = repo.mod("compiler/front_end/type_check.py")
    for f in m.top_funcs():
        for n in walk_no_nested_funcs(f.node):
            if isinstance(n, ast.If) and isinstance(n.test, ast.Compare) and isinstance(n.test.ops[0], ast.NotIn):
                ms = _members_of(n.test.comparators[0])
                if ms and set(ms) == {"integer", "enumeration"} and "which_type" in ast.unparse(n.test.left) \
                        and "errors.append" in m.seg(n):
                    return True
    return False


def _w_switch_candidate_filter(repo):
    m = repo.mod("compiler/back_end/cpp/header_generator.py")
    for f in m.top_funcs():
        for n in walk_no_nested_funcs(f.node):
            if isinstance(n, ast.If) and isinstance(n.test, ast.Compare) and isinstance(n.test.ops[0], ast.NotIn):
                ms = _members_of(n.test.comparators[0])
                if ms and set(ms) == {"integer", "enumeration"} and _terminates(n.body):
                    calls = {call_name(c) for c in ast.walk(m.tree) if isinstance(c, ast.Call)}
                    return True
    return False


def _w_constant_reference_grammar(repo):
    """A constant reference cannot end in a type word: every `constant-reference*` production
    ends in constant-word / snake-reference / another constant-reference tail."""
    from .. import grammar as G
    g = G.ir_grammar(repo)
    ok = False
    for lhs, rhs in g["productions"]:
        if lhs.startswith("constant-reference"):
            ok = True
            if rhs and rhs[-1] in ("type-word", "type-reference", "CamelWord"):
                return False
    return ok


def _w_type_check_covers_runtime_parameter(repo):
    m = repo.mod("compiler/front_end/type_check.py")
    for f in m.top_funcs():
        for c in closed_chains(f):
            if c.kind == "isinstance" and {"EnumValue", "Field"} <= set(c.covered):
                return "RuntimeParameter" in c.covered
    # chain no longer closed: look for an isinstance test anywhere in the reference checker
    for f in m.top_funcs():
        if "constant_reference" in f.name:
            return "ir_data.RuntimeParameter" in m.seg(f.node)
    return False


def _w_unknown_never_produced(repo):
    m = repo.mod("compiler/front_end/module_ir.py")
    for n in ast.walk(m.tree):
        if isinstance(n, ast.Attribute) and n.attr == "UNKNOWN" and (dotted_name(n) or "").endswith("FunctionMapping.UNKNOWN"):
            return False
    return True


def _w_logical_value_last_pass(repo):
    """$logical_value is synthesised only by the last pass (write_inference)."""
    from .pipeline import find_passes
    _, passes, _ = find_passes(repo)
    producers = set()
    for m in repo.compile_path_modules():
        for n in ast.walk(m.tree):
            if isinstance(n, ast.Constant) and n.value == "$logical_value":
                p = m.parent(n)
                # only count constructions (object_path=[...]) not comparisons
                while p is not None and not isinstance(p, (ast.Compare, ast.keyword, ast.FunctionDef)):
                    p = m.parent(p)
                if isinstance(p, ast.keyword):
                    producers.add(m.rel)
    last = passes[-1].file
    return bool(producers) and producers <= {last}


OPAQUE_REASON = ("opaque expressions arise only from references to non-scalar fields; evaluating/rendering "
                 "positions are restricted to integer/boolean/enumeration by check_types and by the callers "
                 "(alias virtual fields are emitted through write_method.alias before any rendering)")

EXCLUSIONS = {
    # (file basename, function qualname, member): (reason, witness or None)
    ("header_generator.py", "_cpp_basic_type_for_expression_type", "opaque"): (OPAQUE_REASON, None),
    ("header_generator.py", "_render_expression", "opaque"): (OPAQUE_REASON, None),
    ("header_generator.py", "_generate_structure_virtual_field_methods", "opaque"): (OPAQUE_REASON, None),
    ("header_generator.py", "_render_case_label", "opaque"): (OPAQUE_REASON, None),
    ("header_generator.py", "_render_case_label", "boolean"): (
        "_get_switch_candidate admits only integer/enumeration discriminants before a case label is rendered",
        _w_switch_candidate_filter),
    ("constraints.py", "_check_early_type_requirements_for_parameter_type", "opaque"): (OPAQUE_REASON, None),
    ("constraints.py", "_check_type_requirements_for_parameter_type", "opaque"): (OPAQUE_REASON, None),
    ("constraints.py", "_check_early_type_requirements_for_parameter_type", "boolean"): (
        "boolean parameters are rejected by type_check (earlier pass)", _w_param_types_rejected_earlier),
    ("constraints.py", "_check_type_requirements_for_parameter_type", "boolean"): (
        "boolean parameters are rejected by type_check (earlier pass)", _w_param_types_rejected_earlier),
    ("expression_bounds.py", "_compute_constraints_of_builtin_value", "opaque"): (OPAQUE_REASON, None),
    ("type_check.py", "_type_check_choice_operator", "opaque"): (
        "both branches were checked compatible by _types_are_compatible, which accepts only scalar kinds", None),
    ("type_check.py", "_type_name_for_error_messages", "opaque"): (
        "parameter types are integer or enumeration (checked by _type_check_parameter)", None),
    ("ir_util.py", "constant_value", "opaque"): (
        "inside the constant_reference branch: static references denote enum values or virtual scalar fields", None),
    ("type_check.py", "_type_check_constant_reference", "TypeDefinition"): (
        "the grammar ends constant references in a constant word or snake reference", _w_constant_reference_grammar),
    ("expression_bounds.py", "_compute_constant_value_of_constant_reference", "TypeDefinition"): (
        "the grammar ends constant references in a constant word or snake reference", _w_constant_reference_grammar),
    ("expression_bounds.py", "_compute_constant_value_of_constant_reference", "RuntimeParameter"): (
        "static references to runtime parameters are rejected by type_check (earlier pass)",
        _w_type_check_covers_runtime_parameter),
    ("type_check.py", "_type_check_builtin_reference", "$logical_value"): (
        "$logical_value is synthesised only by write_inference, the last pass", _w_logical_value_last_pass),
    ("type_check.py", "_type_check_builtin_reference", "$next"): (
        "where $next may still occur at this stage is decided (and reported) by R-FILTERCOVER", None),
    ("expression_bounds.py", "_compute_constraints_of_builtin_value", "$next"): (
        "type_check (earlier pass) never annotates $next, so it cannot reach the bounds pass; positions are "
        "decided by R-FILTERCOVER", None),
    ("attribute_util.py", "check_attributes_in_ir.check_type_definition", "NONE"): (
        "inside the structure branch: module_ir gives every struct/bits definition BYTE or BIT", None),
}


def closed_chain_rule(repo, schema=None, modules=None):
    res = RuleResult("R-DISPATCH")
    schema = schema or Schema(repo)
    nchains = 0
    for m in (modules or repo.compile_path_modules()):
        base = m.rel.rsplit("/", 1)[-1]
        for f in m.funcs.values():
            for c in closed_chains(f):
                if c.kind == "fm":
                    continue  # decided by the FunctionMapping flow analysis
                u, desc = universe_for(c, schema, repo)
                if u is None:
                    res.notes.append(f"{m.rel}:{c.node.lineno} {f.qualname}: closed chain over {c.disc}: {desc}")
                    continue
                nchains += 1
                missing = sorted(x for x in u - set(c.covered))
                for member in u:
                    res.instances += 1
                for member in missing:
                    ex = EXCLUSIONS.get((base, f.qualname, member))
                    if ex is not None:
                        reason, witness = ex
                        if witness is None or witness(repo):
                            continue
                        why = f" (tabled exclusion no longer holds: {reason})"
                    else:
                        why = ""
                    res.add(f"{m.rel}|{f.qualname}|{c.kind}|{member}",
                            f"{f.qualname}: closed chain over {c.disc} ({desc}) handles {sorted(x for x in c.covered if x)} "
                            f"and then aborts ({c.message or 'assert False/raise'}); alternative '{member}' is "
                            f"unhandled{why}", m.rel, c.abort_line, f.qualname)
                if len(res.samples) < 3:
                    res.samples.append({"function": f.fq, "discriminator": c.disc, "universe": desc,
                                        "covered": sorted(x for x in c.covered if x), "missing": missing})
                res.analysed.append(f"{m.rel}:{f.qualname}")
    res.detail["closed_chains"] = nchains
    return res


# --- FunctionMapping flow ------------------------------------------------------------------
FM_EXCLUSIONS = {
    # (file basename, function, member): reason / witness
    ("*", "*", "UNKNOWN"): ("UNKNOWN is never produced by module_ir", _w_unknown_never_produced),
}


def _fm_members_in(node):
    out = set()
    for n in ast.walk(node):
        dn = dotted_name(n) if isinstance(n, ast.Attribute) else None
        if dn and dn.startswith(FM):
            out.add(dn[len(FM):])
    return out


class FMFlow:
    def __init__(self, repo, schema, modules=None):
        self.repo = repo
        self.modules = modules or repo.compile_path_modules()
        self.ALL = frozenset(schema.enums["FunctionMapping"])
        self.aware = {}  # fq -> Func  (functions with FM dispatch positions)
        for m in self.modules:
            for f in m.funcs.values():
                if self._dispatch_members(f):
                    self.aware[f.fq] = f
        self.inc = {fq: set() for fq in self.aware}
        self.obligations = []  # (Func, line, kind, need set, have set, text)
        self.calls = {}  # caller fq -> [(callee Func, remaining)]

    def _dispatch_members(self, f):
        ms = set()
        for n in walk_no_nested_funcs(f.node):
            if isinstance(n, (ast.If, ast.Assert, ast.IfExp)):
                t = parse_test(n.test)
                if t and t.kind == "fm":
                    ms |= t.members
                elif isinstance(n, ast.Assert):
                    ms |= self._assert_excluded(n) or set()
            if isinstance(n, ast.Dict) and n.keys and all(k is not None and (dotted_name(k) or "").startswith(FM) for k in n.keys):
                ms |= {dotted_name(k)[len(FM):] for k in n.keys}
        return ms

    @staticmethod
    def _assert_excluded(n):
        t = n.test
        if isinstance(t, ast.Compare) and len(t.ops) == 1 and isinstance(t.ops[0], (ast.NotIn, ast.NotEq)):
            ms = _members_of(t.comparators[0], FM)
            if ms is not None:
                return set(ms)
        return None

    def run(self):
        # roots: FM-aware functions with a caller that is not FM-aware (or no caller)
        callers = {}
        for m in self.modules:
            for n in ast.walk(m.tree):
                if isinstance(n, ast.Call):
                    r = self.repo.resolve(m, n.func, m.enclosing_func(n))
                    if isinstance(r, Func) and r.fq in self.aware:
                        ef = m.enclosing_func(n)
                        callers.setdefault(r.fq, []).append(ef)
        for fq in self.aware:
            cs = callers.get(fq, [])
            if not cs or any(c is None or c.fq not in self.aware or c.fq == fq for c in cs):
                self.inc[fq] = set(self.ALL)
        for _ in range(8):
            changed = False
            self.obligations = []
            for fq, f in self.aware.items():
                if not self.inc[fq]:
                    continue
                self.cur = f
                self.cur_calls = []
                self._body(f.node.body, set(self.inc[fq]))
                for g, rem in self.cur_calls:
                    if not rem <= self.inc[g.fq]:
                        self.inc[g.fq] |= rem
                        changed = True
            if not changed:
                break
        return self

    # -- statement walk --
    def _body(self, body, rem):
        for st in body:
            if rem is None:
                return None
            rem = self._stmt(st, rem)
        return rem

    def _dict_of(self, name):
        """FM-keyed dict literal bound to local `name` in the current function."""
        for n in walk_no_nested_funcs(self.cur.node):
            if isinstance(n, ast.Assign) and len(n.targets) == 1 and isinstance(n.targets[0], ast.Name) \
                    and n.targets[0].id == name and isinstance(n.value, ast.Dict):
                return n.value
        return None

    def _scan_expr(self, node, rem):
        for n in ast.walk(node):
            if isinstance(n, ast.Subscript):
                d = None
                if isinstance(n.value, ast.Dict):
                    d = n.value
                elif isinstance(n.value, ast.Name):
                    d = self._dict_of(n.value.id)
                if d is not None and d.keys and all(k is not None and (dotted_name(k) or "").startswith(FM) for k in d.keys):
                    keys = {dotted_name(k)[len(FM):] for k in d.keys}
                    self.obligations.append((self.cur, n.lineno, "table", set(rem), keys,
                                             ast.unparse(n)[:60]))
            if isinstance(n, ast.Call):
                m = self.cur.module
                r = self.repo.resolve(m, n.func, self.cur)
                if isinstance(r, Func) and r.fq in self.aware and r.fq != self.cur.fq:
                    self.cur_calls.append((r, set(rem)))

    def _stmt(self, st, rem):
        if isinstance(st, (ast.FunctionDef, ast.AsyncFunctionDef, ast.ClassDef)):
            return rem
        if isinstance(st, ast.Assert):
            ex = self._assert_excluded(st)
            if ex is not None:
                return rem - ex
            if isinstance(st.test, ast.Constant) and st.test.value is False:
                return None
            self._scan_expr(st, rem)
            return rem
        if isinstance(st, ast.If):
            tests, bodies, orelse = _chain_branches(st)
            parsed = [parse_test(t) for t in tests]
            out = set()
            alive = False
            tested = set()
            cur = set(rem)
            for t, p, b in zip(tests, parsed, bodies):
                self._scan_expr(t, cur)
                if p is not None and p.kind == "fm":
                    br = cur & set(p.members)
                    r = self._body(b, br)
                    if p.pure:
                        tested |= set(p.members)
                        cur = cur - set(p.members)
                else:
                    r = self._body(b, set(cur))
                if r is not None:
                    out |= r
                    alive = True
            if orelse:
                if _is_abort(orelse[0]) and any(p is not None and p.kind == "fm" for p in parsed):
                    self.obligations.append((self.cur, orelse[0].lineno, "chain", set(cur), set(),
                                             "else: " + ast.unparse(orelse[0])[:50]))
                r = self._body(orelse, set(cur))
                if r is not None:
                    out |= r
                    alive = True
            else:
                out |= cur
                alive = True
            return out if alive else None
        if isinstance(st, (ast.Return, ast.Raise)):
            self._scan_expr(st, rem)
            return None
        if isinstance(st, (ast.For, ast.While, ast.With, ast.Try)):
            for fld in ("iter", "test", "items"):
                v = getattr(st, fld, None)
                if isinstance(v, ast.AST):
                    self._scan_expr(v, rem)
            for fld in ("body", "orelse", "finalbody"):
                b = getattr(st, fld, None)
                if b:
                    self._body(b, set(rem))
            for h in getattr(st, "handlers", []) or []:
                self._body(h.body, set(rem))
            return rem
        self._scan_expr(st, rem)
        return rem


def fm_flow_rule(repo, schema=None, modules=None):
    res = RuleResult("R-DISPATCH-FM")
    schema = schema or Schema(repo)
    flow = FMFlow(repo, schema, modules).run()
    seen = set()
    for f, line, kind, need, have, text in flow.obligations:
        key0 = (f.fq, line, kind)
        if key0 in seen:
            continue
        seen.add(key0)
        res.instances += max(len(need), 1)
        base = f.file.rsplit("/", 1)[-1]
        for member in sorted(need - have):
            ex = FM_EXCLUSIONS.get((base, f.qualname, member)) or FM_EXCLUSIONS.get(("*", "*", member))
            if ex is not None and (ex[1] is None or ex[1](repo)):
                continue
            what = "table lookup" if kind == "table" else "closed chain"
            res.add(f"{f.file}|{f.qualname}|fm|{member}",
                    f"{f.qualname}: {what} `{text}` can be reached with FunctionMapping.{member}, which it does not "
                    f"handle ({'KeyError' if kind == 'table' else 'assertion failure'}); members reaching it: "
                    f"{sorted(need)}", f.file, line, f.qualname)
        if len(res.samples) < 4:
            res.samples.append({"function": f.fq, "kind": kind, "reaching": sorted(need), "handled": sorted(have)})
        res.analysed.append(f"{f.file}:{f.qualname}")
    res.detail = {"fm_aware_functions": len(flow.aware), "obligations": len(seen),
                  "incoming": {fq.rsplit('.', 1)[-1]: len(v) for fq, v in flow.inc.items()}}
    return res


# --- R-FILTERCOVER ------------------------------------------------------------------------
def filtercover(repo, schema=None, sites=None):
    """A builtin word that some later stage cannot handle must be rejected at every position
    where an expression can occur, before that stage runs."""
    from . import traversal as T
    res = RuleResult("R-FILTERCOVER")
    schema = schema or Schema(repo)
    sites = sites if sites is not None else T.collect_sites(repo, schema)
    words, synth = builtin_words(repo)
    # stages and the words they handle
    stages = []
    for rel in ("compiler/front_end/type_check.py", "compiler/front_end/expression_bounds.py"):
        m = repo.mod(rel)
        for f in m.funcs.values():
            for c in closed_chains(f):
                cov = {x for x in c.covered if isinstance(x, str)}
                if cov and all(x.startswith("$") for x in cov):
                    stages.append((f, cov))
    hg = repo.mod("compiler/back_end/cpp/header_generator.py")
    rendered = set()
    render_fn = None
    for f in hg.top_funcs():
        for n in walk_no_nested_funcs(f.node):
            if isinstance(n, ast.Compare) and "builtin_reference" in ast.unparse(n.left) and isinstance(n.comparators[0], ast.Constant) \
                    and isinstance(n.comparators[0].value, str) and n.comparators[0].value.startswith("$"):
                rendered.add(n.comparators[0].value)
                render_fn = f
    if render_fn is None or len(stages) < 2:
        raise AnalysisError("builtin-word consumers not found (type_check / expression_bounds / header_generator)")
    stages.append((render_fn, rendered))
    # the rejecting traversal
    rejecting = None
    for s in sites:
        if s.action is None or not s.pattern or s.pattern[-1] != "Reference":
            continue
        for n in walk_no_nested_funcs(s.action.node):
            if isinstance(n, ast.If) and isinstance(n.test, ast.Compare) and isinstance(n.test.ops[0], ast.In) \
                    and "object_path" in ast.unparse(n.test.left):
                ms = _members_of(n.test.comparators[0])
                if ms and all(x.startswith("$") for x in ms) and "errors.append" in s.module.seg(n):
                    rejecting = (s, set(ms))
    if rejecting is None:
        raise AnalysisError("no traversal rejects builtin words (dependency_checker)")
    site, rejected = rejecting
    holes = sorted(t for t in (site.skip or set()) if "Expression" in schema.descendants(t))
    res.detail = {"words": sorted(words), "rejected": sorted(rejected), "skipped_with_expressions": holes,
                  "stages": {f.qualname: sorted(c) for f, c in stages}}
    render_fn = stages[-1][0]
    # words whose inferred range is unbounded can never pass the 64-bit gate (R-GATE) as part of a
    # run-time expression, so they cannot reach the back end
    eb = repo.mod("compiler/front_end/expression_bounds.py")
    gate_covered = set()
    for f in eb.funcs.values():
        for n in walk_no_nested_funcs(f.node):
            if isinstance(n, ast.If):
                tests, bodies, _ = _chain_branches(n)
                for t, b in zip(tests, bodies):
                    p = parse_test(t)
                    if p and p.kind == "str" and all(isinstance(x, str) and x.startswith("$") for x in p.members):
                        for st in b:
                            if isinstance(st, ast.Assign) and ast.unparse(st.targets[0]).endswith("maximum_value") \
                                    and isinstance(st.value, ast.Constant) and st.value.value == "infinity":
                                gate_covered |= set(p.members)
    res.detail['gate_covered'] = sorted(gate_covered)
    for w in sorted(words):
        unhandled = [f for f, cov in stages if w not in cov and not (f is render_fn and w in gate_covered)]
        if not unhandled:
            continue
        res.instances += 1
        if w not in rejected:
            res.add(f"filtercover|{w}|unrejected", f"builtin word {w} is not handled by {unhandled[0].qualname} and no "
                    "traversal rejects it", site.module.rel, site.call.lineno)
            continue
        for t in holes:
            res.instances += 1
            # a separate traversal may cover the hole: pattern [t, ..., Reference] whose action rejects the word
            covered = False
            for s2 in sites:
                if s2 is site or s2.action is None or s2.pattern != [t, "Reference"]:
                    continue
                if (s2.skip or set()) & {"Expression", "Function", "Reference", "AttributeValue", t}:
                    continue
                if not s2.module.rel.endswith(site.module.rel.split("/")[-1]):
                    continue
                src2 = ast.unparse(s2.action.node)
                consts = {c.value for n2 in ast.walk(s2.action.node) if isinstance(n2, ast.Compare)
                          for c in ast.walk(n2) if isinstance(c, ast.Constant) and isinstance(c.value, str) and c.value.startswith("$")}
                if w in consts and "errors.append" in src2:
                    covered = True
            if covered:
                if len(res.samples) < 6:
                    res.samples.append(f"{w} inside {t}: rejected by a dedicated traversal")
                continue
            res.add(f"filtercover|{w}|{t}",
                    f"builtin word {w} is rejected by {site.action.name} everywhere except inside {t} subtrees "
                    f"(skip_descendants_of), but {unhandled[0].qualname} cannot handle it: using {w} inside "
                    f"{'an attribute value' if t == 'Attribute' else 'a type argument'} ends in an assertion failure",
                    site.module.rel, site.call.lineno, site.func.qualname if site.func else "")
    res.samples = [res.detail["stages"]]
    res.analysed = [site.module.rel, hg.rel]
    return res


# --- positive control ---------------------------------------------------------------------
_CTL = '''
from compiler.util import ir_data

def render(expression):
    if expression.type.which_type == "integer":
        return 1
    elif expression.type.which_type == "boolean":
        return 2
    else:
        assert False, "unexpected"

def fold(function):
    if function.function == ir_data.FunctionMapping.UNKNOWN:
        return None
    table = {
        ir_data.FunctionMapping.ADDITION: 1,
        ir_data.FunctionMapping.SUBTRACTION: 2,
        ir_data.FunctionMapping.MULTIPLICATION: 3,
        ir_data.FunctionMapping.EQUALITY: 4,
        ir_data.FunctionMapping.INEQUALITY: 5,
    }
    return table[function.function]
'''


def control(repo):
    r2 = Repo(repo.root, overlay={"compiler/front_end/zz_verif_control.py": _CTL})
    mods = [r2.mod("compiler/front_end/zz_verif_control.py")]
    sch = Schema(r2)
    a = closed_chain_rule(r2, sch, mods)
    b = fm_flow_rule(r2, sch, mods)
    return ({f.construct.rsplit("|", 1)[-1] for f in a.findings} == {"opaque", "enumeration"}
            and any(f.construct.endswith("|MAXIMUM") for f in b.findings)
            and not any(f.construct.endswith("|ADDITION") for f in b.findings))
