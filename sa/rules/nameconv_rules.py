"""R-CASECONV (C19): the case conversions of compiler/util/name_conversion.py, which produce the C++ spelling of
enum values for `[(cpp) enum_case]`.

Each registered conversion is a one-expression function over a string.  The rule evaluates that expression with the
checker's own evaluator of a small pure string language (str methods, join over a generator, `re.sub` with a string
or lambda replacement, calls of sibling conversions) — no repository module is imported — on every SHOUTY_CASE name
up to length 5 over one representative per character class {A, B, 1, _}, and checks the postconditions of the
target case: CamelCase has no underscore, keeps the letters and digits of the name in order, starts every word with
an upper-case letter and lower-cases the rest; kCamelCase is "k" + CamelCase.  Names with `__` or a trailing `_`
(legal enum value names) are in the domain."""
from __future__ import annotations

import ast
import itertools
import re

from ..report import AnalysisError, RuleResult

NC = "compiler/util/name_conversion.py"


class _Unsupported(Exception):
    pass


class _Match:
    def __init__(self, m):
        self.m = m

    def group(self, *a):
        return self.m.group(*a)


def _ev(node, env, funcs, depth=0):
    if depth > 40:
        raise _Unsupported("recursion")
    if isinstance(node, ast.Constant):
        return node.value
    if isinstance(node, ast.Name):
        if node.id in env:
            return env[node.id]
        raise _Unsupported(node.id)
    if isinstance(node, ast.BinOp) and isinstance(node.op, ast.Add):
        return _ev(node.left, env, funcs, depth + 1) + _ev(node.right, env, funcs, depth + 1)
    if isinstance(node, ast.Subscript):
        v = _ev(node.value, env, funcs, depth + 1)
        s = node.slice
        if isinstance(s, ast.Slice):
            lo = _ev(s.lower, env, funcs, depth + 1) if s.lower else None
            hi = _ev(s.upper, env, funcs, depth + 1) if s.upper else None
            return v[lo:hi]
        return v[_ev(s, env, funcs, depth + 1)]
    if isinstance(node, (ast.GeneratorExp, ast.ListComp)) and len(node.generators) == 1:
        g = node.generators[0]
        out = []
        for item in _ev(g.iter, env, funcs, depth + 1):
            e2 = dict(env)
            if not isinstance(g.target, ast.Name):
                raise _Unsupported("tuple target")
            e2[g.target.id] = item
            if all(_ev(c, e2, funcs, depth + 1) for c in g.ifs):
                out.append(_ev(node.elt, e2, funcs, depth + 1))
        return out
    if isinstance(node, ast.IfExp):
        return _ev(node.body if _ev(node.test, env, funcs, depth + 1) else node.orelse, env, funcs, depth + 1)
    if isinstance(node, ast.Lambda):
        params = [a.arg for a in node.args.args]
        return lambda *a: _ev(node.body, dict(env, **dict(zip(params, a))), funcs, depth + 1)
    if isinstance(node, ast.Call):
        if isinstance(node.func, ast.Name):
            args = [_ev(a, env, funcs, depth + 1) for a in node.args]
            if node.func.id in funcs:
                params, body = funcs[node.func.id]
                return _ev(body, dict(zip(params, args)), funcs, depth + 1)
            if node.func.id in ("str", "len", "list", "reversed"):
                r = {"str": str, "len": len, "list": list, "reversed": lambda x: list(reversed(x))}[node.func.id](*args)
                return r
            raise _Unsupported(node.func.id)
        if isinstance(node.func, ast.Attribute):
            if isinstance(node.func.value, ast.Name) and node.func.value.id == "re" and node.func.attr == "sub":
                pat, repl, s = [_ev(a, env, funcs, depth + 1) for a in node.args[:3]]
                if callable(repl):
                    return re.sub(pat, lambda m: repl(_Match(m)), s)
                return re.sub(pat, repl, s)
            obj = _ev(node.func.value, env, funcs, depth + 1)
            args = [_ev(a, env, funcs, depth + 1) for a in node.args]
            if isinstance(obj, (str, _Match)) and node.func.attr in ("capitalize", "upper", "lower", "title", "split", "join", "strip", "lstrip",
                                                                      "rstrip", "replace", "startswith", "endswith", "isdigit", "isalpha",
                                                                      "group", "swapcase", "isupper", "islower"):
                return getattr(obj, node.func.attr)(*args)
            raise _Unsupported(f".{node.func.attr}")
    raise _Unsupported(type(node).__name__)


def caseconv(repo):
    res = RuleResult("R-CASECONV")
    m = repo.mod(NC)
    funcs = {}
    registered = {}
    for f in m.top_funcs():
        rets = [n for n in f.node.body if isinstance(n, ast.Return)]
        if len(rets) == 1 and len(f.node.args.args) >= 1 and not any(isinstance(n, (ast.For, ast.While, ast.If)) for n in f.node.body):
            funcs[f.name] = ([a.arg for a in f.node.args.args], rets[0].value)
        for d in f.node.decorator_list:
            if isinstance(d, ast.Call) and len(d.args) == 2:
                registered[(ast.unparse(d.args[0]).split(".")[-1], ast.unparse(d.args[1]).split(".")[-1])] = f
    if ("SHOUTY", "CAMEL") not in registered or ("SHOUTY", "K_CAMEL") not in registered:
        raise AnalysisError(f"name_conversion: registered conversions are {sorted(registered)}")
    shouty = re.compile(r"[A-Z][A-Z_0-9]*[A-Z_][A-Z_0-9]*")
    names = ["".join(t) for n in range(2, 6) for t in itertools.product("AB1_", repeat=n)]
    names = [n for n in names if shouty.fullmatch(n)]
    for (src_case, dst_case), f in sorted(registered.items()):
        if src_case != "SHOUTY":
            continue
        if f.name not in funcs:
            raise AnalysisError(f"{f.name}: not a one-expression function")
        bad = None
        for name in names:
            res.instances += 1
            try:
                got = _ev(funcs[f.name][1], {funcs[f.name][0][0]: name}, funcs)
            except _Unsupported as u:
                raise AnalysisError(f"{f.name}: construct `{u}` is outside the evaluator's string language")
            words = [w for w in name.split("_")]
            camel = "".join(w[:1].upper() + w[1:].lower() for w in words)
            want = camel if dst_case == "CAMEL" else ("k" + camel if dst_case == "K_CAMEL" else None)
            if want is not None and got != want and bad is None:
                bad = (name, got, want)
        if bad:
            name, got, want = bad
            why = "an underscore survives" if "_" in got else "letters change"
            res.add(f"{NC}|{f.name}|{dst_case}", f"{f.name} ({src_case} -> {dst_case}) turns `{name}` into `{got}`; the {dst_case} spelling is "
                    f"`{want}` ({why}): the enumerator the user asked for with [(cpp) enum_case] does not exist in the header", NC, f.line, f.name)
        elif len(res.samples) < 3:
            res.samples.append(f"{f.name} ({src_case} -> {dst_case}): {len(names)} names")
    res.analysed = [NC]
    return res
