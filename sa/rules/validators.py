"""R-VALIDATORGUARD, R-ATTRTABLE, R-ATTRVALUES, R-POSCHECK, R-TYPEEQ, R-OPSIG."""
from __future__ import annotations

import ast
import re

from ..irschema import Schema
from ..pyfacts import Func, Repo, attr_chain, call_name, dotted_name, walk_no_nested_funcs
from ..report import AnalysisError, RuleResult
from . import pipeline as P

ATTRIBUTE_CHECKER = "compiler/front_end/attribute_checker.py"
CPP_ATTRIBUTES = "compiler/back_end/cpp/attributes.py"
ATTRIBUTES = "compiler/front_end/attributes.py"
ATTRIBUTE_UTIL = "compiler/util/attribute_util.py"


# ---- locating type tables ------------------------------------------------------------------
def _follow_alias(repo, m, node, scope=None, depth=0):
    """Resolves a table value to the validator Func(s) it denotes."""
    if depth > 4:
        return []
    r = repo.resolve(m, node, scope)
    if isinstance(r, Func):
        return [r]
    if isinstance(r, tuple) and r[0] == "value":
        mod, name = r[1], r[2]
        out = []
        for v in mod.assigns.get(name, [])[-1:]:
            out += _follow_alias(repo, mod, v, None, depth + 1)
        return out
    if isinstance(node, ast.Call):
        # factory: the nested function returned by the callee
        fr = repo.resolve(m, node.func, scope)
        if isinstance(fr, Func):
            for n in walk_no_nested_funcs(fr.node):
                if isinstance(n, ast.Return) and isinstance(n.value, ast.Name):
                    q = fr.qualname + "." + n.value.id
                    if q in fr.module.funcs:
                        return [fr.module.funcs[q]]
    return []


def type_tables(repo):
    """[(module, table name, {key expr text: [Func]})] for the attribute type tables: module-level
    dict literals whose values resolve to validator functions taking (attr, module_source_file)."""
    out = []
    for rel in (ATTRIBUTE_CHECKER, CPP_ATTRIBUTES):
        m = repo.mod(rel)
        for name, vals in m.assigns.items():
            v = vals[-1]
            if isinstance(v, ast.Dict) and v.keys and len(v.keys) >= 2:
                table = {}
                okay = True
                for k, val in zip(v.keys, v.values):
                    fs = _follow_alias(repo, m, val)
                    if not fs:
                        okay = False
                        break
                    table[ast.unparse(k)] = fs
                if okay and all(len(f.node.args.args) == 2 for fs in table.values() for f in fs):
                    out.append((m, name, table))
    if len(out) < 2:
        raise AnalysisError("attribute type tables not found (front end and C++ back end)")
    return out


# ---- R-VALIDATORGUARD ----------------------------------------------------------------------
def _oneof_member_owner(schema, member, next_attr):
    """Classes in which `member` is a oneof member whose type has attribute/method next_attr."""
    out = []
    for cls in schema.classes:
        for g, ms in schema.oneofs(cls).items():
            if member in ms:
                t = schema.classes[cls][member].type
                if t in schema.classes and (next_attr in schema.classes[t] or next_attr in ("has_field", "which_" + g)
                                            or next_attr.startswith("which_")):
                    out.append((cls, g))
    return out


def _guards_in(test, positive=True):
    """Members established as set when `test` is truthy (positive) / falsy (negative)."""
    out = set()
    if isinstance(test, ast.Call) and isinstance(test.func, ast.Attribute) and test.func.attr == "has_field" \
            and test.args and isinstance(test.args[0], ast.Constant):
        if positive:
            out.add((ast.unparse(test.func.value), test.args[0].value))
    elif isinstance(test, ast.UnaryOp) and isinstance(test.op, ast.Not):
        out |= _guards_in(test.operand, not positive)
    elif isinstance(test, ast.Compare) and len(test.ops) == 1 and isinstance(test.comparators[0], ast.Constant):
        l = test.left
        if isinstance(l, ast.Attribute) and l.attr.startswith("which_"):
            if (isinstance(test.ops[0], ast.Eq) and positive) or (isinstance(test.ops[0], ast.NotEq) and not positive):
                out.add((ast.unparse(l.value), test.comparators[0].value))
    elif isinstance(test, ast.BoolOp):
        if (isinstance(test.op, ast.And) and positive) or (isinstance(test.op, ast.Or) and not positive):
            for v in test.values:
                out |= _guards_in(v, positive)
    elif isinstance(test, (ast.Attribute, ast.Name)) and positive:
        # truthiness of `x.member`
        if isinstance(test, ast.Attribute):
            out.add((ast.unparse(test.value), test.attr))
    return out


def _established_before(m, f, node):
    """(base text, member) pairs known to be set at `node`."""
    est = set()
    cur = node
    parent = m.parent(cur)
    while parent is not None and cur is not f.node:
        if isinstance(parent, ast.BoolOp):
            idx = parent.values.index(cur) if cur in parent.values else None
            if idx:
                for v in parent.values[:idx]:
                    est |= _guards_in(v, isinstance(parent.op, ast.And))
        if isinstance(parent, ast.If):
            if cur in parent.body:
                est |= _guards_in(parent.test, True)
            elif cur in parent.orelse:
                est |= _guards_in(parent.test, False)
        if isinstance(parent, ast.IfExp):
            if cur is parent.body:
                est |= _guards_in(parent.test, True)
            elif cur is parent.orelse:
                est |= _guards_in(parent.test, False)
        # earlier sibling statements that return when the member is unset
        for fld in ("body", "orelse"):
            blk = getattr(parent, fld, None)
            if isinstance(blk, list) and cur in blk:
                for st in blk[: blk.index(cur)]:
                    if isinstance(st, ast.If) and st.body and isinstance(st.body[-1], (ast.Return, ast.Raise, ast.Continue)) \
                            and not st.orelse:
                        est |= _guards_in(st.test, False)
                    if isinstance(st, ast.Assert):
                        est |= _guards_in(st.test, True)
        cur = parent
        parent = m.parent(cur)
    return est


def unguarded_oneof_derefs(schema, f: Func):
    """[(node, base text, member, owner)] for oneof members dereferenced without a guard."""
    m = f.module
    out = []
    seen = set()
    reader_vars = set()
    for n in walk_no_nested_funcs(f.node):
        if isinstance(n, ast.Assign) and isinstance(n.value, ast.Call) and (call_name(n.value) or "").endswith("reader"):
            for t in n.targets:
                if isinstance(t, ast.Name):
                    reader_vars.add(t.id)
    for n in walk_no_nested_funcs(f.node):
        if not isinstance(n, ast.Attribute):
            continue
        inner = n.value
        if not isinstance(inner, ast.Attribute):
            continue
        member, nxt = inner.attr, n.attr
        owners = _oneof_member_owner(schema, member, nxt)
        if not owners:
            continue
        root, chain = attr_chain(n)
        # chains that go through ir_data_utils.reader(...) never raise
        if isinstance(root, ast.Call) and (call_name(root) or "").endswith("reader"):
            continue
        if isinstance(root, ast.Name) and root.id in reader_vars:
            continue
        base = ast.unparse(inner.value)
        key = (base, member)
        if key in seen:
            continue
        est = _established_before(m, f, n)
        if key in est:
            continue
        seen.add(key)
        out.append((n, base, member, owners[0]))
    return out


def validatorguard(repo, schema=None):
    res = RuleResult("R-VALIDATORGUARD")
    schema = schema or Schema(repo)
    funcs = {}
    for m, name, table in type_tables(repo):
        for k, fs in table.items():
            for f in fs:
                funcs.setdefault(f.fq, (f, f"validator registered in {m.rel}:{name}"))
    # first-contact attribute readers reached from passes that run before attribute kinds are verified
    _, passes, _ = P.find_passes(repo)
    names = [p.name for p in passes]
    refs = repo.refs()
    early = []
    for p in passes:
        if "normalize" in p.name and "verify" in p.name:
            break
        early.append(p)
    seen = set()
    work = [p.fq for p in early]
    while work:
        k = work.pop()
        if k in seen:
            continue
        seen.add(k)
        work.extend(g.fq for g in refs.get(k, ()))
    iu = repo.mod("compiler/util/ir_util.py")
    for f in iu.top_funcs():
        if f.name.startswith("get_") and f.name.endswith("_attribute") and f.fq in seen:
            funcs.setdefault(f.fq, (f, "attribute reader reachable from a pass that runs before attribute value "
                                       "kinds are verified"))
    # ... and functions of those early passes that read attribute lists themselves (`for a in <x>.attribute:`)
    byfq = {f_.fq: f_ for m_ in repo.modules.values() for f_ in m_.funcs.values()}
    for fq in sorted(seen):
        f = byfq.get(fq)
        if f is None or not f.file.startswith("compiler/front_end/"):
            continue
        # dedicated readers only: the body is (a docstring,) one loop over `<x>.attribute` and returns
        body = [st for st in f.node.body if not (isinstance(st, ast.Expr) and isinstance(st.value, ast.Constant))]
        if body and all(isinstance(st, (ast.For, ast.Return)) for st in body) \
                and any(isinstance(st, ast.For) and ast.unparse(st.iter).endswith(".attribute") for st in body):
            funcs.setdefault(f.fq, (f, "reads an attribute list in a pass that runs before attribute lists are verified"))
    for fq, (f, why) in sorted(funcs.items()):
        res.instances += 1
        res.analysed.append(f"{f.file}:{f.qualname}")
        for node, base, member, owner in unguarded_oneof_derefs(schema, f):
            res.add(f"{f.file}|{f.qualname}|{base}.{member}",
                    f"{f.qualname} ({why}) dereferences `{base}.{member}.{node.attr}` without testing that the "
                    f"`{member}` alternative of {owner[0]}.{owner[1]} is set: a value of another kind "
                    "raises AttributeError (None has no attribute)", f.file, node.lineno, f.qualname)
    res.samples = [f"{f.fq}: {why}" for f, why in list(funcs.values())[:3]]
    res.detail["first_contact_functions"] = sorted(k.rsplit(".", 1)[-1] for k in funcs)
    return res


# ---- R-ATTRTABLE / R-ATTRVALUES ---------------------------------------------------------------
def _const_names(m):
    """module-level NAME = "string" constants."""
    out = {}
    for n, vals in m.assigns.items():
        v = vals[-1]
        if isinstance(v, ast.Constant) and isinstance(v.value, str):
            out[n] = v.value
    return out


def attrtable(repo):
    res = RuleResult("R-ATTRTABLE")
    ac = repo.mod(ATTRIBUTE_CHECKER)
    am = repo.mod(ATTRIBUTES)
    consts = _const_names(am)
    # front end: type table keys and scope sets
    tables = [t for t in type_tables(repo) if t[0].rel == ATTRIBUTE_CHECKER]
    if not tables:
        raise AnalysisError("front-end attribute type table not found")
    tkeys = set()
    for k in tables[0][2]:
        if not k.startswith("attributes."):
            res.add(f"front|type-key|{k}", f"type table key {k} is not a declared attribute constant", ac.rel)
        elif k.split(".", 1)[1] not in consts:
            res.add(f"front|type-key|{k}", f"type table key {k} is not declared in attributes.py", ac.rel)
        tkeys.add(k)
        res.instances += 1
    scopes = {}
    for name, vals in ac.assigns.items():
        v = vals[-1]
        if isinstance(v, ast.Set) and v.elts and all(isinstance(e, ast.Tuple) and len(e.elts) == 2 for e in v.elts):
            scopes[name] = {ast.unparse(e.elts[0]) for e in v.elts}
    if len(scopes) < 6:
        raise AnalysisError(f"attribute_checker: only {len(scopes)} scope sets found")
    for sname, names in scopes.items():
        for n in sorted(names):
            res.instances += 1
            if n not in tkeys:
                res.add(f"front|scope|{sname}|{n}", f"{n} is allowed in scope {sname} but has no entry in the type table "
                        "(KeyError when such an attribute is checked)", ac.rel)
    allowed = set().union(*scopes.values())
    for k in sorted(tkeys - allowed):
        res.add(f"front|unscoped|{k}", f"{k} has a type but is admitted by no scope: the attribute can never be used", ac.rel)
    # every scope set is passed to check_attributes_in_ir
    passed = set()
    for n in ast.walk(ac.tree):
        if isinstance(n, ast.Call) and (call_name(n) or "").endswith("check_attributes_in_ir"):
            for k in n.keywords:
                if isinstance(k.value, ast.Name):
                    passed.add(k.value.id)
    for sname in sorted(set(scopes) - passed):
        res.add(f"front|scope-unused|{sname}", f"scope set {sname} is not passed to check_attributes_in_ir", ac.rel)
    res.instances += len(scopes)
    # every attributes.X read by a front-end/back-end module is admitted by some scope
    for m in repo.compile_path_modules():
        if m.rel in (ATTRIBUTES,):
            continue
        for n in ast.walk(m.tree):
            if isinstance(n, ast.Attribute) and isinstance(n.value, ast.Name) and n.value.id == "attributes" \
                    and m.imports.get("attributes", "").endswith("front_end.attributes") and n.attr.isupper():
                res.instances += 1
                if n.attr not in consts:
                    res.add(f"{m.rel}|attributes.{n.attr}", f"attributes.{n.attr} is not declared", m.rel, n.lineno)
                elif f"attributes.{n.attr}" not in allowed and n.attr != "RANGE":
                    res.add(f"{m.rel}|attributes.{n.attr}|unscoped", f"attributes.{n.attr} is read but admitted by no scope",
                            m.rel, n.lineno)
    # back end
    cm = repo.mod(CPP_ATTRIBUTES)
    btables = [t for t in type_tables(repo) if t[0].rel == CPP_ATTRIBUTES]
    if not btables:
        raise AnalysisError("C++ attribute type table not found")
    bkeys = set(btables[0][2])
    enum_members = set()
    scope_members = {}
    for cname, cnode in cm.classes.items():
        for st in cnode.body:
            if isinstance(st, ast.Assign) and isinstance(st.targets[0], ast.Name):
                if isinstance(st.value, ast.Constant):
                    enum_members.add(f"{cname}.{st.targets[0].id}")
                else:
                    names = {ast.unparse(e.elts[0]) for e in ast.walk(st.value)
                             if isinstance(e, ast.Tuple) and len(e.elts) == 2 and isinstance(e.elts[0], ast.Attribute)}
                    if names:
                        scope_members[f"{cname}.{st.targets[0].id}"] = names
    for k in sorted(bkeys):
        res.instances += 1
        if k not in enum_members:
            res.add(f"cpp|type-key|{k}", f"C++ type table key {k} is not a declared Attribute member", cm.rel)
    for sname, names in scope_members.items():
        for n in sorted(names):
            res.instances += 1
            if n not in bkeys:
                res.add(f"cpp|scope|{sname}|{n}", f"{n} allowed in {sname} but missing from the C++ type table", cm.rel)
    ballowed = set().union(*scope_members.values()) if scope_members else set()
    for k in sorted(bkeys - ballowed):
        res.add(f"cpp|unscoped|{k}", f"{k} has a type but is admitted by no C++ scope", cm.rel)
    hg = repo.mod("compiler/back_end/cpp/header_generator.py")
    passed = set()
    for n in ast.walk(hg.tree):
        if isinstance(n, ast.Call) and (call_name(n) or "").endswith("check_attributes_in_ir"):
            for k in n.keywords:
                passed.add(ast.unparse(k.value))
    for sname in sorted(scope_members):
        res.instances += 1
        if f"attributes.{sname}" not in passed:
            res.add(f"cpp|scope-unused|{sname}", f"C++ scope {sname} is not passed to check_attributes_in_ir", hg.rel)
    res.samples = [f"front-end scopes: {sorted(scopes)}", f"C++ scopes: {sorted(scope_members)}"]
    res.analysed = [ac.rel, am.rel, cm.rel, hg.rel]
    return res


def attrvalues(repo):
    """String values a consumer compares an attribute against are members of the validating set."""
    res = RuleResult("R-ATTRVALUES")
    ac = repo.mod(ATTRIBUTE_CHECKER)
    valid = {}
    for name, vals in ac.assigns.items():
        v = vals[-1]
        if isinstance(v, ast.Call) and (call_name(v) or "").endswith("string_from_list") and v.args:
            try:
                valid[name] = set(ast.literal_eval(v.args[0]))
            except Exception:
                pass
    tables = [t for t in type_tables(repo) if t[0].rel == ATTRIBUTE_CHECKER]
    attr_valid = {}
    tnode = ac.assigns[tables[0][1]][-1]
    for k, v in zip(tnode.keys, tnode.values):
        if isinstance(v, ast.Name) and v.id in valid:
            attr_valid[ast.unparse(k)] = valid[v.id]
    if len(attr_valid) < 2:
        raise AnalysisError("attribute_checker: string_from_list value sets not found")
    all_valid = set().union(*attr_valid.values())
    # consumers: comparisons of `.text` / string constant of an attribute value with a literal that looks
    # like one of these enumerations (CamelCase words)
    byte_orders = attr_valid.get("attributes.BYTE_ORDER", set())
    text_out = attr_valid.get("attributes.TEXT_OUTPUT", set())
    for m in repo.compile_path_modules():
        for n in ast.walk(m.tree):
            if isinstance(n, ast.Compare) and len(n.ops) == 1:
                for a, b in ((n.left, n.comparators[0]), (n.comparators[0], n.left)):
                    if isinstance(b, ast.Constant) and isinstance(b.value, str) and "string_constant" in ast.unparse(a):
                        res.instances += 1
                        src = ast.unparse(a)
                        if b.value not in all_valid and b.value[:1].isupper():
                            f = m.enclosing_func(n)
                            res.add(f"{m.rel}|{f.qualname if f else ''}|{b.value}",
                                    f"attribute value compared with '{b.value}', which no validator admits "
                                    f"(admitted: {sorted(all_valid)})", m.rel, n.lineno, f.qualname if f else "")
    # each byte order has a runtime ByteOrderer class
    rt = repo.read("runtime/cpp/emboss_memory_util.h")
    for bo in sorted(byte_orders):
        res.instances += 1
        if f"{bo}ByteOrderer" not in rt:
            res.add(f"runtime|{bo}ByteOrderer", f"byte order '{bo}' is admitted but runtime has no {bo}ByteOrderer",
                    "runtime/cpp/emboss_memory_util.h")
    res.samples = [f"{k}: {sorted(v)}" for k, v in attr_valid.items()]
    res.analysed = [ac.rel, "runtime/cpp/emboss_memory_util.h"]
    return res


# ---- R-POSCHECK ------------------------------------------------------------------------------
TYPE_CHECK = "compiler/front_end/type_check.py"
REQ_HELPERS = ("_type_check_integer", "_type_check_boolean", "_types_are_compatible")

POSCHECK_EXCLUSIONS = {
    ("Type", "size_in_bits"): "syntactically a numeric constant (grammar: type-size-specifier -> \":\" numeric-constant)",
    ("Field", "read_transform"): "a virtual field may have any value type",
    ("WriteTransform", "function_body"): "synthesised by write_inference from already-checked expressions",
}


def _w_size_specifier_is_constant(repo):
    from .. import grammar as G
    g = G.ir_grammar(repo)
    rhs = [r for l, r in g["productions"] if l == "type-size-specifier"]
    return bool(rhs) and all(r[-1] == "numeric-constant" for r in rhs)


def _dominating_guards(m, f, call, attr):
    """Conditions under which `call` (a statement-level helper call in f) is skipped: enclosing if/loop tests and
    earlier `if ...: return` statements.  A guard that only skips nodes whose `attr` is unset is not a skip of the
    requirement and is left out."""
    st = call
    while not isinstance(st, ast.stmt):
        st = m.parent(st)
    out = []

    def benign(test):
        t = test.operand if isinstance(test, ast.UnaryOp) and isinstance(test.op, ast.Not) else test
        return isinstance(t, ast.Call) and isinstance(t.func, ast.Attribute) and t.func.attr in ("has_field", "HasField") \
            and t.args and isinstance(t.args[0], ast.Constant) and t.args[0].value == attr

    cur = st
    while cur is not f.node:
        par = m.parent(cur)
        if par is None:
            break
        for fld in ("body", "orelse"):
            blk = getattr(par, fld, None)
            if isinstance(blk, list) and cur in blk:
                for prev in blk[:blk.index(cur)]:
                    if isinstance(prev, ast.If) and any(isinstance(x, (ast.Return, ast.Continue, ast.Raise)) for x in ast.walk(prev)) \
                            and not benign(prev.test):
                        out.append(f"skipped when `{ast.unparse(prev.test)}`")
                if isinstance(par, ast.If) and not benign(par.test):
                    out.append(f"only when `{ast.unparse(par.test)}` is {'true' if fld == 'body' else 'false'}")
                elif isinstance(par, (ast.For, ast.While)):
                    out.append("inside a loop")
        cur = par
    return out


def poscheck(repo, schema=None, sites=None, only=None):
    from . import traversal as T
    res = RuleResult("R-POSCHECK")
    schema = schema or Schema(repo)
    sites = sites if sites is not None else T.collect_sites(repo, schema)
    tc = repo.mod(TYPE_CHECK)
    positions = []
    for cls, fields in schema.classes.items():
        if cls in ("Expression", "Function"):
            continue
        for f in fields.values():
            if f.type == "Expression":
                positions.append((cls, f.name))
    if len(positions) < 8:
        raise AnalysisError(f"only {len(positions)} expression positions in the schema")
    # requirement sites in type_check
    req_sites = []  # (func, last attr, call)
    call_nodes = {}  # (func fq, attr) -> helper call on <param>.<attr>
    compat_nodes = {}  # (func fq, attr) -> (_types_are_compatible call whose checked side is <param>.<attr>[..], "<param>.<attr>")
    for f in tc.funcs.values():
        for n in walk_no_nested_funcs(f.node):
            if isinstance(n, ast.Call):
                cn = (call_name(n) or "").split(".")[-1]
                if cn.startswith(REQ_HELPERS):
                    for a in n.args:
                        x = a
                        while isinstance(x, ast.Subscript):
                            x = x.value
                        if isinstance(x, ast.Attribute):
                            req_sites.append((f, x.attr, "helper " + cn))
                            if isinstance(x.value, ast.Name) and cn.startswith("_type_check_") and len(n.args) >= 1 and a is n.args[0]:
                                call_nodes[(f.fq, x.attr)] = n
                            if isinstance(x.value, ast.Name) and cn == "_types_are_compatible" and a is n.args[0]:
                                compat_nodes[(f.fq, x.attr)] = (n, ast.unparse(x))
                        elif isinstance(x, ast.Name):
                            req_sites.append((f, "<self>", "helper " + cn))
            if isinstance(n, ast.Compare):
                for side in [n.left] + n.comparators:
                    s = ast.unparse(side)
                    if s.endswith(".type.which_type"):
                        root, chain = attr_chain(side)
                        inner = side.value.value  # strip .type.which_type
                        while isinstance(inner, ast.Subscript):
                            inner = inner.value
                        if isinstance(inner, ast.Attribute):
                            req_sites.append((f, inner.attr, "which_type comparison"))
    # which action handles which node type
    action_types = {}
    for s in sites:
        if s.module.rel == TYPE_CHECK and s.action is not None and s.pattern:
            action_types.setdefault(s.action.fq, set()).add(tuple(s.pattern))
    attr_owner_count = {}
    for cls, fname in positions:
        attr_owner_count[fname] = attr_owner_count.get(fname, 0) + 1
    for cls, fname in sorted(positions):
        res.instances += 1
        if (cls, fname) in POSCHECK_EXCLUSIONS:
            if (cls, fname) == ("Type", "size_in_bits") and not _w_size_specifier_is_constant(repo):
                res.add(f"{cls}.{fname}", f"{cls}.{fname}: exclusion no longer holds (size specifier is not a numeric constant)")
            continue
        if (cls, fname) == ("AttributeValue", "expression"):
            # typed by the attribute validators (R-ATTRTABLE / R-VALIDATORGUARD)
            continue
        found = []
        for f, attr, how in req_sites:
            if attr == fname:
                pats = action_types.get(f.fq, set())
                if any(p[-1] == cls for p in pats) or not pats:
                    found.append((f, how))
            elif attr == "<self>":
                pats = action_types.get(f.fq, set())
                # pattern [C, Expression] / [Expression] under C: requirement on the expression itself
                if any(len(p) >= 2 and p[-1] == "Expression" and p[-2] == cls for p in pats):
                    found.append((f, how))
        if found:
            if len(res.samples) < 3:
                res.samples.append(f"{cls}.{fname}: {found[0][0].name} ({found[0][1]})")
            # the positional requirement holds for every node of the class: the helper call is not skipped for some of them
            # a binary compatibility check may be excused by the *declared* side (validated where it is declared), never by
            # the kind of the expression being checked
            for f, how in found:
                if (f.fq, fname) in compat_nodes:
                    call, checked = compat_nodes[(f.fq, fname)]
                    own = [g for g in _dominating_guards(tc, f, call, fname) if checked + "[" in g or checked + "." in g]
                    if own:
                        res.add(f"{cls}.{fname}|excused-by-own-type", f"{f.name} skips the compatibility check of {cls}.{fname} depending on "
                                f"the checked expression itself ({'; '.join(own)}): expressions of exactly the kinds that cannot be "
                                "compatible are never compared with the declared type", tc.rel, call.lineno, f.name)
            direct = [(f, call_nodes[(f.fq, fname)]) for f, how in found if (f.fq, fname) in call_nodes]
            if direct and len(direct) == len(found):
                blocked = []
                for f, call in direct:
                    g = _dominating_guards(tc, f, call, fname)
                    if g:
                        blocked.append((f, call, g))
                if len(blocked) == len(direct):
                    f, call, g = blocked[0]
                    res.add(f"{cls}.{fname}|conditional", f"{f.name} requires the type of {cls}.{fname} only under a condition "
                            f"({'; '.join(g)}): for the other {cls} nodes an expression of any type is accepted in that position",
                            tc.rel, call.lineno, f.name)
            continue
        res.add(f"{cls}.{fname}", f"no positional type requirement for {cls}.{fname}: an expression of any type is "
                f"accepted in that position (e.g. a boolean or an enum where an integer is needed)", tc.rel, 0, "check_types")
    res.analysed = [tc.rel, "compiler/util/ir_data.py"]
    seen_keys = set()
    uniq = []
    for x in res.findings:
        if x.key not in seen_keys:
            seen_keys.add(x.key)
            uniq.append(x)
    res.findings = uniq
    if only is not None:
        res.findings = [x for x in res.findings if any(p in x.key for p in only)]
    return res


def _find_type_judge(repo):
    tc = repo.mod(TYPE_CHECK)
    for f in tc.top_funcs():
        params = [a.arg for a in f.node.args.args]
        if len(params) != 2:
            continue
        a, b = params
        for n in walk_no_nested_funcs(f.node):
            if isinstance(n, ast.Compare) and len(n.ops) == 1:
                l, r = ast.unparse(n.left), ast.unparse(n.comparators[0])
                if {l, r} == {f"{a}.type.which_type", f"{b}.type.which_type"}:
                    return tc, f
    raise AnalysisError("type_check: the type-compatibility judgment function was not found")


def typeeq(repo):
    res = RuleResult("R-TYPEEQ")
    tc, judge = _find_type_judge(repo)
    a, b = [x.arg for x in judge.node.args.args]
    # (1) the judgment itself: in the enumeration case it compares the *whole* identity of the two enum types
    res.instances += 1
    enum_cmp = None
    for n in walk_no_nested_funcs(judge.node):
        if isinstance(n, ast.Compare) and "enumeration" in ast.unparse(n) and len(n.ops) == 1:
            l, r = n.left, n.comparators[0]
            if "which_type" in ast.unparse(l):
                continue
            enum_cmp = (l, r, n)
    if enum_cmp is None:
        res.add(f"{tc.rel}|{judge.name}|enum", f"{judge.name} no longer compares the enum types of its two arguments",
                tc.rel, judge.line, judge.name)
    else:
        l, r, node = enum_cmp
        ls, rs = ast.unparse(l), ast.unparse(r)
        sym = ls.replace(f"{a}.", "#.") == rs.replace(f"{b}.", "#.") or ls.replace(f"{b}.", "#.") == rs.replace(f"{a}.", "#.")
        projected = any(isinstance(x, ast.Subscript) for x in ast.walk(l)) or any(isinstance(x, ast.Subscript) for x in ast.walk(r)) \
            or ".text" in ls or "object_path" in ls or "module_file" in ls
        whole = "type.enumeration.name" in ls and (ls.endswith("type.enumeration.name)") or ls.endswith(".canonical_name")
                                                   or ls.endswith("type.enumeration.name"))
        if not sym or projected or not whole:
            res.add(f"{tc.rel}|{judge.name}|enum-identity", f"{judge.name} decides that two enum types are the same by comparing "
                    f"`{ls}` with `{rs}`: only the complete canonical name (module and full path) identifies an enum; two "
                    "different enums that share part of their name would be treated as one type", tc.rel, node.lineno, judge.name)
    # (2) nobody else decides type agreement by kind alone
    for m in repo.compile_path_modules():
        if not m.rel.startswith("compiler/front_end/"):
            continue
        for f in m.funcs.values():
            for n in walk_no_nested_funcs(f.node):
                if isinstance(n, ast.Compare) and len(n.ops) == 1 and isinstance(n.ops[0], (ast.Eq, ast.NotEq)):
                    l, r = ast.unparse(n.left), ast.unparse(n.comparators[0])
                    if l.endswith(".type.which_type") and r.endswith(".type.which_type") and l != r:
                        res.instances += 1
                        if f is judge:
                            continue
                        res.add(f"{m.rel}|{f.qualname}|{l}", f"{f.qualname} decides type agreement by comparing only the kind "
                                f"(`{l}` vs `{r}`): two different enums are of one kind; use {judge.name}",
                                m.rel, n.lineno, f.qualname)
    res.samples = [f"judge: {judge.fq}"]
    res.analysed = [tc.rel]
    return res


OPSIG = {
    "ADDITION": ("_annotate_as_integer", "_type_check_integer", 2, 2),
    "SUBTRACTION": ("_annotate_as_integer", "_type_check_integer", 2, 2),
    "MULTIPLICATION": ("_annotate_as_integer", "_type_check_integer", 2, 2),
    "AND": ("_annotate_as_boolean", "_type_check_boolean", 2, 2),
    "OR": ("_annotate_as_boolean", "_type_check_boolean", 2, 2),
    "MAXIMUM": ("_annotate_as_integer", "_type_check_integer", 1, None),
    "PRESENCE": ("_annotate_as_boolean", "_kind_check_field_reference", 1, 1),
    "UPPER_BOUND": ("_annotate_as_integer", "_type_check_integer", 1, 1),
    "LOWER_BOUND": ("_annotate_as_integer", "_type_check_integer", 1, 1),
}


def opsig(repo):
    """Rows of the monomorphic operator table equal the documented signatures."""
    res = RuleResult("R-OPSIG")
    tc = repo.mod(TYPE_CHECK)
    target = None
    for f in tc.top_funcs():
        for n in walk_no_nested_funcs(f.node):
            if isinstance(n, ast.Assign) and isinstance(n.value, ast.Dict) and len(n.value.keys) >= 5 and \
                    all(k is not None and (dotted_name(k) or "").startswith("ir_data.FunctionMapping.") for k in n.value.keys) \
                    and all(isinstance(v, ast.Tuple) and len(v.elts) >= 5 for v in n.value.values):
                target = (f, n.value)
    if target is None:
        raise AnalysisError("type_check: operator signature table not found")
    f, table = target
    alias = {}
    for n in walk_no_nested_funcs(f.node):
        if isinstance(n, ast.Assign) and len(n.targets) == 1 and isinstance(n.targets[0], ast.Name) and isinstance(n.value, ast.Name):
            alias[n.targets[0].id] = n.value.id
        elif isinstance(n, ast.Assign) and len(n.targets) == 1 and isinstance(n.targets[0], ast.Name) and isinstance(n.value, ast.Call) \
                and (call_name(n.value) or "").split(".")[-1] == "partial" and n.value.args and isinstance(n.value.args[0], ast.Name):
            alias[n.targets[0].id] = n.value.args[0].id      # functools.partial(checker, <context>) is still that checker
    rows = {}
    for k, v in zip(table.keys, table.values):
        name = dotted_name(k).rsplit(".", 1)[1]
        e = v.elts

        def nm(x):
            return alias.get(x.id, x.id) if isinstance(x, ast.Name) else ast.unparse(x)
        try:
            rows[name] = (nm(e[0]), nm(e[1]), ast.literal_eval(e[3]), ast.literal_eval(e[4]))
        except Exception:
            raise AnalysisError(f"type_check: row {name} of the operator table is not literal")
    for name, want in OPSIG.items():
        res.instances += 1
        have = rows.get(name)
        if have is None:
            continue  # absence is R-DISPATCH's business
        if have != want:
            res.add(f"{tc.rel}|{f.qualname}|{name}", f"operator table row {name} is (result={have[0]}, args={have[1]}, "
                    f"min={have[2]}, max={have[3]}); the documented signature is (result={want[0]}, args={want[1]}, "
                    f"min={want[2]}, max={want[3]})", tc.rel, table.lineno, f.qualname)
    # the row's argument check is applied to *every* argument: the loop that calls it iterates the operator's whole
    # argument list (variadic $max has min_args == 1, so a prefix of the arguments is not enough)
    tuple_names = []
    for n in walk_no_nested_funcs(f.node):
        if isinstance(n, ast.Assign) and isinstance(n.targets[0], ast.Tuple) and isinstance(n.value, ast.Subscript) \
                and "functions" in ast.unparse(n.value):
            tuple_names = [e.id for e in n.targets[0].elts if isinstance(e, ast.Name)]
    checker = tuple_names[1] if len(tuple_names) > 1 else "check_arg"
    loops = [n for n in walk_no_nested_funcs(f.node) if isinstance(n, ast.For)
             and any(isinstance(c, ast.Call) and isinstance(c.func, ast.Name) and c.func.id == checker for c in ast.walk(n))]
    res.instances += 1
    if not loops:
        res.add(f"{tc.rel}|{f.qualname}|argument-loop", f"no loop applies `{checker}` to the operator's arguments", tc.rel, table.lineno, f.qualname)
    for lp in loops:
        it = lp.iter
        first = it.args[0] if isinstance(it, ast.Call) and (call_name(it) or "") in ("zip", "enumerate") and it.args else it
        whole = isinstance(first, ast.Name) and alias_of_args(f, first.id) or ast.unparse(first).endswith("function.args")
        if not whole:
            res.add(f"{tc.rel}|{f.qualname}|argument-loop", f"the argument check runs over `{ast.unparse(first)}`, not over all arguments "
                    "of the operator: later arguments of a variadic function (`$max(a, true)`) are never type-checked and crash "
                    "the bounds computation", tc.rel, lp.lineno, f.qualname)
    for name in sorted(set(rows) - set(OPSIG)):
        res.notes.append(f"operator table has an additional row {name} (no documented signature on file)")
    res.samples = [f"{k}: {v}" for k, v in list(rows.items())[:2]]
    res.analysed = [tc.rel]
    return res


def alias_of_args(f, name):
    """name is bound (once) to `<expression>.function.args`."""
    vals = [n.value for n in walk_no_nested_funcs(f.node) if isinstance(n, ast.Assign) and len(n.targets) == 1
            and isinstance(n.targets[0], ast.Name) and n.targets[0].id == name]
    return len(vals) == 1 and ast.unparse(vals[0]).endswith("function.args")


def first_contact_asserts(repo, schema=None):
    """Attribute readers reached before attribute lists are verified must not assert on them."""
    res = RuleResult("R-FIRSTCONTACT-ASSERT")
    _, passes, _ = P.find_passes(repo)
    refs = repo.refs()
    early = []
    for p in passes:
        if "normalize" in p.name and "verify" in p.name:
            break
        early.append(p)
    seen = set()
    work = [p.fq for p in early]
    while work:
        k = work.pop()
        if k in seen:
            continue
        seen.add(k)
        work.extend(g.fq for g in refs.get(k, ()))
    iu = repo.mod("compiler/util/ir_util.py")
    res.instances += len(early)          # the early passes whose call graph was searched
    for f in iu.top_funcs():
        if "attribute" in f.name and f.fq in seen:
            params = {a.arg for a in f.node.args.args}
            if not (params & {"attribute_list", "attributes", "attribute"}):
                continue
            res.instances += 1
            res.analysed.append(f"{f.file}:{f.qualname}")
            for n in walk_no_nested_funcs(f.node):
                if isinstance(n, ast.Assert) and not (isinstance(n.test, ast.Constant)):
                    res.add(f"{f.file}|{f.qualname}|assert|{ast.unparse(n.test)[:40]}",
                            f"{f.qualname} is reached from passes that run before attribute lists are verified "
                            f"(duplicates, value kinds) but asserts `{ast.unparse(n.test)[:60]}`: user input that "
                            "violates it crashes the compiler instead of producing an error", f.file, n.lineno, f.qualname)
    return res


# ---- positive control -------------------------------------------------------------------
def control(repo):
    """A validator with an unguarded deref registered in an overlay of the C++ attribute table."""
    src = repo.read(CPP_ATTRIBUTES)
    new = src + '''

def _bad_validator(attr, module_source_file):
    if attr.value.string_constant.text == "x":
        return []
    return []

TYPES2 = {
    Attribute.NAMESPACE: _bad_validator,
    Attribute.ENUM_CASE: _bad_validator,
}
'''
    r2 = Repo(repo.root, overlay={CPP_ATTRIBUTES: new})
    return any("_bad_validator" in f.construct for f in validatorguard(r2).findings)


# ---- R-ENUMINFER ------------------------------------------------------------------------------------
def enuminfer(repo):
    """R-ENUMINFER (C19): the defaults an enum gets for `maximum_bits` and `is_signed`.
    * each attribute is added only under `<value read for that same attribute> is None`, and the attribute constructed
      in that branch is the one that was read (no crossed names);
    * the default width is the documented 64 (language-reference: "If not specified, maximum_bits defaults to 64");
    * `is_signed` is inferred True exactly when some value is `< 0` (strict comparison with the literal 0 of the
      value's constant), False in the loop's else."""
    res = RuleResult("R-ENUMINFER")
    m = repo.mod(ATTRIBUTE_CHECKER)
    f = None
    for g in m.top_funcs():
        src = m.seg(g.node)
        if "ENUM_MAXIMUM_BITS" in src and "IS_SIGNED" in src and "extend" in src:
            f = g
    if f is None:
        raise AnalysisError("attribute_checker: the function adding enum width/sign defaults was not found")
    reads = {}
    for n in walk_no_nested_funcs(f.node):
        if isinstance(n, ast.Assign) and isinstance(n.value, ast.Call) and (call_name(n.value) or "").split(".")[-1].startswith("get_") \
                and len(n.value.args) >= 2 and isinstance(n.targets[0], ast.Name):
            reads[n.targets[0].id] = ast.unparse(n.value.args[1])
    branches = 0
    for n in walk_no_nested_funcs(f.node):
        if isinstance(n, ast.If) and isinstance(n.test, ast.Compare) and isinstance(n.test.ops[0], ast.Is) \
                and isinstance(n.test.left, ast.Name) and n.test.left.id in reads:
            want = reads[n.test.left.id]
            built = [ast.unparse(c.args[0]) for st in n.body for c in ast.walk(st) if isinstance(c, ast.Call)
                     and (call_name(c) or "").startswith("_construct_") and c.args]
            branches += 1
            res.instances += 1
            if built != [want]:
                res.add(f"{ATTRIBUTE_CHECKER}|{f.name}|{want}|crossed", f"{f.name}: when {want} is missing the attribute(s) {built} are added",
                        ATTRIBUTE_CHECKER, n.lineno, f.name)
            if "MAXIMUM_BITS" in want:
                for st in n.body:
                    for c in ast.walk(st):
                        if isinstance(c, ast.Call) and (call_name(c) or "").startswith("_construct_") and len(c.args) >= 2:
                            v = c.args[1]
                            val = v.value if isinstance(v, ast.Constant) else None
                            if isinstance(v, ast.Name) and v.id in m.assigns and isinstance(m.assigns[v.id][-1], ast.Constant):
                                val = m.assigns[v.id][-1].value
                            res.instances += 1
                            if val != 64:
                                res.add(f"{ATTRIBUTE_CHECKER}|{f.name}|default-bits", f"the default maximum_bits of an enum is {val}; "
                                        "documented: 64", ATTRIBUTE_CHECKER, c.lineno, f.name)
            if "IS_SIGNED" in want:
                loops = [x for st in n.body for x in ast.walk(st) if isinstance(x, ast.For)]
                res.instances += 1
                ok = False
                for lp in loops:
                    tests = [x for x in ast.walk(lp) if isinstance(x, ast.If)]
                    for t in tests:
                        c = t.test
                        if isinstance(c, ast.BoolOp) and isinstance(c.op, ast.And):
                            # `v is not None and v < 0`: a value that is not known yet is not negative
                            rest = [v for v in c.values if not (isinstance(v, ast.Compare) and len(v.ops) == 1
                                                                and isinstance(v.ops[0], ast.IsNot)
                                                                and isinstance(v.comparators[0], ast.Constant)
                                                                and v.comparators[0].value is None)]
                            if len(rest) == 1:
                                c = rest[0]
                        strict = isinstance(c, ast.Compare) and len(c.ops) == 1 and (
                            (isinstance(c.ops[0], ast.Lt) and isinstance(c.comparators[0], ast.Constant) and c.comparators[0].value == 0)
                            or (isinstance(c.ops[0], ast.Gt) and isinstance(c.left, ast.Constant) and c.left.value == 0))
                        sets_true = any(isinstance(a, ast.Assign) and isinstance(a.value, ast.Constant) and a.value.value is True for a in t.body)
                        sets_false = any(isinstance(a, ast.Assign) and isinstance(a.value, ast.Constant) and a.value.value is False for a in lp.orelse)
                        if strict and sets_true and sets_false and any(isinstance(b, ast.Break) for b in t.body):
                            ok = True
                if not ok:
                    res.add(f"{ATTRIBUTE_CHECKER}|{f.name}|sign-inference", f"{f.name}: is_signed is not inferred as 'some value < 0' "
                            "(True on the first negative value, False in the loop's else): an enum with a negative value gets an "
                            "unsigned representation, or a non-negative one a signed one", ATTRIBUTE_CHECKER, n.lineno, f.name)
    if branches < 2:
        raise AnalysisError(f"{f.name}: only {branches} default branches recognised")
    res.samples = [f"{f.name}: defaults for {sorted(reads.values())}"]
    res.analysed = [ATTRIBUTE_CHECKER]
    return res


# ---- R-BYTEORDERREQ -----------------------------------------------------------------------------------
def _bo_eval(node, env):
    """Evaluates a condition of the byte-order validator over the abstract facts in env."""
    if isinstance(node, ast.BoolOp):
        vals = [_bo_eval(v, env) for v in node.values]
        return all(vals) if isinstance(node.op, ast.And) else any(vals)
    if isinstance(node, ast.UnaryOp) and isinstance(node.op, ast.Not):
        return not _bo_eval(node.operand, env)
    if isinstance(node, ast.Compare) and len(node.ops) == 1:
        l, r = ast.unparse(node.left), node.comparators[0]
        if isinstance(node.ops[0], (ast.Is, ast.IsNot)) and isinstance(r, ast.Constant) and r.value is None and l in env["names"]:
            present = env["names"][l]
            return (not present) if isinstance(node.ops[0], ast.Is) else bool(present)
        if isinstance(node.ops[0], (ast.Eq, ast.NotEq)) and l.endswith(".string_constant.text") and isinstance(r, ast.Constant):
            eq = env["text"] == r.value
            return eq if isinstance(node.ops[0], ast.Eq) else not eq
        if isinstance(node.ops[0], ast.In) and isinstance(node.left, ast.Attribute) and ast.unparse(r) == "defaults":
            return env["default"]
    if isinstance(node, ast.Name) and node.id in env["names"]:
        return bool(env["names"][node.id])
    if isinstance(node, ast.Constant):
        return bool(node.value)
    if isinstance(node, ast.Call):
        cn = (call_name(node) or "").split(".")[-1]
        if cn in env["calls"]:
            return env["calls"][cn]
    raise ValueError(ast.unparse(node))


def byteorderreq(repo):
    """R-BYTEORDERREQ (C14, C01): the byte_order rules, decided on the whole truth table of
    (attribute present, field needs a byte order, value is "Null", "Null" permitted):
    * the validator reports an error exactly when (present and not needed) or (absent and needed) or
      (present, "Null", and "Null" not permitted);
    * the defaulting pass adds an attribute only when it is needed and absent, taking `$default` first and "Null" only
      when permitted;
    * a field needs a byte order exactly when its type's addressable unit differs from the enclosing structure's
      (never for virtual fields)."""
    res = RuleResult("R-BYTEORDERREQ")
    m = repo.mod(ATTRIBUTE_CHECKER)
    ver = m.funcs.get("_verify_byte_order_attribute_on_field")
    add = m.funcs.get("_add_missing_byte_order_attribute_on_field")
    need = m.funcs.get("_field_needs_byte_order")
    if not (ver and add and need):
        raise AnalysisError("attribute_checker: byte-order functions vanished")
    # locals of the validator: name -> what it abstracts
    role = {}
    for n in ver.node.body:
        if isinstance(n, ast.Assign) and isinstance(n.value, ast.Call) and isinstance(n.targets[0], ast.Name):
            cn = (call_name(n.value) or "").split(".")[-1]
            if cn == "get_attribute":
                role[n.targets[0].id] = "attr"
            elif cn == "_field_needs_byte_order":
                role[n.targets[0].id] = "needs"
    ifs = [n for n in ver.node.body if isinstance(n, ast.If)]
    import itertools
    for present, needs, null, may_null in itertools.product((False, True), repeat=4):
        if null and not present:
            continue
        res.instances += 1
        env = {"names": {k: (present if v == "attr" else needs) for k, v in role.items()}, "text": "Null" if null else "BigEndian",
               "calls": {"_field_may_have_null_byte_order": may_null, "_field_needs_byte_order": needs}, "default": False}
        try:
            got = any(_bo_eval(i.test, env) for i in ifs if any(isinstance(x, ast.Call) and (call_name(x) or "").startswith("error.")
                                                                for x in ast.walk(i)))
        except ValueError as e:
            raise AnalysisError(f"{ver.name}: condition `{e}` not understood")
        want = (present and not needs) or (not present and needs) or (present and null and not may_null)
        if got != want:
            res.add(f"{ATTRIBUTE_CHECKER}|{ver.name}|{int(present)}{int(needs)}{int(null)}{int(may_null)}",
                    f"{ver.name}: for byte_order {'present' if present else 'absent'}, field {'needing' if needs else 'not needing'} one, "
                    f"value {'Null' if null else 'not Null'}, Null {'permitted' if may_null else 'not permitted'}: "
                    f"{'an error is reported' if got else 'no error is reported'}; the documented rule says the opposite",
                    ATTRIBUTE_CHECKER, ver.line, ver.name)
    # defaulting pass: collect (guards, attribute source) for each extend
    adds = []

    def visit(stmts, guards):
        for st in stmts:
            if isinstance(st, ast.If):
                visit(st.body, guards + [(st.test, True)])
                visit(st.orelse, guards + [(st.test, False)])
            elif isinstance(st, ast.Assign):
                if isinstance(st.value, ast.Call) and (call_name(st.value) or "").endswith("get_attribute") and isinstance(st.targets[0], ast.Name):
                    arole[st.targets[0].id] = "attr"
            elif isinstance(st, ast.Expr) and isinstance(st.value, ast.Call) and isinstance(st.value.func, ast.Attribute) \
                    and st.value.func.attr == "extend":
                kind = "default" if "defaults[" in ast.unparse(st.value) else ("null" if '"Null"' in ast.unparse(st.value) or "'Null'" in ast.unparse(st.value) else "other")
                adds.append((guards, kind))
    arole = {}
    visit(add.node.body, [])
    if len(adds) < 2:
        raise AnalysisError(f"{add.name}: attribute insertions not found")
    for present, needs, has_default, may_null in itertools.product((False, True), repeat=4):
        res.instances += 1
        env = {"names": {k: present for k in arole}, "text": "", "default": has_default,
               "calls": {"_field_may_have_null_byte_order": may_null, "_field_needs_byte_order": needs}}
        try:
            fired = [kind for guards, kind in adds if all(_bo_eval(t, env) == w for t, w in guards)]
        except ValueError as e:
            raise AnalysisError(f"{add.name}: condition `{e}` not understood")
        want = []
        if needs and not present:
            want = ["default"] if has_default else (["null"] if may_null else [])
        if fired != want:
            res.add(f"{ATTRIBUTE_CHECKER}|{add.name}|{int(present)}{int(needs)}{int(has_default)}{int(may_null)}",
                    f"{add.name}: byte_order {'present' if present else 'absent'}, {'needed' if needs else 'not needed'}, $default "
                    f"{'set' if has_default else 'unset'}, Null {'permitted' if may_null else 'not permitted'}: adds {fired or 'nothing'}, "
                    f"expected {want or 'nothing'}", ATTRIBUTE_CHECKER, add.line, add.name)
    # what "needs" means
    res.instances += 1
    rets = [n for n in walk_no_nested_funcs(need.node) if isinstance(n, ast.Return)]
    final = max(rets, key=lambda r_: r_.lineno).value if rets else None
    ok = isinstance(final, ast.Compare) and isinstance(final.ops[0], ast.NotEq) and \
        {ast.unparse(final.left).split(".")[-1], ast.unparse(final.comparators[0]).split(".")[-1]} == {"addressable_unit"} and \
        ast.unparse(final.left) != ast.unparse(final.comparators[0])
    virt = any(isinstance(n, ast.If) and "field_is_virtual" in ast.unparse(n.test) and any(
        isinstance(r, ast.Return) and isinstance(r.value, ast.Constant) and r.value.value is False for r in n.body) for n in need.node.body)
    if not ok or not virt:
        res.add(f"{ATTRIBUTE_CHECKER}|{need.name}|definition", f"{need.name} is no longer 'not virtual and the type's addressable unit differs "
                "from the structure's'", ATTRIBUTE_CHECKER, need.line, need.name)
    res.samples = [f"{ver.name}: 12 cases; {add.name}: 16 cases"]
    res.analysed = [ATTRIBUTE_CHECKER]
    return res


# ---- R-ATTRTYPE -------------------------------------------------------------------------------------------
def attrtype(repo):
    """R-ATTRTYPE (C13): the attribute value type checkers of attribute_util (`_is_boolean`, `_is_constant_boolean`,
    `_is_constant_integer`, `_is_string`).  Each is a chain of `if <test>: return [error]` ending in `return []`.
    The tests are evaluated over the value kind (expression of type integer / boolean / enumeration / opaque, string,
    or nothing) with every sub-test the rule does not interpret (is_constant(...), has_field("value"), ...) ranging
    over both truth values: a value of the wrong kind must be rejected whatever those say."""
    import itertools
    res = RuleResult("R-ATTRTYPE")
    m = repo.mod("compiler/util/attribute_util.py")
    wanted = {"boolean": ("expr", "boolean"), "integer": ("expr", "integer"), "string": ("string", None)}
    found = 0
    for f in m.top_funcs():
        if not f.name.startswith("_is_"):
            continue
        kind = next((k for k in wanted if k in f.name), None)
        if kind is None:
            continue
        found += 1
        form, wt = wanted[kind]
        tests = [n.test for n in f.node.body if isinstance(n, ast.If)
                 and any(isinstance(r, ast.Return) and not (isinstance(r.value, ast.List) and not r.value.elts) for r in n.body)]
        if not tests:
            raise AnalysisError(f"{f.name}: no rejecting test found")

        def atoms(t, acc):
            if isinstance(t, ast.BoolOp):
                for v in t.values:
                    atoms(v, acc)
            elif isinstance(t, ast.UnaryOp) and isinstance(t.op, ast.Not):
                atoms(t.operand, acc)
            else:
                acc.append(t)

        def ev(t, env, free):
            if isinstance(t, ast.BoolOp):
                vals = [ev(v, env, free) for v in t.values]
                return all(vals) if isinstance(t.op, ast.And) else any(vals)
            if isinstance(t, ast.UnaryOp) and isinstance(t.op, ast.Not):
                return not ev(t.operand, env, free)
            src = ast.unparse(t)
            if isinstance(t, ast.Call) and isinstance(t.func, ast.Attribute) and t.func.attr == "has_field" and t.args \
                    and isinstance(t.args[0], ast.Constant) and ast.unparse(t.func.value).endswith(".value"):
                return env["has"] == t.args[0].value
            if isinstance(t, ast.Compare) and len(t.ops) == 1 and ast.unparse(t.left).endswith(".type.which_type") \
                    and isinstance(t.comparators[0], ast.Constant):
                eq = env["which_type"] == t.comparators[0].value
                return eq if isinstance(t.ops[0], ast.Eq) else (not eq if isinstance(t.ops[0], ast.NotEq) else free[src])
            return free[src]

        all_atoms = []
        for t in tests:
            atoms(t, all_atoms)
        free_names = []
        for a in all_atoms:
            s_ = ast.unparse(a)
            interp = (isinstance(a, ast.Call) and isinstance(a.func, ast.Attribute) and a.func.attr == "has_field"
                      and ast.unparse(a.func.value).endswith(".value")) or \
                     (isinstance(a, ast.Compare) and ast.unparse(a.left).endswith(".type.which_type")
                      and isinstance(a.ops[0], (ast.Eq, ast.NotEq)))
            if not interp and s_ not in free_names:
                free_names.append(s_)
        if len(free_names) > 6:
            raise AnalysisError(f"{f.name}: too many uninterpreted sub-tests")
        kinds = [("expression", "integer"), ("expression", "boolean"), ("expression", "enumeration"), ("expression", "opaque"),
                 ("string_constant", None), (None, None)]
        for has, wtype in kinds:
            ok_kind = (form == "expr" and has == "expression" and wtype == wt) or (form == "string" and has == "string_constant")
            if ok_kind:
                continue
            res.instances += 1
            for combo in itertools.product((False, True), repeat=len(free_names)):
                free = dict(zip(free_names, combo))
                env = {"has": has, "which_type": wtype}
                rejected = any(ev(t, env, free) for t in tests)
                if not rejected:
                    what = f"an expression of type {wtype}" if has == "expression" else ("a string" if has else "an empty value")
                    res.add(f"{m.rel}|{f.name}|{has}|{wtype}", f"{f.name} accepts {what}"
                            + (f" when {', '.join(k for k, v in free.items() if v) or 'the other sub-tests are false'}" if free_names else "")
                            + f": the attribute is documented as {kind}, and later passes read it as such", m.rel, f.line, f.name)
                    break
    if found < 4:
        raise AnalysisError(f"attribute_util: only {found} value type checkers found")
    res.samples = [f"{found} checkers, each against 5 wrong value kinds"]
    res.analysed = [m.rel]
    return res


# ---- R-PHYSREQ -------------------------------------------------------------------------------------------
def physreq(repo, schema=None, sites=None):
    """R-PHYSREQ (C14): the prelude's `[static_requirements]` (width limits of UInt/Int/Bcd/Flag/Float ...) are evaluated
    by one function (the one that reads the STATIC_REQUIREMENTS attribute).  A physical type occurs on fields and on
    runtime parameters; for each of the two node kinds some traversal registered in constraints.py must run an action
    from which that function is reachable, otherwise unrealisable widths are accepted for that kind of use."""
    from . import traversal as T
    res = RuleResult("R-PHYSREQ")
    schema = schema or Schema(repo)
    sites = sites if sites is not None else T.collect_sites(repo, schema)
    cons = repo.mod("compiler/front_end/constraints.py")
    target = None
    for f in cons.top_funcs():
        if any(isinstance(n, ast.Attribute) and n.attr == "STATIC_REQUIREMENTS" for n in walk_no_nested_funcs(f.node)) \
                and any(isinstance(n, ast.Call) and (call_name(n) or "").endswith("get_attribute") for n in walk_no_nested_funcs(f.node)):
            target = f
    if target is None:
        raise AnalysisError("constraints: the function evaluating [static_requirements] was not found")
    refs = repo.refs()

    def reaches(fq):
        seen, work = set(), [fq]
        while work:
            k = work.pop()
            if k in seen:
                continue
            seen.add(k)
            work.extend(g.fq for g in refs.get(k, ()))
        return target.fq in seen

    for kind in ("Type", "RuntimeParameter"):  # field types are visited as [Structure, Type]
        res.instances += 1
        acts = [s.action for s in sites if s.module.rel == cons.rel and s.action is not None and s.pattern and s.pattern[-1] == kind]
        if not acts:
            raise AnalysisError(f"constraints: no traversal over {kind}")
        if not any(reaches(a.fq) for a in acts):
            res.add(f"{cons.rel}|{target.name}|{kind}", f"no validator registered for {kind} nodes reaches {target.name}: the prelude's "
                    f"static requirements (e.g. 1 <= width <= 64) are not evaluated for the physical type of a "
                    f"{'runtime parameter' if kind == 'RuntimeParameter' else 'field'} ({', '.join(a.name for a in acts)})",
                    cons.rel, target.line, target.name)
        else:
            res.samples.append(f"{kind}: {[a.name for a in acts if reaches(a.fq)]} -> {target.name}")
    res.analysed = [cons.rel]
    return res


# ---- R-EARLYASSERT / R-CONSTNONE / R-ATTRAGREE -----------------------------------------------------------------------
def _early_functions(repo, through="check_constraints"):
    """Functions reachable from the passes up to and including `through`."""
    _, passes, _ = P.find_passes(repo)
    refs = repo.refs()
    early = []
    for p in passes:
        early.append(p)
        if p.name == through:
            break
    else:
        raise AnalysisError(f"pipeline: pass {through} not found")
    seen = set()
    work = [p.fq for p in early]
    while work:
        k = work.pop()
        if k in seen:
            continue
        seen.add(k)
        work.extend(g.fq for g in refs.get(k, ()))
    return seen


def earlyassert(repo):
    """R-EARLYASSERT (C16): that a static reference (`Type.field`, an enum value built from one) is *constant* is only
    diagnosed by constraints.check_constraints ('Static references must refer to constants.').  Everything that runs up
    to and including that pass sees user input for which it does not hold, so there (a) no `assert` may state
    `is_constant(...)` / `is_constant_type(...)`, and (b) the `constant_reference` branch of ir_util.constant_value may
    not assert anything about the reference's type (it answers None, 'no constant value')."""
    res = RuleResult("R-EARLYASSERT")
    seen = _early_functions(repo)
    for m in repo.modules.values():
        if not m.rel.startswith("compiler/"):
            continue
        for f in m.funcs.values():
            if f.fq not in seen:
                continue
            res.instances += 1
            for n in walk_no_nested_funcs(f.node):
                if isinstance(n, ast.Assert):
                    calls = [(call_name(c) or "").split(".")[-1] for c in ast.walk(n.test) if isinstance(c, ast.Call)]
                    if any(c in ("is_constant", "is_constant_type") for c in calls):
                        arg = ast.unparse(n.test)
                        if "size_in_bits" in arg:
                            continue      # `UInt:N`: the grammar only admits a numeric literal there
                        res.add(f"{m.rel}|{f.qualname}|assert-constant", f"{f.qualname} asserts `{arg[:70]}`, but it runs before/with the "
                                "pass that diagnoses non-constant static references: `enum E: A = S.b` with a non-constant b is "
                                "an AssertionError instead of 'Static references must refer to constants.'", m.rel, n.lineno, f.qualname)
    iu = repo.mod("compiler/util/ir_util.py")
    cv = [f for f in iu.top_funcs() if f.name == "constant_value"]
    if not cv:
        raise AnalysisError("ir_util.constant_value not found")
    branch = None
    for n in ast.walk(cv[0].node):
        if isinstance(n, ast.If) and "constant_reference" in ast.unparse(n.test):
            branch = n
            break
    if branch is None:
        raise AnalysisError("ir_util.constant_value: constant_reference branch not found")
    res.instances += 1
    for st in branch.body:
        for n in ast.walk(st):
            if isinstance(n, ast.Assert) and not (isinstance(n.test, ast.Constant) and n.test.value is False):
                res.add(f"{iu.rel}|constant_value|constant_reference|assert", f"constant_value asserts `{ast.unparse(n.test)[:60]}` for a "
                        "constant_reference; normalize_and_verify evaluates enum values, field locations and integer attributes "
                        "before non-constant static references have been diagnosed", iu.rel, n.lineno, "constant_value")
    res.analysed = ["compiler/front_end/*.py", iu.rel]
    return res


def constnone(repo):
    """R-CONSTNONE (C16): in the passes up to check_constraints the value of an enum value expression may be unknown
    (ir_util.constant_value(...) is None for a static reference to a non-constant field).  A local bound to
    `constant_value(<v>.value)` for `<v>` iterating over an enum's values may be ordered (`<`, `<=`, ...), used in
    arithmetic or appended to a list of numbers only where an `is None` / `is not None` test has excluded None."""
    res = RuleResult("R-CONSTNONE")
    seen = _early_functions(repo)
    for m in repo.modules.values():
        if not m.rel.startswith("compiler/front_end/"):
            continue
        for f in m.funcs.values():
            if f.fq not in seen:
                continue
            loops = {}
            for n in walk_no_nested_funcs(f.node):
                if isinstance(n, ast.For) and isinstance(n.target, ast.Name) and isinstance(n.iter, ast.Attribute) and n.iter.attr == "value":
                    loops[n.target.id] = n
            if not loops:
                continue

            def none_test(t, var):
                """returns 'pos' if t true => var not None; 'neg' if t false => var not None."""
                if isinstance(t, ast.Compare) and len(t.ops) == 1 and isinstance(t.left, ast.Name) and t.left.id == var \
                        and isinstance(t.comparators[0], ast.Constant) and t.comparators[0].value is None:
                    return "pos" if isinstance(t.ops[0], ast.IsNot) else "neg" if isinstance(t.ops[0], ast.Is) else None
                return None

            def uses(e, var, guarded, out):
                if isinstance(e, ast.BoolOp) and isinstance(e.op, ast.And):
                    g = guarded
                    for v in e.values:
                        uses(v, var, g, out)
                        g = g or none_test(v, var) == "pos"
                    return
                if isinstance(e, ast.Compare) and any(isinstance(o, (ast.Lt, ast.LtE, ast.Gt, ast.GtE)) for o in e.ops) \
                        and any(isinstance(x, ast.Name) and x.id == var for x in [e.left] + e.comparators) and not guarded:
                    out.append(e.lineno)
                if isinstance(e, ast.BinOp) and any(isinstance(x, ast.Name) and x.id == var for x in (e.left, e.right)) and not guarded:
                    out.append(e.lineno)
                if isinstance(e, ast.Call) and isinstance(e.func, ast.Attribute) and e.func.attr == "append" and not guarded \
                        and any(isinstance(x, ast.Name) and x.id == var for a in e.args for x in ast.walk(a)):
                    out.append(e.lineno)
                for c in ast.iter_child_nodes(e):
                    if not isinstance(c, (ast.FunctionDef, ast.Lambda)):
                        uses(c, var, guarded, out)

            def scan(stmts, var, guarded, out):
                for st in stmts:
                    if isinstance(st, ast.If):
                        uses(st.test, var, guarded, out)
                        k = none_test(st.test, var)
                        if isinstance(st.test, ast.BoolOp) and isinstance(st.test.op, ast.And) and any(none_test(v, var) == "pos" for v in st.test.values):
                            k = "pos"
                        scan(st.body, var, guarded or k == "pos", out)
                        scan(st.orelse, var, guarded or k == "neg", out)
                        if k == "neg" and st.body and isinstance(st.body[-1], (ast.Continue, ast.Return, ast.Break, ast.Raise)):
                            guarded = True
                        continue
                    if isinstance(st, (ast.For, ast.While, ast.With, ast.Try)):
                        for blk in ("body", "orelse", "finalbody"):
                            scan(getattr(st, blk, []) or [], var, guarded, out)
                        continue
                    uses(st, var, guarded, out)

            for lv, loop in loops.items():
                for i, st in enumerate(loop.body):
                    if isinstance(st, ast.Assign) and len(st.targets) == 1 and isinstance(st.targets[0], ast.Name) \
                            and isinstance(st.value, ast.Call) and (call_name(st.value) or "").split(".")[-1] == "constant_value" \
                            and st.value.args and ast.unparse(st.value.args[0]) == f"{lv}.value":
                        var = st.targets[0].id
                        res.instances += 1
                        out = []
                        scan(loop.body[i + 1:], var, False, out)
                        for ln in sorted(set(out)):
                            res.add(f"{m.rel}|{f.qualname}|{var}", f"{f.qualname} orders/accumulates `{var}` = constant_value({lv}.value) at "
                                    f"line {ln} without excluding None: an enum value that is a static reference to a non-constant "
                                    "field has no value yet -> TypeError instead of the diagnostic", m.rel, ln, f.qualname)
    if res.instances < 2 and not res.findings:
        raise AnalysisError(f"only {res.instances} enum-value evaluations found in the early passes")
    res.analysed = ["compiler/front_end/attribute_checker.py", "compiler/front_end/constraints.py"]
    return res


ATTR_PAIRS = (("_is_constant_boolean", "get_boolean_attribute"), ("_is_constant_integer", "get_integer_attribute"))


def attragree(repo):
    """R-ATTRAGREE (C14/C16): an attribute's value is validated by attribute_util._is_constant_<kind> and later read by
    ir_util.get_<kind>_attribute, which answers `default_value` ('absent') for every value it does not understand.  So
    each condition under which the getter gives up must also make the validator reject; otherwise an accepted value
    is treated as missing (a second attribute is synthesised -> 'Duplicate attribute' assertion, or the attribute is
    silently ignored).  Disjuncts are compared after renaming the attribute value to V."""
    res = RuleResult("R-ATTRAGREE")
    au = repo.mod("compiler/util/attribute_util.py")
    iu = repo.mod("compiler/util/ir_util.py")

    def disjuncts(test):
        if isinstance(test, ast.BoolOp) and isinstance(test.op, ast.Or):
            out = []
            for v in test.values:
                out += disjuncts(v)
            return out
        return [test]

    def norm(e, var):
        t = ast.unparse(e).replace("ir_util.", "")
        return re.sub(r"\b" + re.escape(var) + r"\b", "V", t)

    for vname, gname in ATTR_PAIRS:
        vf = [f for f in au.top_funcs() if f.name == vname]
        gf = [f for f in iu.top_funcs() if f.name == gname]
        if not vf or not gf:
            raise AnalysisError(f"{vname} / {gname} not found")
        # getter: `if <...>: return default_value`
        gvar = None
        for n in walk_no_nested_funcs(gf[0].node):
            if isinstance(n, ast.Assign) and isinstance(n.value, ast.Call) and (call_name(n.value) or "").endswith("get_attribute"):
                gvar = n.targets[0].id
        give_up = []
        for n in walk_no_nested_funcs(gf[0].node):
            if isinstance(n, ast.If) and n.body and isinstance(n.body[0], ast.Return) and ast.unparse(n.body[0].value) == "default_value":
                give_up += [norm(d, gvar) for d in disjuncts(n.test)]
        give_up = [g for g in give_up if g != "not V"]
        # validator: `if <...>: return [[error...]]`
        reject = []
        for n in walk_no_nested_funcs(vf[0].node):
            if isinstance(n, ast.If) and n.body and isinstance(n.body[0], ast.Return) and isinstance(n.body[0].value, ast.List) and n.body[0].value.elts:
                reject += [norm(d, "attr.value") for d in disjuncts(n.test)]
        if not give_up or not reject:
            raise AnalysisError(f"{vname}/{gname}: conditions not recognised ({give_up} / {reject})")
        for g in give_up:
            res.instances += 1
            if g not in reject:
                res.add(f"{iu.rel}|{gname}|{vname}|{g}", f"{gname} treats an attribute as absent when `{g}`, but {vname} accepts such a value "
                        f"(it rejects only: {'; '.join(reject)}): an accepted attribute value is later read as 'no attribute'",
                        au.rel, vf[0].node.lineno, vname)
        res.samples.append(f"{gname} gives up on {give_up}; {vname} rejects {reject}")
    res.analysed = [au.rel, iu.rel]
    return res


def elemsize(repo, schema=None, sites=None, clauses=("none", "zero", "negative", "huge")):
    """R-ELEMSIZE (C14/C16): agreement between a back-end precondition and the front-end checks that establish it.
    header_generator asserts the *truthiness* of an array's element size (`assert element_size_in_bits`: neither None
    nor 0; GenericArrayView divides by it).  constraints.check_constraints must therefore reject both cases for every
    ArrayType: unknown size (`... is None` on the element type's fixed size) and size zero (`fixed_size_of_type_in_bits(
    <array>.base_type, ir) == 0`), each in an action registered for a pattern ending in ArrayType that appends an error;
    and a constant negative element_count."""
    from . import traversal as T
    res = RuleResult("R-ELEMSIZE")
    schema = schema or Schema(repo)
    sites = sites if sites is not None else T.collect_sites(repo, schema)
    hg = repo.mod("compiler/back_end/cpp/header_generator.py")
    pre = []
    for f in hg.funcs.values():
        sized = set()
        for n in walk_no_nested_funcs(f.node):
            if isinstance(n, ast.Assign) and isinstance(n.value, ast.Call) and (call_name(n.value) or "").split(".")[-1] in ("_get_type_size", "fixed_size_of_type_in_bits") \
                    and isinstance(n.targets[0], ast.Name):
                sized.add(n.targets[0].id)
        for n in walk_no_nested_funcs(f.node):
            if isinstance(n, ast.Assert) and isinstance(n.test, ast.Name) and n.test.id in sized:
                pre.append((f, n))
    if not pre:
        raise AnalysisError("header_generator: the truthiness assertion on an array element size was not found")
    res.instances += len(pre)
    have = {"none": False, "zero": False, "negative": False, "huge": False}
    for s in sites:
        if s.pattern is None or not isinstance(s.action, Func) or not s.module.rel.endswith("front_end/constraints.py"):
            continue
        if s.pattern[-1] != "ArrayType":
            continue
        f = s.action
        appends = any(isinstance(n, ast.Call) and isinstance(n.func, ast.Attribute) and n.func.attr == "append" and "errors" in ast.unparse(n.func.value)
                      for n in ast.walk(f.node))
        if not appends:
            continue
        # locals holding the element's fixed size
        esize = {}
        for n in walk_no_nested_funcs(f.node):
            if isinstance(n, ast.Assign) and len(n.targets) == 1 and isinstance(n.targets[0], ast.Name) and isinstance(n.value, ast.Call) \
                    and "fixed_size_of_type_in_bits" in ast.unparse(n.value.func) and "base_type" in ast.unparse(n.value):
                esize[n.targets[0].id] = ast.unparse(n.value)
        for n in walk_no_nested_funcs(f.node):
            if not isinstance(n, ast.Compare) or len(n.ops) != 1:
                continue
            t = ast.unparse(n)
            if isinstance(n.left, ast.Name) and n.left.id in esize:
                t = esize[n.left.id] + t[len(n.left.id):]
                rhs = n.comparators[0]
                try:
                    val = eval(compile(ast.Expression(rhs), "<bound>", "eval"), {"__builtins__": {}}) if not any(
                        isinstance(x, (ast.Name, ast.Call, ast.Attribute)) for x in ast.walk(rhs)) else None
                except Exception:
                    val = None
                if isinstance(n.ops[0], (ast.GtE, ast.Gt)) and isinstance(val, int) and 2**32 <= val <= 2**67:
                    have["huge"] = True
            if isinstance(n.ops[0], ast.Is) and t.endswith("is None") and "size" in t and not (isinstance(n.left, ast.Name) and n.left.id in esize):
                have["none"] = True
            if "fixed_size_of_type_in_bits" in t and "base_type" in t and (t.replace(" ", "").endswith(("==0", "<=0", "<1"))):
                have["zero"] = True
            if "constant_value" in t and "element_count" in t and t.replace(" ", "").endswith("<0"):
                have["negative"] = True
    f0, n0 = pre[0]
    for k, what in (("none", "an element type of unknown size"), ("zero", "a zero-sized element type (`Marker[3]` with only virtual fields, `UInt:8[0][4]`)"),
                    ("negative", "a negative constant array length (`UInt:8[-1]`)"),
                    ("huge", "an element whose fixed size does not fit in 64 bits (`UInt:64[0x2000_0000_0000_0000][]`: the size is "
                             "printed as a size_t template argument; g++ truncates it to 0 and Ok() divides by zero, clang++ rejects the literal)")):
        if k not in clauses:
            continue
        res.instances += 1
        if not have[k]:
            res.add(f"compiler/front_end/constraints.py|check_constraints|array-{k}", f"{f0.qualname} asserts `{ast.unparse(n0.test)}` "
                    f"(line {n0.lineno}) but no ArrayType check of constraints.check_constraints rejects {what}: the module passes the "
                    "front end and the back end dies with AssertionError / emits a header that does not compile",
                    "compiler/front_end/constraints.py", 0, "check_constraints")
    res.analysed = [hg.rel, "compiler/front_end/constraints.py"]
    return res


def nullorder(repo):
    """R-NULLORDER (C14): "Null" is a valid byte order exactly when no multi-unit value is ever read: a non-array field of
    known size is one unit long (its type does not matter: an anonymous `bits` may be smaller than its field, and the back
    end reads the whole field), an array's element type / a run-time sized field's type is one unit wide.  For an array the field's total size says
    nothing -- `0 [+1] UInt:16[] z` reads 16-bit elements through a NullByteOrderer (static_assert in the runtime).
    _field_may_have_null_byte_order is evaluated over the abstract facts (is array, field size == 1, base type size ==
    unit) and compared with that specification for all eight combinations."""
    import itertools
    res = RuleResult("R-NULLORDER")
    m = repo.mod(ATTRIBUTE_CHECKER)
    fs = [f for f in m.top_funcs() if f.name == "_field_may_have_null_byte_order"]
    if not fs:
        raise AnalysisError("_field_may_have_null_byte_order not found")
    f = fs[0]

    def ev(e, env):
        if isinstance(e, ast.BoolOp):
            vals = [ev(v, env) for v in e.values]
            return all(vals) if isinstance(e.op, ast.And) else any(vals)
        if isinstance(e, ast.UnaryOp) and isinstance(e.op, ast.Not):
            return not ev(e.operand, env)
        t = ast.unparse(e)
        if isinstance(e, ast.Call) and t.endswith('has_field("array_type")') or t.endswith("has_field('array_type')"):
            return env["array"]
        if isinstance(e, ast.Call) and t.endswith("has_field('atomic_type')"):
            return not env["array"]
        if isinstance(e, ast.Call) and (call_name(e) or "").endswith("is_array"):
            return env["array"]
        if isinstance(e, ast.Call) and (call_name(e) or "").endswith("is_constant") and "location.size" in t:
            return env["const"]
        if isinstance(e, ast.Compare) and len(e.ops) == 1 and isinstance(e.ops[0], ast.Eq):
            if "constant_value" in t and "location.size" in t and isinstance(e.comparators[0], ast.Constant) and e.comparators[0].value == 1:
                return env["one"]
            if "fixed_size_of_type_in_bits" in t and "get_base_type" in t and ast.unparse(e.comparators[0]) in ("unit", "type_definition.addressable_unit"):
                return env["elem"]
        raise AnalysisError(f"_field_may_have_null_byte_order: condition `{t[:80]}` not understood")

    def run(stmts, env):
        for st in stmts:
            if isinstance(st, ast.If):
                if ev(st.test, env):
                    r = run(st.body, env)
                else:
                    r = run(st.orelse, env)
                if r is not None:
                    return r
            elif isinstance(st, ast.Return):
                return ev(st.value, env) if not isinstance(st.value, ast.Constant) else st.value.value
            elif isinstance(st, (ast.Assign, ast.Expr)):
                continue
            else:
                raise AnalysisError(f"_field_may_have_null_byte_order: statement `{ast.unparse(st)[:60]}` not understood")
        return None

    for array, const, one, elem in itertools.product((False, True), repeat=4):
        if one and not const:
            continue  # "size == 1" is only known for a constant size
        res.instances += 1
        got = run(f.node.body, {"array": array, "const": const, "one": one, "elem": elem})
        # a non-array field is read as a whole: its own size decides when it is known (an anonymous `bits` may be
        # smaller than its field); arrays and run-time sized fields are judged by the (element) type
        want = one if (not array and const) else elem
        if bool(got) != want:
            res.add(f"{ATTRIBUTE_CHECKER}|_field_may_have_null_byte_order|{int(array)}{int(const)}{int(one)}{int(elem)}",
                    f"_field_may_have_null_byte_order answers {got} for {'an array' if array else 'a non-array'} field whose size is "
                    f"{('1' if one else 'a constant other than 1') if const else 'not constant'} and whose base type is "
                    f"{'one unit' if elem else 'wider than one unit'}; specified: {want} "
                    "(`0 [+1] UInt:16[] z` and `0 [+2] bits:` with 8 bits of members must need a byte order)", ATTRIBUTE_CHECKER, f.node.lineno, f.name)
    res.analysed = [ATTRIBUTE_CHECKER]
    return res


def bitsfield(repo):
    """R-BITSFIELD (C14/C07): back-end precondition vs. front-end check.  header_generator renders a bits-typed field of a
    struct as `BitBlock<<orderer>, {field size in bits}>`: the size is the *field's* constant size (None when it is not
    constant) and the runtime static_asserts it is at most 64.  So constraints._check_type_requirements_for_field must,
    for a BIT-addressable structure placed in a BYTE-addressable parent, report (a) a non-constant field size
    (`field_min_size != field_max_size`) and (b) a field larger than 64 bits -- each in a branch that appends an error."""
    res = RuleResult("R-BITSFIELD")
    m = repo.mod("compiler/front_end/constraints.py")
    fs = [f for f in m.top_funcs() if f.name == "_check_type_requirements_for_field"]
    if not fs:
        raise AnalysisError("constraints._check_type_requirements_for_field not found")
    f = fs[0]
    have = {"dynamic": False, "wide": False}
    for n in walk_no_nested_funcs(f.node):
        if not isinstance(n, ast.If):
            continue
        t = ast.unparse(n.test)
        if "AddressableUnit.BIT" in t and "AddressableUnit.BYTE" in t:
            for sub in ast.walk(n):
                if isinstance(sub, ast.If) and sub is not n:
                    st = ast.unparse(sub.test).replace(" ", "")
                    errs = any(isinstance(x, ast.Call) and isinstance(x.func, ast.Attribute) and x.func.attr == "append"
                               and "errors" in ast.unparse(x.func.value) for x in ast.walk(sub))
                    if errs and ("field_min_size!=field_max_size" in st or "field_max_size!=field_min_size" in st):
                        have["dynamic"] = True
                    if errs and re.search(r"field_m(ax|in)_size>64", st):
                        have["wide"] = True
    res.instances = 2
    if not have["dynamic"]:
        res.add(f"{m.rel}|_check_type_requirements_for_field|bits-dynamic-field", "no check rejects a `bits` type placed in a "
                "struct field whose size is not a compile-time constant (`1 [+n] Named named`): the header contains "
                "`BitBlock<..., None>`", m.rel, f.node.lineno, f.name)
    if not have["wide"]:
        res.add(f"{m.rel}|_check_type_requirements_for_field|bits-wide-field", "no check rejects a `bits` type placed in a struct "
                "field wider than 64 bits (`0 [+9] bits:`): the header fails the runtime's static_assert", m.rel, f.node.lineno, f.name)
    res.analysed = [m.rel]
    return res


def negloc(repo, schema=None, sites=None):
    """R-NEGLOC (C14/C07): a constant field start is pasted into `std::size_t` template arguments by the back end
    (OffsetStorageType<align, offset>), and a size can never be negative.  constraints.check_constraints must therefore
    have a traversal action over Field that tests the *upper bound* of `location.start` and `location.size`
    (`int(<maximum_value>) < 0`) and appends an error."""
    from . import traversal as T
    res = RuleResult("R-NEGLOC")
    schema = schema or Schema(repo)
    sites = sites if sites is not None else T.collect_sites(repo, schema)
    found = {"start": False, "size": False}
    for s in sites:
        if s.pattern is None or not isinstance(s.action, Func) or not s.module.rel.endswith("front_end/constraints.py"):
            continue
        if s.pattern[-1] != "Field":
            continue
        f = s.action
        src = ast.unparse(f.node)
        if "maximum_value" not in src or "errors.append" not in src:
            continue
        neg = any(isinstance(n, ast.Compare) and len(n.ops) == 1 and isinstance(n.ops[0], ast.Lt)
                  and isinstance(n.comparators[0], ast.Constant) and n.comparators[0].value == 0 for n in ast.walk(f.node))
        if not neg:
            continue
        for k in found:
            if f"location.{k}" in src:
                found[k] = True
    res.instances = 2
    for k, ok in found.items():
        if not ok:
            res.add(f"compiler/front_end/constraints.py|check_constraints|negative-{k}", f"no Field check of constraints.check_constraints "
                    f"rejects a location whose {k} is always negative (`-1 [+1] UInt y` / `1 [+-1] ...`): the module is accepted and the "
                    "header does not compile", "compiler/front_end/constraints.py", 0, "check_constraints")
    res.analysed = ["compiler/front_end/constraints.py"]
    return res


def attrbackend(repo):
    """R-ATTRBACKEND (C14/C16): `[(java) name: v]` is an attribute *for the java back end*: the core and the C++ back end
    must neither read nor validate it.  Decided structurally on the three places that look attributes up by name:
      (a) ir_util.get_attribute's match tests the attribute's `back_end` against the requested qualifier;
      (b) attribute_util.gather_default_attributes keys a `$default` by a name that includes the qualifier;
      (c) in header_generator every lookup of a C++ attribute (namespace, enum_case) passes the "cpp" qualifier, and each
          `_verify_*_attribute` traversal action tests `back_end` before it touches the value."""
    res = RuleResult("R-ATTRBACKEND")
    iu = repo.mod("compiler/util/ir_util.py")
    ga = [f for f in iu.top_funcs() if f.name == "get_attribute"]
    if not ga:
        raise AnalysisError("ir_util.get_attribute not found")
    res.instances += 1
    match = [n for n in walk_no_nested_funcs(ga[0].node) if isinstance(n, ast.If) and "name.text" in ast.unparse(n.test)]
    if not match or "back_end" not in ast.unparse(match[0].test):
        res.add(f"{iu.rel}|get_attribute|back_end", "ir_util.get_attribute matches attributes by name only: `[(java) byte_order: ...]` is "
                "read as the core byte_order, `[byte_order] + [(cpp) byte_order]` trips the 'Duplicate attribute' assertion",
                iu.rel, ga[0].node.lineno, "get_attribute")
    au = repo.mod("compiler/util/attribute_util.py")
    gd = [f for f in au.top_funcs() if f.name == "gather_default_attributes"]
    if not gd:
        raise AnalysisError("attribute_util.gather_default_attributes not found")
    res.instances += 1
    keyed = [n for n in walk_no_nested_funcs(gd[0].node) if isinstance(n, ast.Assign) and isinstance(n.targets[0], ast.Subscript)
             and ast.unparse(n.targets[0].value) == "defaults"]
    if not keyed:
        raise AnalysisError("gather_default_attributes: the statement storing a default was not found")
    k = keyed[0].targets[0].slice
    if ast.unparse(k) == "attr.name.text" or not ("back_end" in ast.unparse(k) or (isinstance(k, ast.Call) and "name_for" in ast.unparse(k.func))):
        res.add(f"{au.rel}|gather_default_attributes|key", f"`$default` attributes are keyed by `{ast.unparse(k)}`: a `(java) $default "
                "byte_order` becomes the default byte order of every field", au.rel, keyed[0].lineno, "gather_default_attributes")
    hg = repo.mod("compiler/back_end/cpp/header_generator.py")
    for f in hg.funcs.values():
        for n in walk_no_nested_funcs(f.node):
            if isinstance(n, ast.Call) and (call_name(n) or "").split(".")[-1] == "get_attribute" and len(n.args) >= 2:
                a = ast.unparse(n.args[1])
                if a in ('"namespace"', "'namespace'") or a.endswith(("Attribute.NAMESPACE", "Attribute.ENUM_CASE")):
                    res.instances += 1
                    q = n.args[2] if len(n.args) > 2 else next((kw.value for kw in n.keywords if kw.arg == "back_end"), None)
                    if not (isinstance(q, ast.Constant) and q.value == "cpp"):
                        res.add(f"{hg.rel}|{f.qualname}|lookup|{a}", f"{f.qualname} looks up the C++ attribute {a} without the \"cpp\" "
                                "qualifier", hg.rel, n.lineno, f.qualname)
        if f.name.startswith("_verify_") and f.name.endswith("_attribute"):
            res.instances += 1
            first_if = next((n for n in f.node.body if isinstance(n, ast.If)), None)
            if first_if is None or "back_end" not in ast.unparse(first_if.test) or not any(isinstance(x, ast.Return) for x in first_if.body):
                res.add(f"{hg.rel}|{f.qualname}|qualifier", f"{f.qualname} validates every attribute of that name, whatever its back end: "
                        "`[(java) enum_case: 7]` is AttributeError, `[(java) namespace: \"com.example\"]` is rejected as a C++ namespace",
                        hg.rel, f.node.lineno, f.qualname)
    if res.instances < 6 and not res.findings:
        raise AnalysisError(f"only {res.instances} attribute lookups recognised")
    res.analysed = [iu.rel, au.rel, hg.rel]
    return res


def bitsfixed(repo):
    """R-BITSFIXED (C14): "`bits` types are fixed size and at most 64 bits" holds for *every* bit-addressable structure --
    named, inline or anonymous.  In the validator that issues these two errors (it reads the FIXED_SIZE attribute of a
    type definition and compares it with None and with 64) the only early exit before the tests is the one for
    structures that are not bit-addressable: every `return` that precedes the `is None` test sits under a condition
    that mentions `addressable_unit` and nothing else about the type (no `is_anonymous`, no name test)."""
    res = RuleResult("R-BITSFIXED")
    m = repo.mod("compiler/front_end/constraints.py")
    target = None
    for f in m.top_funcs():
        src = ast.unparse(f.node)
        if "FIXED_SIZE" in src and "> 64" in src and "is None" in src and "errors.append" in src and "AddressableUnit.BIT" in src \
                and len(f.node.args.args) <= 5 and "field" not in [a.arg for a in f.node.args.args]:
            target = f
    if target is None:
        raise AnalysisError("constraints: the validator for the size of `bits` types was not found")
    f = target
    none_test = None
    for i, st in enumerate(f.node.body):
        if isinstance(st, ast.If) and "is None" in ast.unparse(st.test) and "errors.append" in ast.unparse(st):
            none_test = i
            break
    if none_test is None:
        raise AnalysisError(f"{f.name}: the `fixed size is None` test is not a top-level statement")
    res.instances = 1
    for st in f.node.body[:none_test]:
        for n in ast.walk(st):
            if isinstance(n, ast.If) and any(isinstance(x, ast.Return) for x in n.body):
                res.instances += 1
                names = {x.attr for x in ast.walk(n.test) if isinstance(x, ast.Attribute)} | {x.id for x in ast.walk(n.test) if isinstance(x, ast.Name)}
                if "addressable_unit" not in names or (names & {"is_anonymous", "name", "text", "is_synthetic"}):
                    res.add(f"{m.rel}|{f.name}|exemption", f"{f.name} returns before testing the size when `{ast.unparse(n.test)[:70]}`: "
                            "those `bits` types are exempt from 'must be fixed size' / 'at most 64 bits' (an anonymous `bits:` whose "
                            "member offsets depend on another member is accepted)", m.rel, n.lineno, f.name)
    # a second pair of eyes on the 64: the comparison constant
    if not any(isinstance(n, ast.Compare) and isinstance(n.ops[0], ast.Gt) and isinstance(n.comparators[0], ast.Constant)
               and n.comparators[0].value == 64 for n in ast.walk(f.node)):
        res.add(f"{m.rel}|{f.name}|limit", f"{f.name} no longer compares the size with 64", m.rel, f.node.lineno, f.name)
    res.analysed = [m.rel]
    return res


def docwords(repo):
    """R-DOCWORDS (C14): "no reserved word is used as a name ... as documented".  The words the compiler rejects come
    from the data file compiler/front_end/reserved_words; the reference users read is the keyword list at the end of
    doc/grammar.md.  Both are source artefacts, so their agreement is a set comparison: every word the checker loads
    *and that could be spelled as a name* (its first token, by the tokenizer's own pattern tables, is a SnakeWord,
    CamelWord or ShoutyWord -- `_Bool` or `I` can never be names) appears in the documented list, every documented word
    is loaded, and the announced count equals both.  (The
    repository's docs_are_up_to_date_test only compares the document with the generator's output, so a generator that
    drops words passes it.)"""
    import os, re as _re
    res = RuleResult("R-DOCWORDS")
    try:
        wtext = repo.read("compiler/front_end/reserved_words")
        doc = repo.read("doc/grammar.md")
    except OSError:
        raise AnalysisError("reserved_words or doc/grammar.md is missing")
    words = set()
    for line in wtext.splitlines():
        stripped = line.partition("#")[0].strip()
        if not stripped or stripped.startswith("--"):
            continue
        words.add(stripped)
    from sa import grammar as _G, toksim as _TS
    lits, regs = _G.tokenizer_tables(repo)
    nameable = set()
    for w in words:
        try:
            toks = _TS.tokenize(w, lits, regs)
        except _TS.TokErr:
            continue
        if toks and toks[0][0] in ("SnakeWord", "CamelWord", "ShoutyWord") and toks[0][1] == w:
            nameable.add(w)
    words = nameable
    mm = _re.search(r"The following (\d+) keywords are reserved[^\n]*\n[^\n]*\n\n(.*?)(?:\n\n|\Z)", doc, _re.S)
    if not mm:
        raise AnalysisError("doc/grammar.md: the reserved keyword paragraph was not found")
    announced = int(mm.group(1))
    documented = set(_re.findall(r"`([^`\s]+)`", mm.group(2)))
    line_of = doc[:mm.start()].count("\n") + 1
    res.instances = len(words)
    if len(words) < 400:
        raise AnalysisError(f"only {len(words)} reserved words parsed")
    missing = sorted(words - documented)
    extra = sorted(documented - words)
    if missing:
        res.add("doc/grammar.md|reserved-words|missing",
                f"{len(missing)} word(s) rejected as names are absent from the documented list: {', '.join(missing[:8])}"
                + (" ..." if len(missing) > 8 else ""), "doc/grammar.md", line_of, "reserved keywords")
    if extra:
        res.add("doc/grammar.md|reserved-words|extra",
                f"{len(extra)} documented reserved word(s) are not in compiler/front_end/reserved_words: {', '.join(extra[:8])}",
                "doc/grammar.md", line_of, "reserved keywords")
    if announced != len(words):
        res.add("doc/grammar.md|reserved-words|count",
                f"the document announces {announced} reserved keywords; the checker loads {len(words)}",
                "doc/grammar.md", line_of, "reserved keywords")
    res.analysed = ["compiler/front_end/reserved_words", "doc/grammar.md"]
    return res


def subbyte(repo):
    """R-SUBBYTE (C14/C07): back-end precondition vs. front-end check.  For a scalar field of a `struct` the back end
    takes the view's size from the explicit `:N`, else from a constant field size, else formats `None` into the
    template; and a view over N bits that are not a whole number of bytes needs a BitBlock, which static_asserts on
    byte buffers.  With a constant field size the size-mismatch error covers it.  For a run-time sized field
    (`1 [+n] Flag x`, `1 [+n] UInt:3 x`) constraints._check_type_requirements_for_field therefore has, in the chain that
    compares the fixed element size with the field, an arm that is reached when the field size is not constant, tests
    `element_size % <addressable unit of the enclosing type>` and reports an error."""
    res = RuleResult("R-SUBBYTE")
    m = repo.mod("compiler/front_end/constraints.py")
    fs = [f for f in m.top_funcs() if f.name == "_check_type_requirements_for_field"]
    if not fs:
        raise AnalysisError("constraints._check_type_requirements_for_field not found")
    f = fs[0]
    chain_head = None
    for n in walk_no_nested_funcs(f.node):
        if isinstance(n, ast.If) and "field_is_atomic" in ast.unparse(n.test) and "element_size is not None" in ast.unparse(n.test):
            for st in n.body:
                if isinstance(st, ast.If) and "field_max_size == field_min_size" in ast.unparse(st.test):
                    chain_head = st
    if chain_head is None:
        raise AnalysisError("_check_type_requirements_for_field: the chain comparing element size and field size was not found")
    arms = []
    cur = chain_head
    while isinstance(cur, ast.If):
        arms.append(cur)
        cur = cur.orelse[0] if len(cur.orelse) == 1 and isinstance(cur.orelse[0], ast.If) else None
    res.instances = len(arms)
    ok = False
    for a in arms[1:]:
        t = ast.unparse(a.test)
        # the arm may (and, since an anonymous bits type may be smaller than its constant-size field, does) restrict
        # itself to run-time sized fields; any other mention of the field size would narrow it
        rest = re.sub(r"field_min_size != field_max_size|field_max_size != field_min_size", "", t)
        if re.search(r"element_size % type_definition\.addressable_unit\s*!=\s*0", t) and "field_m" not in rest \
                and isinstance(a.test, (ast.Compare, ast.BoolOp)) and not (isinstance(a.test, ast.BoolOp) and isinstance(a.test.op, ast.Or)) \
                and "errors.append" in ast.unparse(a) and any(isinstance(x, ast.Return) for x in ast.walk(a)):
            ok = True
    # or as a separate statement after the chain inside the same block
    if not ok:
        res.add(f"{m.rel}|{f.name}|dynamic-subbyte", f"{f.name}: no arm rejects a fixed-size scalar whose size is not a multiple of the enclosing "
                "structure's addressable unit when the field size is only known at run time: `1 [+n] Flag x` is accepted and the "
                "header contains `FixedSizeViewParameters<None, ...>`; `1 [+n] UInt:3 x` fails BitBlock's static_assert",
                m.rel, chain_head.lineno, f.name)
    # the back-end side of the agreement: field_size may stay None
    hg = repo.mod("compiler/back_end/cpp/header_generator.py")
    g = [x for x in hg.top_funcs() if x.name == "_get_cpp_type_reader_of_field"]
    if not g:
        raise AnalysisError("header_generator._get_cpp_type_reader_of_field not found")
    res.instances += 1
    res.samples = [f"{f.name}: {len(arms)} arms; dynamic sub-unit arm present: {ok}"]
    res.analysed = [m.rel, hg.rel]
    return res


def verifyexit(repo):
    """Attribute verifiers (attribute_checker functions that take `errors`) reach a verdict for every
    object that carries the attribute: a bare `return` in the middle of one is either the
    absent-attribute guard (`if not <local read with get_*attribute>`), or follows the report of an
    error in the same block.  Any other early exit leaves a class of objects unverified."""
    res = RuleResult("R-VERIFYEXIT")
    m = repo.mod(ATTRIBUTE_CHECKER)
    nfuncs = 0
    for f in m.top_funcs():
        if "errors" not in [a.arg for a in f.node.args.args]:
            continue
        nfuncs += 1
        attr_locals = set()
        for n in walk_no_nested_funcs(f.node):
            if isinstance(n, ast.Assign) and isinstance(n.value, ast.Call) and len(n.targets) == 1 \
                    and isinstance(n.targets[0], ast.Name) and re.search(r"get_\w*attribute$", call_name(n.value) or ""):
                attr_locals.add(n.targets[0].id)
        for r in walk_no_nested_funcs(f.node):
            if not isinstance(r, ast.Return) or r.value is not None:
                continue
            par = m.parent(r)
            blk = next((b for b in (getattr(par, "body", None), getattr(par, "orelse", None))
                        if isinstance(b, list) and r in b), None)
            if blk is None or (par is f.node and blk[-1] is r):
                continue
            res.instances += 1
            i = blk.index(r)
            if i > 0 and re.search(r"\berrors\.(append|extend)\(", ast.unparse(blk[i - 1])):
                continue
            t = par.test if isinstance(par, ast.If) and blk is par.body else None
            def is_absent(t_):
                if isinstance(t_, ast.UnaryOp) and isinstance(t_.op, ast.Not) and isinstance(t_.operand, ast.Name) \
                        and t_.operand.id in attr_locals:
                    return True
                if isinstance(t_, ast.Compare) and isinstance(t_.left, ast.Name) and t_.left.id in attr_locals \
                        and len(t_.ops) == 1 and isinstance(t_.ops[0], ast.Is) and isinstance(t_.comparators[0], ast.Constant) \
                        and t_.comparators[0].value is None:
                    return True
                if isinstance(t_, ast.BoolOp):  # any combination of absence tests is still "no attribute to verify"
                    return all(is_absent(v_) for v_ in t_.values)
                return False

            absent = t is not None and is_absent(t)
            if absent:
                if len(res.samples) < 3:
                    res.samples.append(f"{f.name}:{r.lineno}: absent-attribute guard")
                continue
            cond = ast.unparse(t) if t is not None else type(par).__name__
            res.add(f"{m.rel}|{f.name}|{cond[:60]}", f"{f.name} leaves without a verdict under `{cond}`: the attribute is present "
                    "but objects of that class are never verified (an invalid use is accepted and reaches later passes, "
                    "which assert on it)", m.rel, r.lineno, f.name)
    if nfuncs < 5:
        raise AnalysisError(f"attribute_checker: only {nfuncs} verifier functions found")
    res.analysed = [m.rel]
    return res


_ZEROFALSY_CTL = '''
from compiler.util import ir_util
def check(type_definition, errors):
    declared = ir_util.get_integer_attribute(type_definition.attribute, "fixed_size_in_bits")
    if not declared:
        return
    errors.append(declared)
'''

_INT_OR_NONE = ("get_integer_attribute", "constant_value", "fixed_size_of_type_in_bits", "_fixed_size_of_struct_or_bits")


def zerofalsy(repo, modules=None):
    """R-ZEROFALSY (C14): the helpers that answer "the integer, or None when there is none" (get_integer_attribute,
    constant_value, the fixed-size helpers) can answer 0, which is false.  A local bound to one of them is compared with
    None (or used in arithmetic / comparisons), never tested for truth: `if not declared_size: return` treats an explicit
    `[fixed_size_in_bits: 0]`, a zero-length array or a constant 0 as absent and skips the verification."""
    res = RuleResult("R-ZEROFALSY")
    mods = modules if modules is not None else [m for m in repo.modules.values()
                                                if m.rel.startswith("compiler/") and not m.rel.endswith("_test.py")]
    for m in mods:
        for f in m.funcs.values():
            ints = {}
            for n in walk_no_nested_funcs(f.node):
                if isinstance(n, ast.Assign) and isinstance(n.value, ast.Call) and len(n.targets) == 1 \
                        and isinstance(n.targets[0], ast.Name) and (call_name(n.value) or "").split(".")[-1] in _INT_OR_NONE:
                    ints[n.targets[0].id] = (call_name(n.value) or "").split(".")[-1]
            if not ints:
                continue
            res.instances += len(ints)
            for n in walk_no_nested_funcs(f.node):
                tests = []
                if isinstance(n, (ast.If, ast.IfExp, ast.While)):
                    tests = [n.test]
                elif isinstance(n, ast.BoolOp):
                    tests = list(n.values)
                elif isinstance(n, ast.Assert):
                    tests = [n.test]
                for t in tests:
                    x = t.operand if isinstance(t, ast.UnaryOp) and isinstance(t.op, ast.Not) else t
                    if isinstance(x, ast.Name) and x.id in ints:
                        res.add(f"{m.rel}|{f.qualname}|{x.id}", f"{f.qualname} tests `{ast.unparse(t)}` for truth; `{x.id}` comes from "
                                f"{ints[x.id]}(), which answers 0 for a declared/constant zero and None for \"absent\": the zero case "
                                "takes the absent branch (an explicit `[fixed_size_in_bits: 0]` on a non-empty structure is never "
                                "compared with the real size)", m.rel, n.lineno, f.qualname)
    return res


def control_zerofalsy(repo):
    r2 = Repo(repo.root, overlay={"compiler/front_end/zz_verif_control.py": _ZEROFALSY_CTL})
    g = zerofalsy(r2, [r2.mod("compiler/front_end/zz_verif_control.py")])
    return len(g.findings) == 1


def presentarg(repo):
    """R-PRESENTARG (C13/C16): agreement between a back-end precondition and the front-end check that establishes it.
    expression_bounds reads `.existence_condition` of the object `$present`'s argument refers to, so that object must
    be a Field.  In type_check, the function that reports "... must be a field" accepts (returns without an error) only
    under `which_expression == "field_reference"` and one isinstance test of the object found for `path[-1]`
    (`not isinstance(x, RuntimeParameter)` or `isinstance(x, Field)`), with no disjunct that lets other objects through."""
    res = RuleResult("R-PRESENTARG")
    eb = repo.mod("compiler/front_end/expression_bounds.py")
    needs = [f for f in eb.top_funcs() if "existence" in f.name and ".existence_condition" in eb.seg(f.node)]
    res.instances += 1
    if not needs:
        res.samples.append("expression_bounds no longer dereferences existence_condition of $present's argument: rule is moot")
        return res
    tc = repo.mod("compiler/front_end/type_check.py")
    checkers = [f for f in tc.top_funcs() if any(isinstance(n, ast.Constant) and isinstance(n.value, str) and "must be a field" in n.value
                                                 for n in ast.walk(f.node))]
    if len(checkers) != 1:
        raise AnalysisError(f"type_check: {len(checkers)} functions report 'must be a field'")
    f = checkers[0]
    rets = [n for n in walk_no_nested_funcs(f.node) if isinstance(n, ast.Return)]
    if not rets:
        raise AnalysisError(f"{f.name}: no accepting return found")
    for r in rets:
        res.instances += 1
        conds = []
        cur = r
        while cur is not f.node:
            par = tc.parent(cur)
            if isinstance(par, ast.If):
                conds.append((par.test, cur in par.body))
            cur = par
        kind_ok = any(pos and "which_expression" in ast.unparse(t) and "field_reference" in ast.unparse(t) for t, pos in conds)
        inst = [t for t, pos in conds if pos and "isinstance" in ast.unparse(t)]
        good = False
        if len(inst) == 1:
            t = inst[0]
            if isinstance(t, ast.UnaryOp) and isinstance(t.op, ast.Not) and isinstance(t.operand, ast.Call) \
                    and call_name(t.operand) == "isinstance" and "RuntimeParameter" in ast.unparse(t.operand.args[1]):
                good = True
            if isinstance(t, ast.Call) and call_name(t) == "isinstance" and ast.unparse(t.args[1]).endswith("Field"):
                good = True
        if not (kind_ok and good):
            shown = " and ".join(ast.unparse(t)[:70] for t, _ in conds) or "(no condition)"
            res.add(f"{tc.rel}|{f.name}|accept", f"{f.name} accepts the argument under `{shown}`; {needs[0].name} in expression_bounds "
                    "dereferences `.existence_condition` of the referenced object, so acceptance must imply that the object is a "
                    "Field (a runtime parameter let through raises AttributeError there)", tc.rel, r.lineno, f.name)
        else:
            res.samples.append(f"{f.name}:{r.lineno}: accepted only for references to fields")
    res.analysed = [tc.rel, eb.rel]
    return res


def attrkey(repo):
    """R-ATTRKEY (C14): "attributes only where ... allowed": the scope tables list pairs (name, is_default) -- `byte_order`
    may be *defaulted* on a module or struct, not written there plainly.  In attribute_util._check_attributes the decision
    "this attribute is allowed here" is one membership test of the full key in `attribute_specs`: (a) the key is a tuple
    built from the attribute's name and its `is_default`; (b) an `if <key> not in attribute_specs:` whose test is not
    combined with anything else (`attr.is_default and ...` lets the plain form of a default-only attribute through) and
    whose body appends an error unconditionally; (c) the type validator of the attribute runs only on the other branch."""
    res = RuleResult("R-ATTRKEY")
    m = repo.mod("compiler/util/attribute_util.py")
    fs = [f for f in m.top_funcs() if f.name == "_check_attributes"]
    if not fs:
        raise AnalysisError("attribute_util._check_attributes not found")
    f = fs[0]
    keys = {}
    for n in walk_no_nested_funcs(f.node):
        if isinstance(n, ast.Assign) and len(n.targets) == 1 and isinstance(n.targets[0], ast.Name) and isinstance(n.value, ast.Tuple) \
                and len(n.value.elts) == 2:
            srcs = [ast.unparse(e) for e in n.value.elts]
            if srcs[0].endswith("name.text") and srcs[1].endswith("is_default"):
                keys[n.targets[0].id] = n
    res.instances = 3
    if not keys:
        res.add(f"{m.rel}|_check_attributes|key", "_check_attributes no longer builds the lookup key from (name, is_default)", m.rel, f.node.lineno, f.name)
        return res
    gate = None
    weak = []
    for n in walk_no_nested_funcs(f.node):
        if isinstance(n, ast.If):
            for c in ast.walk(n.test):
                if isinstance(c, ast.Compare) and len(c.ops) == 1 and isinstance(c.ops[0], (ast.NotIn, ast.In)) \
                        and ast.unparse(c.comparators[0]) == "attribute_specs":
                    if c is n.test and isinstance(c.left, ast.Name) and c.left.id in keys and isinstance(c.ops[0], ast.NotIn):
                        gate = n
                    else:
                        weak.append(n)
    if gate is None:
        w = weak[0] if weak else None
        res.add(f"{m.rel}|_check_attributes|gate", "_check_attributes does not decide admission by the bare test `<(name, is_default)> not in attribute_specs`"
                + (f" (found `{ast.unparse(w.test)[:70]}`)" if w is not None else "") + ": a default-only attribute written without `$default` "
                "(`[byte_order: 'BigEndian']` on a struct, `[(cpp) enum_case: ...]` on a module) is accepted and silently ignored",
                m.rel, (w or f.node).lineno, f.name)
        return res
    direct_append = any(isinstance(st, ast.Expr) and isinstance(st.value, ast.Call) and ast.unparse(st.value.func) == "errors.append" for st in gate.body)
    if not direct_append:
        res.add(f"{m.rel}|_check_attributes|gate-body", "an attribute whose key is not in the scope table does not unconditionally produce an error",
                m.rel, gate.lineno, f.name)
    validators_in_body = [c for st in gate.body for c in ast.walk(st) if isinstance(c, ast.Subscript) and ast.unparse(c.value) == "types"]
    if validators_in_body or not any(isinstance(c, ast.Subscript) and ast.unparse(c.value) == "types" for st in gate.orelse for c in ast.walk(st)):
        res.add(f"{m.rel}|_check_attributes|validator-branch", "the attribute's type validator does not run exactly on the admitted branch",
                m.rel, gate.lineno, f.name)
    res.analysed = [m.rel]
    return res


def selfcontain(repo):
    """R-SELFCONTAIN (C04/C20): a structure that always contains itself (`struct Foo: 0 [+4] Foo inner`; Ping in Pong in
    Ping) can be sized and compiled, but Ok(), Equals() and CopyFrom() of the generated view call the same methods of the
    contained view over the same bytes: unbounded recursion, stack overflow in a checked call.  The dependency checker
    never looks at field *types*, so constraints.check_constraints has to: it reaches a function that walks Field nodes,
    records an edge enclosing type -> structure type of the field (through get_base_type, i.e. including array
    elements) for fields whose existence condition is the constant true, searches that graph for a path back to its
    start and appends an error."""
    res = RuleResult("R-SELFCONTAIN")
    m = repo.mod("compiler/front_end/constraints.py")
    byname = {f.name: f for f in m.top_funcs()}
    cc = byname.get("check_constraints")
    if cc is None:
        raise AnalysisError("constraints.check_constraints not found")
    called = {call_name(c) for c in walk_no_nested_funcs(cc.node) if isinstance(c, ast.Call) and call_name(c) in byname}
    res.instances = 3
    checker = None
    for name in sorted(called):
        f = byname[name]
        src = ast.unparse(f.node)
        if "errors.append" in src and re.search(r"contain", src) and "fast_traverse_ir_top_down" in src and "ir_data.Field" in src:
            checker = f
    if checker is None:
        res.add(f"{m.rel}|check_constraints|no-containment-check", "check_constraints never looks for a structure that always contains itself: "
                "`struct Loop: 0 [+1] UInt x / 0 [+4] Loop inner` is accepted and Ok()/Equals()/TryToCopyFrom() of its view overflow the stack",
                m.rel, cc.line, "check_constraints")
        res.analysed = [m.rel]
        return res
    # the edge collector
    actions = [byname[a.id] for c in walk_no_nested_funcs(checker.node) if isinstance(c, ast.Call) and (call_name(c) or "").endswith("fast_traverse_ir_top_down")
               for a in c.args[2:3] if isinstance(a, ast.Name) and a.id in byname]
    asrc = "\n".join(ast.unparse(a.node) for a in actions)
    for needle, what in (("get_base_type", "array element types (get_base_type)"), ("existence_condition", "the field's existence condition"),
                         ("has_field('structure')", "the contained type being a structure")):
        if needle not in asrc:
            res.add(f"{m.rel}|{checker.name}|{needle}", f"the containment graph of {checker.name} does not consider {what}", m.rel, checker.line, checker.name)
    csrc = ast.unparse(checker.node)
    if not re.search(r"==\s*start|start\s*==|in\s+seen|visited", csrc):
        res.add(f"{m.rel}|{checker.name}|search", f"{checker.name} no longer searches for a path back to the starting type", m.rel, checker.line, checker.name)
    res.analysed = [m.rel]
    return res
