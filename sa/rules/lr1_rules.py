"""R-LR1TABLE: the shipped tables are the canonical LR(1) automaton of the grammar in
module_ir.py, with exactly the error codes error_examples defines."""
from __future__ import annotations

from .. import grammar as G
from ..lr1ref import LR1, compare_tables
from ..report import AnalysisError, RuleResult
from .. import toksim

ERROR_EXAMPLES = "compiler/front_end/error_examples"


def wellformed(cp, res):
    for name, p in cp.parsers.items():
        for k in ("goto", "action", "productions"):
            if k not in p:
                raise AnalysisError(f"cached_parser.{name}: Parser(...) lacks keyword {k}")
        if p.get("conflicts"):
            res.add(f"{name}|conflicts", f"cached {name} is constructed with a non-empty conflict set", G.CACHED)
        prods = {(x[1], x[2]) for x in p["productions"]}
        states = set(p["action"]) | set(p["goto"])
        accepts = 0
        for s, row in p["action"].items():
            for sym, a in row.items():
                res.instances += 1
                if a[0] == "S":
                    if a[1] not in states:
                        res.add(f"{name}|state{s}|{sym}|dangling", f"{name}: Shift target {a[1]} is not a state", G.CACHED)
                elif a[0] == "R":
                    if (a[1][1], a[1][2]) not in prods:
                        res.add(f"{name}|state{s}|{sym}|rule", f"{name}: Reduce by a production outside prods", G.CACHED)
                elif a[0] == "A":
                    accepts += 1
                    if sym != "$":
                        res.add(f"{name}|state{s}|{sym}|accept", f"{name}: Accept on {sym}, not end of input", G.CACHED)
        if accepts != 1:
            res.add(f"{name}|accepts", f"{name}: {accepts} Accept actions (expected exactly one)", G.CACHED)
        for s, row in p["goto"].items():
            for sym, t in row.items():
                res.instances += 1
                if t not in states:
                    res.add(f"{name}|goto{s}|{sym}|dangling", f"{name}: goto target {t} is not a state", G.CACHED)


def isomorphism(repo, cp=None, ir=None):
    res = RuleResult("R-LR1TABLE")
    ir = ir or G.ir_grammar(repo)
    cp = cp or G.CachedParser(repo)
    wellformed(cp, res)
    total = 0
    for name, start in (("module_parser", ir["start"]), ("expression_parser", ir["expr_start"])):
        if name not in cp.parsers:
            raise AnalysisError(f"cached_parser.py: {name} vanished")
        ref = LR1(start, ir["productions"])
        conf = ref.conflicts()
        if conf:
            s, t, kind = conf[0]
            res.add(f"grammar|{start}|conflict", f"the grammar in module_ir.py (start {start}) is not LR(1): "
                    f"{len(conf)} conflicts, first: {kind} on {t}", G.MODULE_IR)
            continue
        p = cp.parsers[name]
        n, c2r = compare_tables(
            ref, p["goto"], p["action"],
            lambda key, msg: res.add(key, msg, G.CACHED, 0, name), name)
        total += n
        res.instances += n
        res.detail[name] = {"reference_states": ref.nstates, "cached_states_matched": n,
                            "terminals": len(ref.terminals), "productions": len(ref.prods)}
        # one sample: the pair of state 0 and its successor on the first symbol
        first = sorted(ref.shift[0])[0] if ref.shift[0] else None
        res.samples.append({"parser": name, "cached_state": 0, "reference_state": 0,
                            "on": first, "cached_next": (p["action"][0].get(first) or [None, None])[1] if first else None,
                            "reference_next": ref.shift[0].get(first)})
    res.analysed = [G.CACHED, G.MODULE_IR]
    return res


def error_codes(repo, cp=None):
    """Error cells of the cached module parser == cells produced by the examples."""
    res = RuleResult("R-ERRCODES")
    cp = cp or G.CachedParser(repo)
    lits, regs = G.tokenizer_tables(repo)
    text = repo.read(ERROR_EXAMPLES)
    try:
        examples = toksim.parse_error_examples(text)
    except toksim.TokErr as e:
        raise AnalysisError(str(e))
    p = cp.parsers["module_parser"]
    goto, act = p["goto"], p["action"]
    defe = p.get("default_errors") or {}
    want_cells = {}
    want_def = {}
    for idx, (msg, ex) in enumerate(examples):
        res.instances += 1
        key = f"example{idx}|{msg[:40]}"
        try:
            toks = toksim.tokenize(ex, lits, regs)
        except toksim.TokErr as e:
            res.add(key + "|tok", f"error example does not tokenize: {e}", ERROR_EXAMPLES)
            continue
        syms = []
        err_index = None
        any_index = None
        for t in toks:
            if t[0] == "BadWord" and t[1] == "$ERR" and err_index is None:
                err_index = len(syms)
                continue
            if t[0] == "BadWord" and t[1] == "$ANY":
                any_index = len(syms)
                syms.append(toksim.ANY)
                continue
            syms.append(t[0])
        if err_index is None:
            res.add(key + "|noerr", "error example has no $ERR marker", ERROR_EXAMPLES)
            continue
        kind, st, i = toksim.simulate(goto, act, syms)
        if kind != "error":
            res.add(key + "|parses", f"error example for '{msg[:60]}' does not fail in the shipped tables ({kind})",
                    ERROR_EXAMPLES)
            continue
        if i != err_index:
            res.add(key + "|position", f"error example for '{msg[:60]}' fails at token {i}, the $ERR marker "
                    f"is before token {err_index}", ERROR_EXAMPLES)
            continue
        if syms[i] is toksim.ANY:
            if want_def.get(st, msg) != msg:
                res.add(key + "|clash", f"two examples give state {st} different default messages", ERROR_EXAMPLES)
            want_def[st] = msg
        else:
            sym = syms[i] if i < len(syms) else "$"
            if want_cells.get((st, sym), msg) != msg:
                res.add(key + "|clash", f"two examples give cell ({st},{sym}) different messages", ERROR_EXAMPLES)
            want_cells[(st, sym)] = msg
    have_cells = {(s, sym): a[1] for s, row in act.items() for sym, a in row.items() if a[0] == "E"}
    for cell in sorted(set(want_cells) - set(have_cells), key=str):
        res.add(f"cell|{cell[0]}|{cell[1]}|missing", f"shipped tables lack error code for state {cell[0]} on {cell[1]}: "
                f"'{want_cells[cell][:60]}' (user would get a generic syntax error)", G.CACHED)
    for cell in sorted(set(have_cells) - set(want_cells), key=str):
        res.add(f"cell|{cell[0]}|{cell[1]}|orphan", f"shipped tables carry error '{str(have_cells[cell])[:60]}' for state "
                f"{cell[0]} on {cell[1]} that no example in error_examples produces", G.CACHED)
    for cell in sorted(set(have_cells) & set(want_cells), key=str):
        if have_cells[cell] != want_cells[cell]:
            res.add(f"cell|{cell[0]}|{cell[1]}|message", f"state {cell[0]} on {cell[1]}: shipped message "
                    f"'{str(have_cells[cell])[:50]}' but the example says '{want_cells[cell][:50]}'", G.CACHED)
    for st in sorted(set(want_def) - set(defe)):
        res.add(f"default|{st}|missing", f"shipped tables lack default error for state {st}: '{want_def[st][:60]}'", G.CACHED)
    for st in sorted(set(defe) - set(want_def)):
        res.add(f"default|{st}|orphan", f"shipped default error '{str(defe[st])[:60]}' for state {st} is produced by no example", G.CACHED)
    for st in sorted(set(defe) & set(want_def)):
        if defe[st] != want_def[st]:
            res.add(f"default|{st}|message", f"state {st}: shipped default message differs from the example's", G.CACHED)
    res.instances += len(have_cells) + len(defe)
    ep = cp.parsers.get("expression_parser", {})
    if any(a[0] == "E" for row in ep.get("action", {}).values() for a in row.values()) or ep.get("default_errors"):
        res.add("expression_parser|errors", "expression parser carries error codes; it is generated with no examples", G.CACHED)
    res.detail = {"examples": len(examples), "error_cells": len(have_cells), "default_errors": len(defe)}
    res.samples = [{"message": examples[0][0], "example": examples[0][1][:80]}] if examples else []
    res.analysed = [ERROR_EXAMPLES, G.CACHED, G.TOKENIZER]
    return res


def control_iso(repo, cp, ir):
    """Flip one cached action in a copy of the evaluated tables: comparison must report."""
    import copy
    p = cp.parsers["expression_parser"]
    act = {s: dict(r) for s, r in p["action"].items()}
    # retarget one shift of state 0
    for sym, a in act[0].items():
        if a[0] == "S":
            other = next(b[1] for s2, r in act.items() for b in r.values() if b[0] == "S" and b[1] != a[1])
            act[0][sym] = ("S", other)
            break
    ref = LR1(ir["expr_start"], ir["productions"])
    errs = []
    compare_tables(ref, p["goto"], act, lambda k, m: errs.append(k), "control")
    return bool(errs)
