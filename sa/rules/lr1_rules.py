"""R-LR1TABLE: the shipped tables are the canonical LR(1) automaton of the grammar in
module_ir.py, with exactly the error codes error_examples defines."""
from __future__ import annotations

import ast
import re

from .. import grammar as G
from ..pyfacts import walk_no_nested_funcs
from ..lr1ref import LR1, compare_tables
from ..report import AnalysisError, RuleResult
from .. import toksim

ERROR_EXAMPLES = "compiler/front_end/error_examples"


def wellformed(cp, res):
    for name, p in cp.parsers.items():
        for k in ("goto", "action", "productions"):
            if k not in p:
                raise AnalysisError(f"cached_parser.{name}: Parser(...) lacks keyword {k}")
        if p.get("conflicts"):
            res.add(f"{name}|conflicts", f"cached {name} is constructed with a non-empty conflict set", G.CACHED)
        prods = {(x[1], x[2]) for x in p["productions"]}
        states = set(p["action"]) | set(p["goto"])
        accepts = 0
        for s, row in p["action"].items():
            for sym, a in row.items():
                res.instances += 1
                if a[0] == "S":
                    if a[1] not in states:
                        res.add(f"{name}|state{s}|{sym}|dangling", f"{name}: Shift target {a[1]} is not a state", G.CACHED)
                elif a[0] == "R":
                    if (a[1][1], a[1][2]) not in prods:
                        res.add(f"{name}|state{s}|{sym}|rule", f"{name}: Reduce by a production outside prods", G.CACHED)
                elif a[0] == "A":
                    accepts += 1
                    if sym != "$":
                        res.add(f"{name}|state{s}|{sym}|accept", f"{name}: Accept on {sym}, not end of input", G.CACHED)
        if accepts != 1:
            res.add(f"{name}|accepts", f"{name}: {accepts} Accept actions (expected exactly one)", G.CACHED)
        for s, row in p["goto"].items():
            for sym, t in row.items():
                res.instances += 1
                if t not in states:
                    res.add(f"{name}|goto{s}|{sym}|dangling", f"{name}: goto target {t} is not a state", G.CACHED)


def isomorphism(repo, cp=None, ir=None):
    res = RuleResult("R-LR1TABLE")
    ir = ir or G.ir_grammar(repo)
    cp = cp or G.CachedParser(repo)
    wellformed(cp, res)
    total = 0
    for name, start in (("module_parser", ir["start"]), ("expression_parser", ir["expr_start"])):
        if name not in cp.parsers:
            raise AnalysisError(f"cached_parser.py: {name} vanished")
        ref = LR1(start, ir["productions"])
        conf = ref.conflicts()
        if conf:
            s, t, kind = conf[0]
            res.add(f"grammar|{start}|conflict", f"the grammar in module_ir.py (start {start}) is not LR(1): "
                    f"{len(conf)} conflicts, first: {kind} on {t}", G.MODULE_IR)
            continue
        p = cp.parsers[name]
        n, c2r = compare_tables(
            ref, p["goto"], p["action"],
            lambda key, msg: res.add(key, msg, G.CACHED, 0, name), name)
        total += n
        res.instances += n
        res.detail[name] = {"reference_states": ref.nstates, "cached_states_matched": n,
                            "terminals": len(ref.terminals), "productions": len(ref.prods)}
        # one sample: the pair of state 0 and its successor on the first symbol
        first = sorted(ref.shift[0])[0] if ref.shift[0] else None
        res.samples.append({"parser": name, "cached_state": 0, "reference_state": 0,
                            "on": first, "cached_next": (p["action"][0].get(first) or [None, None])[1] if first else None,
                            "reference_next": ref.shift[0].get(first)})
    res.analysed = [G.CACHED, G.MODULE_IR]
    return res


def markerror(repo):
    """R-MARKERROR (C09): what a freshly generated parser answers on an error is what Parser.mark_error stored.  R-ERRCODES
    decides that the shipped tables hold exactly one cell per error example; this rule decides that the generator still
    stores one: in mark_error every `return None` (success) is directly preceded by the store of `error_code` into
    `self.action[...][...]` / `self.default_errors[...]`, or sits under a test that compares the entry already there
    with `error_code` for equality.  Any other silent success leaves the example unmarked, and the fresh parser answers
    with the default message where the shipped one answers with the specific one."""
    res = RuleResult("R-MARKERROR")
    m = repo.mod("compiler/front_end/lr1.py")
    f = m.funcs.get("Parser.mark_error")
    if f is None:
        raise AnalysisError("lr1.py: Parser.mark_error vanished")
    code = f.node.args.args[-1].arg if f.node.args.args else None
    for a in f.node.args.args:
        if "code" in a.arg:
            code = a.arg
    stores = 0
    for r in walk_no_nested_funcs(f.node):
        if not (isinstance(r, ast.Return) and isinstance(r.value, ast.Constant) and r.value.value is None):
            continue
        res.instances += 1
        par = m.parent(r)
        blk = next((b for b in (getattr(par, "body", None), getattr(par, "orelse", None)) if isinstance(b, list) and r in b), None)
        i = blk.index(r) if blk else 0
        prev = blk[i - 1] if blk and i > 0 else None
        if isinstance(prev, ast.Assign) and len(prev.targets) == 1 and isinstance(prev.targets[0], ast.Subscript):
            tgt = ast.unparse(prev.targets[0])
            val = ast.unparse(prev.value)
            if (tgt.startswith("self.action[") and val == f"Error({code})") or (tgt.startswith("self.default_errors[") and val == code):
                stores += 1
                continue
        t = par.test if isinstance(par, ast.If) and blk is par.body else None
        if isinstance(t, ast.Compare) and len(t.ops) == 1 and isinstance(t.ops[0], ast.Eq) \
                and code in (ast.unparse(t.left), ast.unparse(t.comparators[0])):
            continue
        res.add(f"lr1.py|Parser.mark_error|{ast.unparse(t)[:50] if t is not None else 'unconditional'}",
                f"mark_error reports success under `{ast.unparse(t)[:70] if t is not None else '(no test)'}` without storing "
                f"{code} and without finding it already stored: that error example leaves no cell in a freshly generated "
                "parser, which then answers with another message than the shipped tables", m.rel, r.lineno, "Parser.mark_error")
    # ... and every example is handed to it: the loop that feeds mark_error does so unconditionally
    loops = 0
    for cm in repo.modules.values():
        if not cm.rel.startswith("compiler/front_end/") or cm.rel.endswith("_test.py"):
            continue
        for lp in ast.walk(cm.tree):
            if not isinstance(lp, ast.For):
                continue
            calls = [c for c in ast.walk(lp) if isinstance(c, ast.Call) and isinstance(c.func, ast.Attribute) and c.func.attr == "mark_error"]
            if not calls:
                continue
            loops += 1
            res.instances += 1
            for st in lp.body:
                if any(c in list(ast.walk(st)) for c in calls):
                    if isinstance(st, (ast.If, ast.For, ast.While, ast.Try, ast.With)):
                        res.add(f"{cm.rel}|mark-loop|conditional", f"the loop over `{ast.unparse(lp.iter)[:40]}` calls mark_error only under "
                                f"`{ast.unparse(st).splitlines()[0][:70]}`: some error examples mark no cell in a freshly generated parser",
                                cm.rel, st.lineno)
                    break
                if any(isinstance(x, (ast.Continue, ast.Break, ast.Return)) for x in ast.walk(st)):
                    res.add(f"{cm.rel}|mark-loop|skip", f"the loop over `{ast.unparse(lp.iter)[:40]}` can leave an iteration "
                            f"(`{ast.unparse(st).splitlines()[0][:70]}`) before mark_error is called: every error example marks exactly one "
                            "state, and examples that share a message reach different states, so skipped examples leave their states "
                            "unmarked in a freshly generated parser (the shipped tables have them)", cm.rel, st.lineno)
                    break
    if loops < 1:
        raise AnalysisError("no loop that feeds error examples to mark_error found under compiler/front_end")
    res.instances += 1
    if stores < 2:
        res.add("lr1.py|Parser.mark_error|stores", f"mark_error stores the error code on {stores} path(s); there must be one for "
                "the per-terminal cell (self.action[state][symbol] = Error(code)) and one for the default (self.default_errors[state] = code)",
                m.rel, f.line, "Parser.mark_error")
    res.analysed = [m.rel]
    return res


def error_codes(repo, cp=None):
    """Error cells of the cached module parser == cells produced by the examples."""
    res = RuleResult("R-ERRCODES")
    cp = cp or G.CachedParser(repo)
    lits, regs = G.tokenizer_tables(repo)
    text = repo.read(ERROR_EXAMPLES)
    try:
        examples = toksim.parse_error_examples(text)
    except toksim.TokErr as e:
        raise AnalysisError(str(e))
    p = cp.parsers["module_parser"]
    goto, act = p["goto"], p["action"]
    defe = p.get("default_errors") or {}
    want_cells = {}
    want_def = {}
    for idx, (msg, ex) in enumerate(examples):
        res.instances += 1
        key = f"example{idx}|{msg[:40]}"
        try:
            toks = toksim.tokenize(ex, lits, regs)
        except toksim.TokErr as e:
            res.add(key + "|tok", f"error example does not tokenize: {e}", ERROR_EXAMPLES)
            continue
        syms = []
        err_index = None
        any_index = None
        for t in toks:
            if t[0] == "BadWord" and t[1] == "$ERR" and err_index is None:
                err_index = len(syms)
                continue
            if t[0] == "BadWord" and t[1] == "$ANY":
                any_index = len(syms)
                syms.append(toksim.ANY)
                continue
            syms.append(t[0])
        if err_index is None:
            res.add(key + "|noerr", "error example has no $ERR marker", ERROR_EXAMPLES)
            continue
        kind, st, i = toksim.simulate(goto, act, syms)
        if kind != "error":
            res.add(key + "|parses", f"error example for '{msg[:60]}' does not fail in the shipped tables ({kind})",
                    ERROR_EXAMPLES)
            continue
        if i != err_index:
            res.add(key + "|position", f"error example for '{msg[:60]}' fails at token {i}, the $ERR marker "
                    f"is before token {err_index}", ERROR_EXAMPLES)
            continue
        if syms[i] is toksim.ANY:
            if want_def.get(st, msg) != msg:
                res.add(key + "|clash", f"two examples give state {st} different default messages", ERROR_EXAMPLES)
            want_def[st] = msg
        else:
            sym = syms[i] if i < len(syms) else "$"
            if want_cells.get((st, sym), msg) != msg:
                res.add(key + "|clash", f"two examples give cell ({st},{sym}) different messages", ERROR_EXAMPLES)
            want_cells[(st, sym)] = msg
    have_cells = {(s, sym): a[1] for s, row in act.items() for sym, a in row.items() if a[0] == "E"}
    for cell in sorted(set(want_cells) - set(have_cells), key=str):
        res.add(f"cell|{cell[0]}|{cell[1]}|missing", f"shipped tables lack error code for state {cell[0]} on {cell[1]}: "
                f"'{want_cells[cell][:60]}' (user would get a generic syntax error)", G.CACHED)
    for cell in sorted(set(have_cells) - set(want_cells), key=str):
        res.add(f"cell|{cell[0]}|{cell[1]}|orphan", f"shipped tables carry error '{str(have_cells[cell])[:60]}' for state "
                f"{cell[0]} on {cell[1]} that no example in error_examples produces", G.CACHED)
    for cell in sorted(set(have_cells) & set(want_cells), key=str):
        if have_cells[cell] != want_cells[cell]:
            res.add(f"cell|{cell[0]}|{cell[1]}|message", f"state {cell[0]} on {cell[1]}: shipped message "
                    f"'{str(have_cells[cell])[:50]}' but the example says '{want_cells[cell][:50]}'", G.CACHED)
    for st in sorted(set(want_def) - set(defe)):
        res.add(f"default|{st}|missing", f"shipped tables lack default error for state {st}: '{want_def[st][:60]}'", G.CACHED)
    for st in sorted(set(defe) - set(want_def)):
        res.add(f"default|{st}|orphan", f"shipped default error '{str(defe[st])[:60]}' for state {st} is produced by no example", G.CACHED)
    for st in sorted(set(defe) & set(want_def)):
        if defe[st] != want_def[st]:
            res.add(f"default|{st}|message", f"state {st}: shipped default message differs from the example's", G.CACHED)
    res.instances += len(have_cells) + len(defe)
    ep = cp.parsers.get("expression_parser", {})
    if any(a[0] == "E" for row in ep.get("action", {}).values() for a in row.values()) or ep.get("default_errors"):
        res.add("expression_parser|errors", "expression parser carries error codes; it is generated with no examples", G.CACHED)
    res.detail = {"examples": len(examples), "error_cells": len(have_cells), "default_errors": len(defe)}
    res.samples = [{"message": examples[0][0], "example": examples[0][1][:80]}] if examples else []
    res.analysed = [ERROR_EXAMPLES, G.CACHED, G.TOKENIZER]
    return res


MAKE_PARSER = "compiler/front_end/make_parser.py"


def _fold_str(node):
    """Constant value of a string expression built from literals with + and * (else None)."""
    if isinstance(node, ast.Constant) and isinstance(node.value, (str, int)):
        return node.value
    if isinstance(node, ast.BinOp) and isinstance(node.op, (ast.Add, ast.Mult)):
        l, r = _fold_str(node.left), _fold_str(node.right)
        if l is None or r is None:
            return None
        try:
            return l + r if isinstance(node.op, ast.Add) else l * r
        except TypeError:
            return None
    return None


def examplefile(repo):
    """R-ERRCODES reads error_examples with the checker's own reader (toksim.parse_error_examples).  This rule ties
    that reader to the generator's: same three separators, same $ERR/$ANY markers, and the message stored with
    each example is the text of the file with only surrounding whitespace removed (no interior rewriting) —
    otherwise a freshly generated parser carries different messages than the shipped tables."""
    res = RuleResult("R-EXAMPLEFILE")
    m = repo.mod(MAKE_PARSER)
    f = None
    for g in m.top_funcs():
        if any(isinstance(n, ast.Constant) and n.value == "$ERR" for n in ast.walk(g.node)):
            f = g
    if f is None:
        raise AnalysisError("make_parser: the error-example reader (function mentioning $ERR) was not found")
    seps = set()
    for n in walk_no_nested_funcs(f.node):
        if isinstance(n, ast.Call) and isinstance(n.func, ast.Attribute) and n.func.attr == "split" and n.args:
            v = _fold_str(n.args[0])
            if isinstance(v, str):
                seps.add(v)
    want = {"\n" + "=" * 80 + "\n", "\n" + "-" * 80 + "\n", "\n---\n"}
    res.instances += 3
    if seps != want:
        res.add(f"{MAKE_PARSER}|{f.name}|separators", f"{f.name} splits the example file on {sorted(seps)!r}; the file format (and "
                "the checker's reader) uses 80 '=', 80 '-' and '---' lines", MAKE_PARSER, f.line, f.name)
    markers = {n.value for n in ast.walk(f.node) if isinstance(n, ast.Constant) and isinstance(n.value, str) and n.value.startswith("$")
               and n.value[1:].isupper()}
    res.instances += 1
    if markers != {"$ERR", "$ANY"}:
        res.add(f"{MAKE_PARSER}|{f.name}|markers", f"marker set is {sorted(markers)}", MAKE_PARSER, f.line, f.name)
    # message flow into the result tuples
    tuples = []
    for n in walk_no_nested_funcs(f.node):
        if isinstance(n, ast.Call) and isinstance(n.func, ast.Attribute) and n.func.attr == "append" and n.args \
                and isinstance(n.args[0], ast.Tuple) and len(n.args[0].elts) == 4:
            tuples.append(n)
    if not tuples:
        raise AnalysisError("make_parser: result.append((tokens, error_token, message, example)) not found")

    def origin(node, steps, depth=0):
        """Follows a value back to the unpacking of the message/example split; records every transformation."""
        if depth > 8:
            return None
        if isinstance(node, ast.Call) and isinstance(node.func, ast.Attribute) and not isinstance(node.func.value, ast.Constant):
            steps.append((node.func.attr, [ast.unparse(a) for a in node.args], node.lineno))
            return origin(node.func.value, steps, depth + 1)
        if isinstance(node, ast.Call) and isinstance(node.func, ast.Attribute) and isinstance(node.func.value, ast.Constant):
            # "sep".join(x) and the like
            steps.append((f"{node.func.value.value!r}.{node.func.attr}", [ast.unparse(a) for a in node.args], node.lineno))
            return origin(node.args[0], steps, depth + 1) if node.args else None
        if isinstance(node, ast.Name):
            defs = [n for n in walk_no_nested_funcs(f.node) if isinstance(n, ast.Assign)
                    and any(node.id in {x.id for x in ast.walk(t) if isinstance(x, ast.Name)} for t in n.targets)]
            plain = [d for d in defs if any(isinstance(t, ast.Name) and t.id == node.id for t in d.targets)]
            unpack = [d for d in defs if d not in plain]
            if len(unpack) == 1 and not plain:
                return ("unpack", unpack[0])
            if len(unpack) == 1 and plain:
                # re-assigned after unpacking: every re-assignment is a transformation of the previous value
                for d in plain:
                    origin(d.value, steps, depth + 1)
                return ("unpack", unpack[0])
            if len(plain) == 1 and not unpack:
                return origin(plain[0].value, steps, depth + 1)
            return None
        return None

    for t in tuples:
        res.instances += 1
        steps = []
        o = origin(t.args[0].elts[2], steps)
        bad = [s_ for s_ in steps if not (s_[0] in ("strip",) and not s_[1])]
        if o is None:
            res.add(f"{MAKE_PARSER}|{f.name}|message-origin", "the message stored with an example does not come from the "
                    "message section of the example file", MAKE_PARSER, t.lineno, f.name)
        elif bad:
            desc = ", ".join(f"{a}({', '.join(b)})" for a, b, _ in bad)
            res.add(f"{MAKE_PARSER}|{f.name}|message-rewritten", f"{f.name} rewrites the error message on its way from the example "
                    f"file into the parser tables ({desc}); the shipped tables hold the message as written in the file "
                    "(R-ERRCODES), so a freshly generated parser reports different text", MAKE_PARSER, bad[0][2], f.name)
        elif not any(s_[0] == "strip" for s_ in steps):
            res.add(f"{MAKE_PARSER}|{f.name}|message-unstripped", "the message is stored without removing surrounding whitespace",
                    MAKE_PARSER, t.lineno, f.name)
        else:
            res.samples.append(f"{f.name}: message <- strip() of the message section")
    # the message is handed to mark_error as read: every argument of mark_error is a plain element of the example
    marks = []
    for g in m.top_funcs():
        for n in walk_no_nested_funcs(g.node):
            if isinstance(n, ast.Call) and isinstance(n.func, ast.Attribute) and n.func.attr == "mark_error":
                marks.append((g, n))
    if not marks:
        raise AnalysisError("make_parser: no call of mark_error found")
    for g, n in marks:
        res.instances += 1
        loop = next((x for x in walk_no_nested_funcs(g.node) if isinstance(x, ast.For) and any(n is y for y in ast.walk(x))), None)
        lv = loop.target if loop is not None else None
        plain = True
        why = ""
        if len(n.args) < 3:
            plain, why = False, "fewer than three arguments"
        else:
            allowed = set()
            if isinstance(lv, ast.Name):
                allowed = {f"{lv.id}[{i}]" for i in range(6)}
            elif isinstance(lv, ast.Tuple):
                allowed = {e.id for e in lv.elts if isinstance(e, ast.Name)}
            # locals assigned from the loop variable's elements without a call are fine too
            for a in walk_no_nested_funcs(g.node):
                if isinstance(a, ast.Assign) and isinstance(a.targets[0], ast.Name) and ast.unparse(a.value) in allowed:
                    allowed.add(a.targets[0].id)
            for arg in n.args[:3]:
                if ast.unparse(arg) not in allowed:
                    plain, why = False, f"`{ast.unparse(arg)[:70]}`"
        if not plain:
            res.add(f"{MAKE_PARSER}|{g.name}|mark_error-argument", f"{g.name} passes {why} to mark_error instead of the example's own "
                    "element: tokens or message are altered between the example file and the parser tables, so a freshly generated "
                    "parser differs from the shipped one (R-ERRCODES ties the shipped tables to the file as written)",
                    MAKE_PARSER, n.lineno, g.name)
        elif len(res.samples) < 3:
            res.samples.append(f"{g.name}: mark_error({', '.join(ast.unparse(a) for a in n.args[:3])})")
    res.analysed = [MAKE_PARSER, "sa/toksim.py (the checker's reader)"]
    return res


def control_iso(repo, cp, ir):
    """Flip one cached action in a copy of the evaluated tables: comparison must report."""
    import copy
    p = cp.parsers["expression_parser"]
    act = {s: dict(r) for s, r in p["action"].items()}
    # retarget one shift of state 0
    for sym, a in act[0].items():
        if a[0] == "S":
            other = next(b[1] for s2, r in act.items() for b in r.values() if b[0] == "S" and b[1] != a[1])
            act[0][sym] = ("S", other)
            break
    ref = LR1(ir["expr_start"], ir["productions"])
    errs = []
    compare_tables(ref, p["goto"], act, lambda k, m: errs.append(k), "control")
    return bool(errs)


def docexamples(repo, cp=None):
    """R-DOCEXAMPLES (C09): "the language the shipped parser accepts is the language the documentation publishes" also
    holds for the examples of the user documentation.  Every fenced block (no language tag, or `emb`) of the user
    documents that is a whole module fragment -- after comments, documentation, attributes and imports its first line
    opens a `struct`, `enum`, `bits` or `external` at column 0, and every other line is indented or opens another
    definition -- is tokenised with the tokenizer's own tables and run through the shipped LR(1) tables by the
    checker's automaton (nothing of the repository is executed); it must be accepted.  `enum Baud: B300 = 300`
    (a BadWord by the documented name rule) and `[(cpp) namespace = "example"]` were published as valid Emboss."""
    res = RuleResult("R-DOCEXAMPLES")
    cp = cp or G.CachedParser(repo)
    lits, regs = G.tokenizer_tables(repo)
    p = cp.parsers["module_parser"]
    goto, act = p["goto"], p["action"]
    docs = ("doc/language-reference.md", "doc/guide.md", "doc/cpp-guide.md", "doc/cpp-reference.md", "doc/text-format.md", "README.md")
    opener = ("struct ", "enum ", "bits ", "external ")
    for doc in docs:
        try:
            text = repo.read(doc)
        except OSError:
            raise AnalysisError(f"{doc} is missing")
        for m in re.finditer(r"^```([^\n]*)\n(.*?)^```", text, re.S | re.M):
            lang, body = m.group(1).strip(), m.group(2)
            if lang not in ("", "emb"):
                continue
            content = [ln for ln in body.split("\n") if ln.strip()]
            core = [ln for ln in content if not ln.strip().startswith(("#", "--", "[", "import "))]
            if not core or not core[0].startswith(opener):
                continue
            if any(not ln.startswith((" ",) + opener + ("#", "[", "import ", "--")) for ln in content):
                continue
            line = text[:m.start()].count("\n") + 1
            res.instances += 1
            key = f"{doc}|{core[0].strip()[:40]}"
            try:
                toks = toksim.tokenize(body, lits, regs)
            except toksim.TokErr as e:
                res.add(key + "|tokenize", f"{doc}:{line}: documentation example does not tokenise: {e}", doc, line)
                continue
            kind, st, i = toksim.simulate(goto, act, [t[0] for t in toks])
            if kind != "accept":
                at = toks[i] if i < len(toks) else ("end of input", "", 0, 0)
                res.add(key + "|parse", f"{doc}:{line}: the example starting `{core[0].strip()[:50]}` is published as Emboss but the shipped parser "
                        f"rejects it at `{at[1]}` ({at[0]}, line {at[2]} of the block)", doc, line)
    if res.instances < 10:
        raise AnalysisError(f"only {res.instances} module examples found in the user documentation")
    res.analysed = list(docs)
    return res
