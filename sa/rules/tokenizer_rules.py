"""C10 rules: R-TOKTABLE, R-TOKSKIP, R-TOKTIE, R-TOKPOS, R-INDENT."""
from __future__ import annotations

import ast
import re

from .. import grammar as G
from ..pyfacts import Repo, call_name, dotted_name, walk_no_nested_funcs
from ..report import AnalysisError, RuleResult

TOK = G.TOKENIZER
CATCH_ALL = {"BadWord", "BadNumber", "BadDocumentation"}


def toktable(repo):
    res = RuleResult("R-TOKTABLE")
    lits, regs = G.tokenizer_tables(repo)
    _, doc = G.doc_grammar(repo)
    # the documented normalisation of patterns (generate_grammar_md._normalize_*): non-word characters of
    # literals are backslash-escaped, `|` in regexes is escaped for the Markdown table
    # what a reader sees: a Markdown table cell in which `\|` stands for `|` (the only escape inside a code span of a
    # table).  The *rendered* cell must be the pattern: the tokenizer's regex itself, and for a literal the regex that
    # matches exactly that literal (every non-word character escaped).
    want = [(re.sub(r"(\W)", r"\\\1", l), '"' + l + '"') for l in lits]
    want += [(p, s) for p, s, _ in regs]
    doc = [(d[0].replace("\\|", "|"),) + tuple(d[1:]) for d in doc]
    res.instances = len(want)
    if len(doc) != len(want):
        res.add("doc|count", f"doc/grammar.md documents {len(doc)} token patterns, the tokenizer has {len(want)}", G.GRAMMAR_MD)
    for i, (w, d) in enumerate(zip(want, doc)):
        if (w[0], w[1]) != (d[0], d[1]):
            res.add(f"doc|row{i}|{w[1]}", f"token pattern #{i} differs: tokenizer has {w[0]!r} -> {w[1]}, "
                    f"doc/grammar.md has {d[0]!r} -> {d[1]} (pattern order decides ties)", G.GRAMMAR_MD)
            break
    # the documented table shows the pattern text only: a compile flag changes what the pattern matches without
    # changing a character of the documentation (`\\s+` with re.ASCII no longer skips NBSP or U+2028)
    for pat, sym, line in regs:
        fl = G.REGEX_FLAGS.get((repo.root, line))
        if fl:
            res.instances += 1
            res.add(f"{TOK}|regex|{sym or 'gap'}|flags", f"token pattern {pat!r} ({sym or 'no symbol'}) is compiled with `{fl}`: the pattern no longer "
                    "means what the documented table (pattern text only) says", TOK, line)
    # terminals <-> tokenizer symbols
    g = G.ir_grammar(repo)
    lhs = {l for l, _ in g["productions"]}
    terminals = {s for _, rhs in g["productions"] for s in rhs if s not in lhs}
    producible = {'"' + l + '"' for l in lits} | {s for _, s, _ in regs if s} | {'"\\n"', "Indent", "Dedent"}
    for t in sorted(terminals - producible):
        res.instances += 1
        res.add(f"terminal|{t}", f"grammar terminal {t} is produced by no tokenizer pattern: every production using it "
                "is dead and its source form is a syntax error", G.MODULE_IR)
    for s in sorted(producible - terminals - CATCH_ALL):
        res.instances += 1
        res.add(f"symbol|{s}", f"the tokenizer emits {s}, which is not a terminal of the grammar (such input can never parse)", TOK)
    # duplicates among literals
    if len(set(lits)) != len(lits):
        res.add("literals|duplicate", "LITERAL_TOKEN_PATTERNS contains a duplicate", TOK)
    res.samples = [f"{want[0]}", f"{want[-1]}"]
    res.detail = {"literals": len(lits), "regexes": len(regs), "terminals": len(terminals)}
    res.analysed = [TOK, G.GRAMMAR_MD, G.MODULE_IR]
    return res


def _only_whitespace(parsed):
    """Does the regex AST match only whitespace characters?"""
    import re._constants as C
    for op, av in parsed:
        if op is C.IN:
            for iop, iav in av:
                if iop is C.CATEGORY and iav is C.CATEGORY_SPACE:
                    continue
                if iop is C.LITERAL and chr(iav).isspace():
                    continue
                return False
        elif op is C.LITERAL:
            if not chr(av).isspace():
                return False
        elif op in (C.MAX_REPEAT, C.MIN_REPEAT, C.POSSESSIVE_REPEAT):
            if not _only_whitespace(av[2]):
                return False
        elif op is C.SUBPATTERN:
            if not _only_whitespace(av[3]):
                return False
        elif op is C.BRANCH:
            if not all(_only_whitespace(b) for b in av[1]):
                return False
        elif op is C.CATEGORY:
            if av is not C.CATEGORY_SPACE:
                return False
        else:
            return False
    return True


def tokskip(repo):
    import re._parser as P
    res = RuleResult("R-TOKSKIP")
    lits, regs = G.tokenizer_tables(repo)
    for pat, sym, line in regs:
        res.instances += 1
        try:
            parsed = P.parse(pat)
        except re.error as e:
            res.add(f"regex|{pat}", f"token regex {pat!r} does not compile: {e}", TOK, line)
            continue
        lo, hi = parsed.getwidth()
        if lo == 0:
            res.add(f"regex|{pat}|empty", f"token regex {pat!r} can match the empty string (no progress / never chosen)", TOK, line)
        if not sym:
            if not _only_whitespace(parsed):
                res.add(f"regex|{pat}|skip", f"pattern {pat!r} emits no token but matches non-whitespace text: source "
                        "characters would silently disappear from the token stream", TOK, line)
    for l in lits:
        res.instances += 1
        if not l or l.strip() != l:
            res.add(f"literal|{l!r}", "empty or whitespace-padded literal token", TOK)
    res.samples = [f"{p!r} -> {s}" for p, s, _ in regs if not s]
    res.analysed = [TOK]
    return res


def _line_tokenizer(repo):
    m = repo.mod(TOK)
    for f in m.top_funcs():
        loops = [n for n in walk_no_nested_funcs(f.node) if isinstance(n, ast.For)]
        its = {n.id for l in loops for n in ast.walk(l.iter) if isinstance(n, ast.Name)}
        if {"LITERAL_TOKEN_PATTERNS", "REGEX_TOKEN_PATTERNS"} <= its:
            return m, f
    raise AnalysisError("tokenizer: the function looping over literal and regex patterns was not found")


def toktie(repo):
    res = RuleResult("R-TOKTIE")
    m, f = _line_tokenizer(repo)
    loops = {}
    for n in walk_no_nested_funcs(f.node):
        if isinstance(n, ast.For):
            for nm in ast.walk(n.iter):
                if isinstance(nm, ast.Name) and nm.id in ("LITERAL_TOKEN_PATTERNS", "REGEX_TOKEN_PATTERNS"):
                    loops[nm.id] = n
    lit, rx = loops["LITERAL_TOKEN_PATTERNS"], loops["REGEX_TOKEN_PATTERNS"]
    res.instances = 5
    # every pattern of both tables is a candidate at every offset: the loops iterate the whole table, sit directly
    # in the scanning loop (not under a condition) and never stop early.
    scan = [n for n in walk_no_nested_funcs(f.node) if isinstance(n, ast.While)]
    direct = set(map(id, scan[0].body)) if scan else set()
    for name, loop in (("literal", lit), ("regex", rx)):
        if not isinstance(loop.iter, ast.Name):
            res.add(f"{TOK}|{f.name}|{name}|every", f"the {name} loop iterates `{ast.unparse(loop.iter)}`, not the whole "
                    "table: some patterns are not candidates at some offsets, so the result is not the longest match",
                    TOK, loop.lineno, f.name)
        elif scan and id(loop) not in direct:
            res.add(f"{TOK}|{f.name}|{name}|every", f"the {name} loop is nested under a condition inside the scanning loop",
                    TOK, loop.lineno, f.name)
        for n in ast.walk(loop):
            if isinstance(n, (ast.Break, ast.Return)):
                res.add(f"{TOK}|{f.name}|{name}|early-exit", f"the {name} loop stops at line {n.lineno} before all patterns "
                        "were compared", TOK, n.lineno, f.name)
    if not (lit.lineno < rx.lineno):
        res.add(f"{TOK}|{f.name}|order", "regex patterns are tried before literals: on equal length a keyword would be "
                "classified as a word", TOK, rx.lineno, f.name)
    for name, loop in (("literal", lit), ("regex", rx)):
        cmps = [n for n in ast.walk(loop) if isinstance(n, ast.Compare) and "len(" in ast.unparse(n) and "best" in ast.unparse(n)]
        if not cmps:
            res.add(f"{TOK}|{f.name}|{name}|compare", f"{name} loop has no length comparison against the best candidate", TOK, loop.lineno, f.name)
        for c in cmps:
            if not (len(c.ops) == 1 and isinstance(c.ops[0], ast.Gt)):
                res.add(f"{TOK}|{f.name}|{name}|tie", f"{name} loop replaces the best candidate on `{ast.unparse(c)}`: "
                        "ties must go to the earlier pattern (strict >)", TOK, c.lineno, f.name)
            else:
                # left must be the new candidate length, right the current best
                if "best" in ast.unparse(c.left):
                    res.add(f"{TOK}|{f.name}|{name}|direction", f"comparison `{ast.unparse(c)}` prefers shorter matches", TOK, c.lineno, f.name)
    res.samples = [f"{f.fq}: literal loop line {lit.lineno}, regex loop line {rx.lineno}"]
    res.analysed = [TOK]
    return res


# --- linear forms ----------------------------------------------------------------------------
def linear(node, syms):
    """Linear form {symbol: coeff, 1: const} of an arithmetic AST over given symbol recognisers."""
    if isinstance(node, ast.Constant) and isinstance(node.value, int):
        return {1: node.value}
    for name, pred in syms.items():
        if pred(node):
            return {name: 1}
    if isinstance(node, ast.BinOp) and isinstance(node.op, (ast.Add, ast.Sub)):
        a, b = linear(node.left, syms), linear(node.right, syms)
        if a is None or b is None:
            return None
        out = dict(a)
        sign = 1 if isinstance(node.op, ast.Add) else -1
        for k, v in b.items():
            out[k] = out.get(k, 0) + sign * v
        return {k: v for k, v in out.items() if v}
    if isinstance(node, ast.UnaryOp) and isinstance(node.op, ast.USub):
        a = linear(node.operand, syms)
        return None if a is None else {k: -v for k, v in a.items()}
    return None


def _sub(a, b):
    out = dict(a)
    for k, v in b.items():
        out[k] = out.get(k, 0) - v
    return {k: v for k, v in out.items() if v}


def tokpos(repo):
    res = RuleResult("R-TOKPOS")
    m, f = _line_tokenizer(repo)
    wl = [n for n in walk_no_nested_funcs(f.node) if isinstance(n, ast.While)]
    if not wl:
        raise AnalysisError("tokenizer: scanning loop not found")
    loop = wl[0]
    # names: the offset variable is the one compared with len(line) in the loop test
    t = loop.test
    if not (isinstance(t, ast.Compare) and isinstance(t.left, ast.Name)):
        raise AnalysisError("tokenizer: scanning loop test is not `offset < len(line)`")
    off = t.left.id
    best = None
    for n in ast.walk(loop):
        if isinstance(n, ast.AugAssign) and isinstance(n.target, ast.Name) and n.target.id == off:
            c = n.value
            if isinstance(c, ast.Call) and call_name(c) == "len" and isinstance(c.args[0], ast.Name):
                best = c.args[0].id
    if best is None:
        res.add(f"{TOK}|{f.name}|advance", f"`{off}` is not advanced by len(<matched text>)", TOK, loop.lineno, f.name)
        return res
    syms = {
        "offset": lambda n: isinstance(n, ast.Name) and n.id == off,
        "L": lambda n: isinstance(n, ast.Call) and call_name(n) == "len" and len(n.args) == 1
        and isinstance(n.args[0], ast.Name) and n.args[0].id == best,
    }
    # 0. subject: the text that is matched is the caller's line, unmodified, from the current offset
    line_param = f.node.args.args[0].arg
    res.instances += 2
    rebinds = [n for n in walk_no_nested_funcs(f.node) if isinstance(n, (ast.Assign, ast.AugAssign))
               and any(isinstance(x, ast.Name) and x.id == line_param and isinstance(x.ctx, ast.Store)
                       for x in ast.walk(n.targets[0] if isinstance(n, ast.Assign) else n.target))]
    if rebinds:
        res.add(f"{TOK}|{f.name}|subject-rebound", f"{f.name} rebinds its line parameter (`{ast.unparse(rebinds[0])}`): tokens are matched "
                "against altered text, so patterns that run to the end of the line (comments, documentation) stop early and token "
                "text/end columns no longer equal the source", TOK, rebinds[0].lineno, f.name)
    subjects = set()
    for n in ast.walk(loop):
        if isinstance(n, ast.Call) and isinstance(n.func, ast.Attribute) and n.func.attr in ("startswith", "match") :
            subj = n.func.value if n.func.attr == "startswith" else (n.args[0] if n.args else None)
            if subj is not None:
                subjects.add(ast.unparse(subj))
    if subjects != {f"{line_param}[{off}:]"}:
        res.add(f"{TOK}|{f.name}|subject", f"patterns are matched against {sorted(subjects)}, not against `{line_param}[{off}:]`", TOK, loop.lineno, f.name)
    # the caller hands the line over as it was cut from the source
    for g in m.top_funcs():
        for n in walk_no_nested_funcs(g.node):
            if isinstance(n, ast.Call) and isinstance(n.func, ast.Name) and n.func.id == f.name and n.args:
                res.instances += 1
                a0 = n.args[0]
                loops_ = [x for x in walk_no_nested_funcs(g.node) if isinstance(x, ast.For) and isinstance(x.target, ast.Name)
                          and isinstance(a0, ast.Name) and x.target.id == a0.id]
                if not loops_:
                    res.add(f"{TOK}|{g.name}|line-argument", f"{g.name} passes `{ast.unparse(a0)}` to {f.name}, not the line as cut from the source",
                            TOK, n.lineno, g.name)
    # 1. advance: exactly one unconditional `offset += len(best)` as a direct statement of the loop body
    adv = [s for s in loop.body if isinstance(s, ast.AugAssign) and isinstance(s.target, ast.Name) and s.target.id == off]
    alladv = [n for n in ast.walk(loop) if isinstance(n, (ast.AugAssign, ast.Assign)) and off in
              [x.id for x in ast.walk(n.target if isinstance(n, ast.AugAssign) else n.targets[0]) if isinstance(x, ast.Name)]]
    res.instances += 1
    if len(adv) != 1 or len(alladv) != 1 or not isinstance(adv[0].op, ast.Add) or linear(adv[0].value, syms) != {"L": 1}:
        res.add(f"{TOK}|{f.name}|advance", f"`{off}` must advance by exactly len({best}) once per iteration, unconditionally",
                TOK, loop.lineno, f.name)
    # 2. matching happens at `line[offset:]`
    for n in ast.walk(loop):
        if isinstance(n, ast.Subscript) and isinstance(n.value, ast.Name) and n.value.id == "line" and isinstance(n.slice, ast.Slice):
            res.instances += 1
            lo = linear(n.slice.lower, syms) if n.slice.lower is not None else {}
            if lo != {"offset": 1} or n.slice.upper is not None:
                res.add(f"{TOK}|{f.name}|slice", f"patterns are matched against `{ast.unparse(n)}`, not `line[{off}:]`", TOK, n.lineno, f.name)
    # 3. Token construction
    toks = [n for n in ast.walk(loop) if isinstance(n, ast.Call) and (call_name(n) or "").endswith("Token")]
    if not toks:
        res.add(f"{TOK}|{f.name}|token", "no Token is constructed in the scanning loop", TOK, loop.lineno, f.name)
    for tk in toks:
        res.instances += 1
        if len(tk.args) != 3:
            res.add(f"{TOK}|{f.name}|token-arity", "Token(...) does not have (symbol, text, location)", TOK, tk.lineno, f.name)
            continue
        if not (isinstance(tk.args[1], ast.Name) and tk.args[1].id == best):
            res.add(f"{TOK}|{f.name}|token-text", f"token text is `{ast.unparse(tk.args[1])}`, not the matched text `{best}`", TOK, tk.lineno, f.name)
        loc = tk.args[2]
        if not (isinstance(loc, ast.Call) and len(loc.args) == 2 and all(isinstance(a, ast.Tuple) and len(a.elts) == 2 for a in loc.args)):
            res.add(f"{TOK}|{f.name}|token-loc", "token location is not SourceLocation((line, col), (line, col))", TOK, tk.lineno, f.name)
            continue
        (l1, c1), (l2, c2) = loc.args[0].elts, loc.args[1].elts
        if ast.unparse(l1) != ast.unparse(l2):
            res.add(f"{TOK}|{f.name}|token-line", "token start and end are on different lines", TOK, tk.lineno, f.name)
        s, e = linear(c1, syms), linear(c2, syms)
        if s != {"offset": 1, 1: 1}:
            res.add(f"{TOK}|{f.name}|start-col", f"token start column is `{ast.unparse(c1)}`, must be {off} + 1 (1-based)", TOK, tk.lineno, f.name)
        if s is None or e is None or _sub(e, s) != {"L": 1}:
            res.add(f"{TOK}|{f.name}|end-col", f"token end column `{ast.unparse(c2)}` minus start column is not len({best})", TOK, tk.lineno, f.name)
    res.samples = [f"offset var {off}, matched text var {best}, {len(toks)} Token construction(s)"]
    res.analysed = [TOK]
    return res


def _assigns_name(fnode, name):
    return any(isinstance(n, ast.Assign) and any(isinstance(t, ast.Name) and t.id == name for t in n.targets)
               for n in walk_no_nested_funcs(fnode))


def _method_chain(node, f):
    """(root, [(method, [arg source])]) for root.m1(a).m2(b)...; a Name assigned once in f is followed."""
    chain = []
    seen = set()
    while True:
        if isinstance(node, ast.Call) and isinstance(node.func, ast.Attribute):
            chain.append((node.func.attr, [ast.unparse(a) for a in node.args] + [f"{k.arg}={ast.unparse(k.value)}" for k in node.keywords]))
            node = node.func.value
            continue
        if isinstance(node, ast.Name) and f is not None and node.id not in seen:
            seen.add(node.id)
            defs = [n.value for n in walk_no_nested_funcs(f) if isinstance(n, ast.Assign)
                    and any(isinstance(t, ast.Name) and t.id == node.id for t in n.targets)]
            if len(defs) == 1:
                node = defs[0]
                continue
        break
    return ast.unparse(node), list(reversed(chain))


def _splitter(node, f):
    """How `node` cuts text into lines: ("helper", name, root) for `split_lines(x)` / `error.split_lines(x)`,
    ("chain", [(method, args)...], root) for method calls on the text."""
    if isinstance(node, ast.Name) and f is not None:
        defs = [n.value for n in walk_no_nested_funcs(f) if isinstance(n, ast.Assign)
                and any(isinstance(t, ast.Name) and t.id == node.id for t in n.targets)]
        if len(defs) == 1:
            node = defs[0]
    if isinstance(node, ast.Call) and not isinstance(node.func, ast.Attribute) or \
            (isinstance(node, ast.Call) and isinstance(node.func, ast.Attribute) and isinstance(node.func.value, ast.Name)
             and node.func.value.id in ("error", "parser_types") and node.args):
        name = node.func.attr if isinstance(node.func, ast.Attribute) else node.func.id
        root = ast.unparse(node.args[0]) if node.args else ""
        return ("helper", name, root)
    root, chain = _method_chain(node, f)
    return ("chain", chain, root)


def linesplit(repo, side="both"):
    """R-LINESPLIT (C10/C16): line numbers are assigned by the tokenizer and interpreted by the error printer, so both cut
    the source text into lines in the *same* way (same helper, or identical method chain).  And the cut follows the
    documented patterns: `#.*`, `-- .*` and strings stop only at a newline, so only "\n" (with "\r\n"/"\r") ends a line --
    `str.splitlines()` also splits at form feed, vertical tab, U+0085, U+2028/9, FS/GS/RS, which turns the rest of a
    comment into code (`# disabled:<FF>  1 [+1] UInt hidden` declares a field)."""
    res = RuleResult("R-LINESPLIT")
    m = repo.mod(TOK)
    f = next((g for g in m.top_funcs() if _assigns_name(g.node, "indent_stack")), None)
    if f is None:
        raise AnalysisError("tokenizer: the function maintaining indent_stack was not found")
    loops = [n for n in f.node.body if isinstance(n, ast.For)
             and any(isinstance(x, ast.AugAssign) and isinstance(x.op, ast.Add) for x in n.body)]
    if not loops:
        raise AnalysisError("tokenizer: the per-line loop was not found")
    tok = _splitter(loops[0].iter, f.node)
    params = [a.arg for a in f.node.args.args]
    res.instances += 1
    if tok[2] not in params:
        res.add(f"{TOK}|{f.name}|lines-root", f"the per-line loop iterates `{ast.unparse(loops[0].iter)}`, which is not derived "
                f"from the source text parameter", TOK, loops[0].lineno, f.name)
    er = repo.mod("compiler/util/error.py")
    shown = []
    for g in er.funcs.values():
        for n in walk_no_nested_funcs(g.node):
            if isinstance(n, ast.Assign) and isinstance(n.targets[0], ast.Name) and "line" in n.targets[0].id and isinstance(n.value, ast.Call) \
                    and "source" in ast.unparse(n.value) and "[" in ast.unparse(n.value):
                shown.append((g, n.value, _splitter(n.value, g.node)))
    if not shown:
        raise AnalysisError("error.py: the place where source text is cut into lines for display was not found")

    def over_splits(sp):
        """reason if the splitter cuts at more than newline characters, else None."""
        if sp[0] == "chain":
            if sp[1] and sp[1][0][0] == "splitlines":
                return "str.splitlines() also ends a line at form feed, vertical tab, U+0085, U+2028, U+2029 and FS/GS/RS"
            if sp[1] and sp[1][0][0] == "split" and sp[1][0][1] in (["'\\n'"], ['"\\n"']):
                return None
            return f"unrecognised way of cutting lines: {sp[1]}"
        helper = next((g for g in er.funcs.values() if g.name == sp[1]), None) or next((g for g in m.funcs.values() if g.name == sp[1]), None)
        if helper is None:
            return f"helper {sp[1]} not found"
        pats = [c for n in ast.walk(helper.node) if isinstance(n, ast.Call) and (call_name(n) or "") in ("re.split", "re.compile") and n.args
                for c in [n.args[0]] if isinstance(c, ast.Constant) and isinstance(c.value, str)]
        if any(isinstance(n, ast.Attribute) and n.attr == "splitlines" for n in ast.walk(helper.node)):
            return "the helper uses str.splitlines()"
        if not pats:
            return f"helper {sp[1]}: no literal re.split pattern"
        alts = set(pats[0].value.split("|"))
        if not alts <= {"\r\n", "\r", "\n"} or "\n" not in alts:
            return f"helper {sp[1]} splits at {sorted(alts)!r}"
        return None

    if side in ("both", "tokenizer"):
        res.instances += 1
        why = over_splits(tok)
        if why:
            res.add(f"{TOK}|{f.name}|linesplit", f"{f.name} cuts the source into lines in a way the documented patterns do not allow: {why}; "
                    "text after such a character inside a comment, documentation or string becomes a line of its own (code)",
                    TOK, loops[0].lineno, f.name)
        else:
            res.samples.append(f"{f.name}: {tok[:2]}")
    for g, n, sp in shown:
        res.instances += 1
        if sp[:2] != tok[:2]:
            if side in ("both", "printer") or (side == "tokenizer" and over_splits(tok) is None):
                owner = (er.rel, g.qualname) if side != "tokenizer" else (TOK, f.name)
                res.add(f"{owner[0]}|{owner[1]}|linesplit-agree", f"{g.qualname} (error display) cuts the source into lines with {sp[:2]} but "
                        f"{f.name} numbers lines with {tok[:2]}: for terminators the two treat differently a reported line number "
                        "addresses other text or no line at all", er.rel if side != "tokenizer" else TOK, n.lineno, owner[1])
        else:
            res.samples.append(f"{f.name} and {g.qualname}: {sp[:2]}")
    res.analysed = [TOK, er.rel]
    return res


def indent(repo):
    res = RuleResult("R-INDENT")
    m = repo.mod(TOK)
    f = None
    for g in m.top_funcs():
        if _assigns_name(g.node, "indent_stack"):
            f = g
    if f is None:
        raise AnalysisError("tokenizer: the function maintaining indent_stack was not found")

    def token_kind(call):
        if isinstance(call, ast.Call) and (call_name(call) or "").endswith("Token") and call.args \
                and isinstance(call.args[0], ast.Constant):
            return call.args[0].value
        return None

    def scan_block(stmts):
        """counts of pushes, pops, Indent/Dedent/newline token appends directly in this block
        (descending only into statements that are not themselves loops/ifs)."""
        c = {"push": 0, "pop": 0, "Indent": 0, "Dedent": 0, "nl": 0}
        for st in stmts:
            if isinstance(st, (ast.If, ast.For, ast.While, ast.Try, ast.With)):
                continue
            for n in ast.walk(st):
                if isinstance(n, ast.Call) and isinstance(n.func, ast.Attribute):
                    tgt = ast.unparse(n.func.value)
                    if tgt == "indent_stack" and n.func.attr == "append":
                        c["push"] += 1
                    if tgt == "indent_stack" and n.func.attr == "pop":
                        c["pop"] += 1
                    if n.func.attr == "append" and n.args:
                        k = token_kind(n.args[0])
                        if k in ("Indent", "Dedent"):
                            c[k] += 1
                        if k == '"\\n"':
                            c["nl"] += 1
                if isinstance(n, ast.Delete):
                    for t in n.targets:
                        if isinstance(t, ast.Subscript) and ast.unparse(t.value) == "indent_stack":
                            c["pop"] += 1
        return c

    blocks = []

    def collect(stmts, where):
        blocks.append((where, stmts))
        for st in stmts:
            if isinstance(st, ast.If):
                collect(st.body, f"if@{st.lineno}")
                if st.orelse:
                    collect(st.orelse, f"else@{st.lineno}")
            elif isinstance(st, (ast.For, ast.While)):
                collect(st.body, f"loop@{st.lineno}")
                if st.orelse:
                    collect(st.orelse, f"loop-else@{st.lineno}")
    collect(f.node.body, "body")
    total = {"push": 0, "pop": 0, "Indent": 0, "Dedent": 0, "nl": 0}
    epilogue_ok = False
    for where, stmts in blocks:
        c = scan_block(stmts)
        res.instances += 1
        for k in total:
            total[k] += c[k]
        if c["push"] != c["Indent"]:
            res.add(f"{TOK}|{f.name}|indent|{where.split('@')[0]}", f"block {where}: {c['push']} indent_stack pushes but "
                    f"{c['Indent']} Indent tokens — Indent tokens no longer mirror the stack", TOK, stmts[0].lineno, f.name)
        if c["pop"] != c["Dedent"]:
            # the epilogue emits one Dedent per remaining level without popping
            parent_loop = None
            for st in ast.walk(f.node):
                if isinstance(st, ast.For) and st.body is stmts:
                    parent_loop = st
            if parent_loop is not None and c["pop"] == 0 and c["Dedent"] == 1 and \
                    re.fullmatch(r"range\(len\(indent_stack\) - 1\)", ast.unparse(parent_loop.iter)):
                epilogue_ok = True
                continue
            res.add(f"{TOK}|{f.name}|dedent|{where.split('@')[0]}", f"block {where}: {c['pop']} indent_stack pops but "
                    f"{c['Dedent']} Dedent tokens — Dedent tokens no longer mirror the stack", TOK, stmts[0].lineno, f.name)
    res.instances += 2
    if not epilogue_ok:
        res.add(f"{TOK}|{f.name}|epilogue", "end of input no longer emits one Dedent per open indentation level "
                "(for _ in range(len(indent_stack) - 1))", TOK, f.line, f.name)
    if total["push"] < 1 or total["Indent"] < 1 or total["Dedent"] < 2:
        res.add(f"{TOK}|{f.name}|missing", f"Indent/Dedent synthesis incomplete: {total}", TOK, f.line, f.name)
    # newline token on both line kinds: comment-only lines (for-else) and ordinary lines (end of loop body)
    if total["nl"] < 2:
        res.add(f"{TOK}|{f.name}|newline", f"only {total['nl']} newline-token emission(s): every non-blank line (comment-only "
                "and ordinary) must end in one newline token", TOK, f.line, f.name)
    # Indent is emitted only when the new leading whitespace *extends* the innermost open level, and its text is
    # exactly the extension; dedent levels are found by equality and an unmatched level is an error
    res.instances += 4
    pushes = [n for n in ast.walk(f.node) if isinstance(n, ast.Call) and isinstance(n.func, ast.Attribute)
              and n.func.attr == "append" and ast.unparse(n.func.value) == "indent_stack" and n.args]
    for pu in pushes:
        pushed = ast.unparse(pu.args[0])
        guard = None
        node = pu
        while node is not None and node is not f.node:
            parent = m.parent(node)
            if isinstance(parent, ast.If) and any(node is st or node in ast.walk(st) for st in parent.body):
                guard = parent
                break
            node = parent
        want = f"{pushed}.startswith(indent_stack[-1])"
        if guard is None or ast.unparse(guard.test) != want:
            res.add(f"{TOK}|{f.name}|indent-guard", f"a new indentation level `{pushed}` is opened under "
                    f"`{ast.unparse(guard.test) if guard is not None else 'no condition'}`; it must extend the current level "
                    f"(`{want}`), otherwise inconsistent whitespace is accepted and the Indent text is not the added prefix",
                    TOK, pu.lineno, f.name)
        elif guard is not None:
            texts = [ast.unparse(c.args[1]) for st in guard.body for c in ast.walk(st)
                     if isinstance(c, ast.Call) and token_kind(c) == "Indent" and len(c.args) >= 2]
            if texts and texts[0] != f"{pushed}[len(indent_stack[-1]):]":
                res.add(f"{TOK}|{f.name}|indent-text", f"Indent token text is `{texts[0]}`, not the added whitespace "
                        f"`{pushed}[len(indent_stack[-1]):]`", TOK, guard.lineno, f.name)
    # dedent search loop
    ded = None
    for n in ast.walk(f.node):
        if isinstance(n, ast.For) and any(isinstance(x, ast.Delete) for x in ast.walk(n)) and "indent_stack" in ast.unparse(n.iter):
            ded = n
    if ded is None:
        res.add(f"{TOK}|{f.name}|dedent-loop", "the loop closing indentation levels was not found", TOK, f.line, f.name)
    else:
        first = ded.body[0] if ded.body else None
        okeq = isinstance(first, ast.If) and isinstance(first.test, ast.Compare) and isinstance(first.test.ops[0], ast.Eq) \
            and "indent_stack[" in ast.unparse(first.test) and any(isinstance(x, ast.Break) for x in first.body)
        if not okeq:
            res.add(f"{TOK}|{f.name}|dedent-match", "closing levels no longer stops at the level whose whitespace *equals* the "
                    "line's leading whitespace", TOK, ded.lineno, f.name)
        if not ded.orelse or not any(isinstance(x, ast.Return) for st in ded.orelse for x in ast.walk(st)):
            res.add(f"{TOK}|{f.name}|dedent-error", "an indentation that matches no open level is no longer an error", TOK, ded.lineno, f.name)
    # positions of the synthesized tokens inside the per-line loop: an Indent covers exactly the added whitespace
    # (its text is the slice its columns name), a Dedent is zero-width at the end of the line's (shorter) leading
    # whitespace -- where the first real token of the line starts -- so every token list stays in source order and a
    # parent node's span, merged from its tokens, contains its children
    line_loops = [n for n in walk_no_nested_funcs(f.node) if isinstance(n, ast.For) and any(
        isinstance(c, ast.Call) and token_kind(c) == "Indent" for c in ast.walk(n))]
    if line_loops and pushes and isinstance(pushes[0].args[0], ast.Name):
        lead = pushes[0].args[0].id
        psyms = {
            "LW": lambda n: isinstance(n, ast.Call) and call_name(n) == "len" and len(n.args) == 1
            and isinstance(n.args[0], ast.Name) and n.args[0].id == lead,
            "TOP": lambda n: isinstance(n, ast.Call) and call_name(n) == "len" and len(n.args) == 1
            and ast.unparse(n.args[0]) == "indent_stack[-1]",
        }
        for c in ast.walk(line_loops[0]):
            kind = token_kind(c) if isinstance(c, ast.Call) else None
            if kind not in ("Indent", "Dedent") or len(c.args) != 3:
                continue
            res.instances += 1
            loc = c.args[2]
            if not (isinstance(loc, ast.Call) and len(loc.args) == 2 and all(isinstance(a, ast.Tuple) and len(a.elts) == 2 for a in loc.args)):
                res.add(f"{TOK}|{f.name}|{kind}-loc", f"{kind} location is not SourceLocation((line, col), (line, col))", TOK, c.lineno, f.name)
                continue
            c1, c2 = linear(loc.args[0].elts[1], psyms), linear(loc.args[1].elts[1], psyms)
            want = ({"TOP": 1, 1: 1}, {"LW": 1, 1: 1}) if kind == "Indent" else ({"LW": 1, 1: 1}, {"LW": 1, 1: 1})
            if (c1, c2) != want:
                res.add(f"{TOK}|{f.name}|{kind}-columns", f"{kind} token is located at columns (`{ast.unparse(loc.args[0].elts[1])}`, "
                        f"`{ast.unparse(loc.args[1].elts[1])}`); "
                        + ("it must cover the added whitespace: len(indent_stack[-1]) + 1 .. len(leading whitespace) + 1"
                           if kind == "Indent" else
                           "a mid-file Dedent is zero-width at len(leading whitespace) + 1, where the new, shorter leading whitespace "
                           "ends: anywhere else the token list is out of source order for a partial dedent and enclosing nodes no "
                           "longer contain their children"), TOK, c.lineno, f.name)
    else:
        raise AnalysisError("tokenizer: the per-line loop that synthesizes Indent tokens was not found")
    # what counts as "leading whitespace": the prefix whose changes Indent/Dedent mirror must be made of exactly the
    # characters the token table skips as blanks (the symbol-less pattern, `\\s+`); a narrower strip (`lstrip(" \\t")`)
    # lets a form feed or U+00A0 at the start of a line be skipped as a gap without being indentation
    res.instances += 1
    lead_names = {ast.unparse(pu.args[0]) for pu in pushes if isinstance(pu.args[0], ast.Name)}
    lead_def = None
    for n in ast.walk(f.node):
        if isinstance(n, ast.Assign) and len(n.targets) == 1 and isinstance(n.targets[0], ast.Name) and n.targets[0].id in lead_names:
            lead_def = n
    if lead_def is None:
        raise AnalysisError("tokenizer: the definition of the leading-whitespace prefix pushed on indent_stack was not found")
    _, regs = G.tokenizer_tables(repo)
    skips = [re.compile(p) for p, sym, _ in regs if not sym]
    cands = [chr(i) for i in range(0x3100)] + ["\ufeff"]
    w_gap = {c for c in cands if any(rx.fullmatch(c) for rx in skips)}
    strips = [c for c in ast.walk(lead_def.value) if isinstance(c, ast.Call) and isinstance(c.func, ast.Attribute)
              and c.func.attr in ("lstrip", "strip")]
    matches = [c for c in ast.walk(lead_def.value) if isinstance(c, ast.Call) and call_name(c) in ("re.match", "re.compile")
               and c.args and isinstance(c.args[0], ast.Constant) and isinstance(c.args[0].value, str)]
    w_lead = None
    if len(strips) == 1 and not matches:
        c = strips[0]
        if not c.args and not c.keywords:
            w_lead = {x for x in cands if x.isspace()}
        elif len(c.args) == 1 and isinstance(c.args[0], ast.Constant) and isinstance(c.args[0].value, str):
            w_lead = set(c.args[0].value)
        elif len(c.args) == 1 and isinstance(c.args[0], ast.Constant) and c.args[0].value is None:
            w_lead = {x for x in cands if x.isspace()}
    elif len(matches) == 1 and not strips:
        try:
            rx = re.compile(matches[0].args[0].value)
            w_lead = {x for x in cands if (mm := rx.match(x)) and mm.group(0) == x}
        except re.error:
            w_lead = None
    if w_lead is None:
        raise AnalysisError(f"tokenizer: `{ast.unparse(lead_def)[:90]}` is not a recognised way to take the leading whitespace")
    if w_lead != w_gap:
        only_gap = sorted(w_gap - w_lead)
        only_lead = sorted(w_lead - w_gap)
        res.add(f"{TOK}|{f.name}|leading-charset", f"`{ast.unparse(lead_def)[:100]}`: the indentation prefix is made of "
                f"{len(w_lead)} characters, the gap pattern skips {len(w_gap)}: "
                + (f"{[hex(ord(c)) for c in only_gap[:6]]} at the start of a line are skipped as blanks but are not indentation "
                   "(Indent/Dedent no longer mirror the leading whitespace)" if only_gap else
                   f"{[hex(ord(c)) for c in only_lead[:6]]} are indentation but no token pattern skips them"),
                TOK, lead_def.lineno, f.name)
    res.samples = [f"{f.fq}: {total}"]
    res.analysed = [TOK]
    return res


# ---------------------------------------------------------------------------------------------------------
LANGREF = "doc/language-reference.md"
_NAME_CLASSES = {"CamelCase": "CamelWord", "snake_case": "SnakeWord", "SHOUTY_CASE": "ShoutyWord"}


def nameregex(repo):
    """R-NAMEREGEX (C10): the language reference states a regular expression for each of the three name classes
    (type names, field/module names, enum value names).  The tokenizer's pattern for the corresponding symbol must
    denote the same language.  Equal text is accepted at once; otherwise the two expressions are compared on every
    string up to length 6 over one representative of each character class they distinguish ({A, Z, a, z, 0, 9, _}),
    which decides equality for patterns built from those classes with bounded look-behind of this size (the three
    documented ones need length 3).  doc/grammar.md is generated from the tokenizer and cannot serve as the oracle."""
    res = RuleResult("R-NAMEREGEX")
    lits, regs = G.tokenizer_tables(repo)
    by_symbol = {}
    for p, s, _ in regs:
        by_symbol.setdefault(s, []).append(p)
    text = repo.read(LANGREF)
    m = re.search(r"^### Names\s*$(.*?)^### ", text, re.S | re.M)
    if not m:
        raise AnalysisError("language-reference.md: section `### Names` not found")
    paras = re.split(r"\n\s*\n", m.group(1))
    documented = {}
    for para in paras:
        classes = [c for c in _NAME_CLASSES if f"`{c}`" in para]
        rx = [t for t in re.findall(r"`([^`]+)`", para.replace("\n", " ")) if "[" in t]
        if len(classes) == 1 and rx:
            documented[_NAME_CLASSES[classes[0]]] = rx[-1]
    if set(documented) != set(_NAME_CLASSES.values()):
        raise AnalysisError(f"language-reference.md: documented name regexes found only for {sorted(documented)}")
    import itertools
    alphabet = "AZaz09_"
    probes = ["".join(t) for n in range(0, 7) for t in itertools.product(alphabet, repeat=n)]
    for sym, doc_rx in sorted(documented.items()):
        res.instances += 1
        pats = by_symbol.get(sym, [])
        if len(pats) != 1:
            res.add(f"{TOK}|{sym}|count", f"the tokenizer has {len(pats)} patterns for {sym}; the language reference documents one", TOK)
            continue
        if pats[0] == doc_rx:
            res.samples.append(f"{sym}: {doc_rx}")
            continue
        try:
            a, b = re.compile(pats[0]), re.compile(doc_rx)
        except re.error as e:
            raise AnalysisError(f"{sym}: {e}")
        diff = next((s for s in probes if bool(a.fullmatch(s)) != bool(b.fullmatch(s))), None)
        if diff is not None:
            who = "accepts" if a.fullmatch(diff) else "rejects"
            res.add(f"{TOK}|{sym}|language", f"the tokenizer's {sym} pattern `{pats[0]}` {who} `{diff}`, the language reference's "
                    f"`{doc_rx}` does the opposite: names of that shape are classified differently from what is documented "
                    "(a documented enum value / type / field name becomes a BadWord, or the other way round)", TOK)
        else:
            res.samples.append(f"{sym}: `{pats[0]}` == `{doc_rx}` on all strings up to length 6")
    res.analysed = [TOK, LANGREF]
    return res


def numexamples(repo):
    """R-NUMEXAMPLES (C10): the language reference's section "Numeric Constant Formats" lists literals that are numbers and
    literals that are "Not allowed".  Each listed literal is tokenized with the checker's tokenizer over the pattern
    tables extracted from tokenizer.py: the allowed ones must come out as exactly one `Number` token, the others must
    not.  (doc/grammar.md is generated from the tokenizer and cannot serve as the oracle.)"""
    from .. import toksim
    res = RuleResult("R-NUMEXAMPLES")
    text = repo.read(LANGREF)
    m = re.search(r"^### Numeric Constant Formats\s*$(.*?)(?=^##|\Z)", text, re.S | re.M)
    if not m:
        raise AnalysisError("language-reference.md: section `### Numeric Constant Formats` not found")
    lits, regs = G.tokenizer_tables(repo)
    examples = []
    for block in re.findall(r"```\n(.*?)```", m.group(1), re.S):
        for line in block.splitlines():
            tok = line.split("#", 1)[0].strip()
            if not tok or " " in tok:
                continue
            comment = line.split("#", 1)[1] if "#" in line else ""
            examples.append((tok, "not allowed" in comment.lower()))
    extra = re.findall(r"`?(0X[0-9A-Fa-f]+)`? is not allowed", m.group(1))
    examples += [(e, True) for e in extra]
    if len(examples) < 10 or sum(1 for _, bad in examples if bad) < 3:
        raise AnalysisError(f"language-reference.md: only {len(examples)} numeric examples found")
    for tok, forbidden in examples:
        res.instances += 1
        try:
            toks = [t for t in toksim.tokenize(tok, lits, regs) if t[0] != '"\\n"']
        except toksim.TokErr:
            toks = None
        is_number = toks is not None and len(toks) == 1 and toks[0][0] == "Number" and toks[0][1] == tok
        if is_number and forbidden:
            res.add(f"{TOK}|number|{tok}", f"`{tok}` is documented as not allowed (misplaced `_` separators or `0X`) but tokenizes as a "
                    "Number: a malformed literal is silently accepted with some value", TOK)
        elif not is_number and not forbidden:
            res.add(f"{TOK}|number|{tok}", f"`{tok}` is documented as a valid numeric constant but tokenizes as "
                    f"{[t[0] for t in toks] if toks else 'an error'}", TOK)
    res.samples = [f"{len(examples)} documented literals ({sum(1 for _, b in examples if b)} forbidden)"]
    res.analysed = [TOK, LANGREF]
    return res


def reservedprefix(repo):
    """R-RESERVEDPREFIX (C10/C12): names with the compiler's own prefixes (`emboss_reserved...`, `EmbossReserved...`,
    `EMBOSS_RESERVED...`) are classified BadWord so that no user name can collide with a synthesized one
    (`emboss_reserved_anonymous_field_1`, `emboss_reserved_local_*`).  For every BadWord pattern that begins with a
    literal prefix and every name-class pattern (SnakeWord, ShoutyWord, CamelWord): each string prefix+tail (tails up to
    length 4 over one representative per character class) that the name pattern matches in full is matched in full by
    the reserved pattern too -- the reserved pattern comes first in the table, so equal length means BadWord."""
    import itertools
    res = RuleResult("R-RESERVEDPREFIX")
    lits, regs = G.tokenizer_tables(repo)
    import re._parser as sp
    reserved = []
    for pat, sym, _ in regs:
        if sym != "BadWord":
            continue
        try:
            parsed = sp.parse(pat)
        except re.error as e:
            raise AnalysisError(f"tokenizer pattern {pat!r}: {e}")
        prefix = ""
        for op, arg in parsed:
            if str(op) == "LITERAL":
                prefix += chr(arg)
            else:
                break
        if len(prefix) >= 6:
            reserved.append((pat, prefix))
    if len(reserved) < 3:
        raise AnalysisError(f"tokenizer: reserved-prefix BadWord patterns found: {reserved}")
    names = [(pat, sym) for pat, sym, _ in regs if sym in _NAME_CLASSES.values()]
    if len(names) < 3:
        raise AnalysisError("tokenizer: name-class patterns not found")
    tails = ["".join(t) for n in range(0, 5) for t in itertools.product("AZaz09_", repeat=n)]
    order = [pat for pat, _, _ in regs]
    for rpat, prefix in reserved:
        rrx = re.compile(rpat)
        for npat, sym in names:
            res.instances += 1
            nrx = re.compile(npat)
            if order.index(rpat) > order.index(npat):
                res.add(f"{TOK}|{prefix}|{sym}|order", f"the reserved pattern `{rpat}` comes after the {sym} pattern: ties go to {sym}", TOK)
                continue
            bad = next((prefix + t for t in tails if nrx.fullmatch(prefix + t) and not rrx.fullmatch(prefix + t)), None)
            if bad is not None:
                res.add(f"{TOK}|{prefix}|{sym}", f"`{bad}` starts with the reserved prefix but the reserved pattern `{rpat}` does not match all "
                        f"of it, so the longer {sym} match wins and the word is an ordinary name: user definitions can collide with names the "
                        "compiler synthesizes", TOK)
    res.samples = [f"{p}: prefix {pre}" for p, pre in reserved]
    res.analysed = [TOK]
    return res
