"""C11 rules: R-FMTLINEAR (no formatter drops a child that can hold a non-blank token),
R-FMTGUARD (in-place write dominated by the formatter's self-check)."""
from __future__ import annotations

import ast

from .. import grammar as G
from ..pyfacts import Repo, call_name, func_params, walk_no_nested_funcs
from ..report import AnalysisError, RuleResult

BLANK_TERMINALS = {"Indent", "Dedent", '"\\n"'}

# Tabled drops: (formatter name, production lhs, rhs index) -> reason
DROP_EXCEPTIONS = {
    ("_doc_line", "doc-line", 1): "Comment? after a Documentation token is unreachable: the Documentation regex "
                                  "`-- .*` consumes the rest of the line (the formatter asserts it is empty)",
}


def nonblank_symbols(productions):
    lhs = {l for l, _ in productions}
    nonblank = set()
    for _, rhs in productions:
        for s in rhs:
            if s not in lhs and s not in BLANK_TERMINALS:
                nonblank.add(s)
    changed = True
    while changed:
        changed = False
        for l, rhs in productions:
            if l not in nonblank and any(s in nonblank for s in rhs):
                nonblank.add(l)
                changed = True
    return nonblank


def returned_names(fnode):
    """Names whose value flows into a returned value (def-use closure through locals)."""
    used = set()
    for n in walk_no_nested_funcs(fnode):
        if isinstance(n, ast.Return) and n.value is not None:
            used |= {x.id for x in ast.walk(n.value) if isinstance(x, ast.Name)}
    changed = True
    while changed:
        changed = False
        for n in walk_no_nested_funcs(fnode):
            add = set()
            if isinstance(n, ast.Assign):
                tg = {x.id for t in n.targets for x in ast.walk(t) if isinstance(x, ast.Name)}
                if tg & used:
                    add = {x.id for x in ast.walk(n.value) if isinstance(x, ast.Name)}
            elif isinstance(n, ast.AugAssign):
                tg = {x.id for x in ast.walk(n.target) if isinstance(x, ast.Name)}
                if tg & used:
                    add = {x.id for x in ast.walk(n.value) if isinstance(x, ast.Name)}
            elif isinstance(n, ast.Expr) and isinstance(n.value, ast.Call) and isinstance(n.value.func, ast.Attribute) \
                    and n.value.func.attr in ("append", "extend", "insert", "update", "add"):
                base = {x.id for x in ast.walk(n.value.func.value) if isinstance(x, ast.Name)}
                if base & used:
                    add = {x.id for a in n.value.args for x in ast.walk(a) if isinstance(x, ast.Name)}
            elif isinstance(n, (ast.For, ast.comprehension)):
                tg = {x.id for x in ast.walk(n.target) if isinstance(x, ast.Name)}
                if tg & used:
                    add = {x.id for x in ast.walk(n.iter) if isinstance(x, ast.Name)}
            if add - used:
                used |= add
                changed = True
    return used


def fmtlinear(repo):
    res = RuleResult("R-FMTLINEAR")
    g = G.ir_grammar(repo)
    nonblank = nonblank_symbols(g["productions"])
    fm = G.fmt_grammar(repo)
    drops = []
    for prod, f, dec, dnode in fm.entries:
        pos, with_def, kwonly, vararg, varkw = func_params(f.node)
        lhs, rhs = prod
        if f.node.args.vararg is not None:
            # *elements helpers must use all elements, in order
            v = f.node.args.vararg.arg
            res.instances += 1
            used = returned_names(f.node)
            bad = None
            if v not in used:
                bad = f"*{v} does not flow into the result"
            for n in walk_no_nested_funcs(f.node):
                if isinstance(n, ast.Subscript) and isinstance(n.value, ast.Name) and n.value.id == v:
                    bad = f"*{v} is indexed/sliced (`{ast.unparse(n)}`): not every child reaches the output"
                if isinstance(n, ast.Call) and call_name(n) in ("reversed", "sorted") and n.args and \
                        isinstance(n.args[0], ast.Name) and n.args[0].id == v:
                    bad = f"*{v} is reordered"
            if bad:
                res.add(f"{G.FORMAT_EMB}|{f.name}|varargs", f"formatter {f.name} (used for '{lhs} -> {' '.join(rhs)}'): {bad}",
                        G.FORMAT_EMB, f.line, f.name)
            # fixed leading params before *args (e.g. joiner) are not children
            continue
        used = returned_names(f.node)
        for i, sym in enumerate(rhs):
            if i >= len(pos):
                break
            res.instances += 1
            p = pos[i]
            if p in used:
                continue
            if sym not in nonblank:
                drops.append((f.name, lhs, i, sym, "blank"))
                continue
            if (f.name, lhs, i) in DROP_EXCEPTIONS:
                drops.append((f.name, lhs, i, sym, "tabled"))
                res.notes.append(f"{f.name}: drops {sym} of '{lhs}': {DROP_EXCEPTIONS[(f.name, lhs, i)]}")
                continue
            res.add(f"{G.FORMAT_EMB}|{f.name}|{lhs}|{i}|{sym}",
                    f"formatter {f.name} for '{lhs} -> {' '.join(rhs)}' never uses parameter `{p}` (child #{i}, {sym}) in its "
                    "result: the tokens under that child vanish from the formatted file", G.FORMAT_EMB, f.line, f.name)
    res.detail = {"formatters": len(fm.entries), "blank_drops": sum(1 for d in drops if d[4] == "blank"),
                  "tabled_drops": sum(1 for d in drops if d[4] == "tabled"), "nonblank_symbols": len(nonblank)}
    res.samples = [f"{d[0]} drops {d[3]} of {d[1]} ({d[4]})" for d in drops[:3]]
    res.analysed = [G.FORMAT_EMB, G.MODULE_IR]
    return res


def fmtguard(repo):
    res = RuleResult("R-FMTGUARD")
    m = repo.mod("compiler/front_end/format.py")
    target = None
    for f in m.top_funcs():
        for n in walk_no_nested_funcs(f.node):
            if isinstance(n, ast.Assign) and isinstance(n.value, ast.Call) and (call_name(n.value) or "").endswith("format_emboss_parse_tree"):
                target = (f, n)
    if target is None:
        raise AnalysisError("format.py: the call to format_emboss_parse_tree was not found")
    f, assign = target
    var = assign.targets[0].id
    body = None
    for n in walk_no_nested_funcs(f.node):
        if isinstance(n, ast.For) and assign in n.body:
            body = n.body
    if body is None:
        raise AnalysisError("format.py: formatting is not done in the per-file loop body")
    idx = body.index(assign)
    check_if = None
    for st in body[idx + 1:]:
        if isinstance(st, ast.If) and "check_result" in ast.unparse(st.test):
            check_if = st
            break
    res.instances = 4
    if check_if is None:
        res.add(f"{m.rel}|{f.name}|check", "the formatted text is no longer passed through the self-check under "
                "--check-result before it is written", m.rel, assign.lineno, f.name)
        return res
    # inside: errors = sanity_check_format_result(formatted_text, source_code); if errors: ... continue
    call = None
    for st in check_if.body:
        if isinstance(st, ast.Assign) and isinstance(st.value, ast.Call) and (call_name(st.value) or "").endswith("sanity_check_format_result"):
            call = st
    if call is None:
        res.add(f"{m.rel}|{f.name}|sanity", "sanity_check_format_result is not called in the check branch", m.rel, check_if.lineno, f.name)
        return res
    args = [ast.unparse(a) for a in call.value.args]
    if len(args) != 2 or args[0] != var:
        res.add(f"{m.rel}|{f.name}|sanity-args", f"sanity_check_format_result is called with {args}; the first argument must be "
                f"the formatted text `{var}` and the second the original source", m.rel, call.lineno, f.name)
    evar = call.targets[0].id if isinstance(call.targets[0], ast.Name) else None
    after = check_if.body[check_if.body.index(call) + 1:]
    ok = False
    for st in after:
        if isinstance(st, ast.If) and isinstance(st.test, ast.Name) and st.test.id == evar and st.body \
                and isinstance(st.body[-1], (ast.Continue, ast.Return, ast.Raise)):
            ok = True
    if not ok:
        res.add(f"{m.rel}|{f.name}|abort", "a failed self-check does not skip writing the file", m.rel, call.lineno, f.name)
    # every write of the formatted text comes after the check in the same body
    cidx = body.index(check_if)
    for i, st in enumerate(body):
        for n in ast.walk(st):
            if isinstance(n, ast.Call) and isinstance(n.func, ast.Attribute) and n.func.attr == "write" and \
                    any(isinstance(a, ast.Name) and a.id == var for a in n.args):
                res.instances += 1
                if i <= cidx:
                    res.add(f"{m.rel}|{f.name}|write-before-check", f"`{ast.unparse(n)}` happens before the self-check",
                            m.rel, n.lineno, f.name)
    # the self-check condition must not be weakened by extra conjuncts other than the debug flag
    cond = ast.unparse(check_if.test)
    if cond.replace(" ", "") not in ("flags.check_resultandnotflags.debug_show_line_types", "flags.check_result"):
        res.notes.append(f"self-check condition is `{cond}`")
    res.samples = [f"{f.fq}: {var} -> sanity_check_format_result -> write"]
    res.analysed = [m.rel]
    return res


def sanity_check_shape(repo):
    """The self-check compares symbol and stripped text of every token pair and both lengths."""
    res = RuleResult("R-FMTSELFCHECK")
    m = repo.mod(G.FORMAT_EMB)
    f = m.funcs.get("sanity_check_format_result")
    if f is None:
        raise AnalysisError("format_emb.sanity_check_format_result vanished")
    src = m.seg(f.node)
    res.instances = 3
    if ".symbol !=" not in src or ".text.strip() !=" not in src:
        res.add(f"{m.rel}|{f.name}|compare", "the self-check no longer compares both symbol and stripped text of tokens", m.rel, f.line, f.name)
    loops = [n for n in walk_no_nested_funcs(f.node) if isinstance(n, ast.For)]
    if not loops:
        res.add(f"{m.rel}|{f.name}|loop", "the self-check no longer iterates over the tokens", m.rel, f.line, f.name)
    res.samples = ["sanity_check_format_result compares symbol and text.strip() per token"]
    res.analysed = [m.rel]
    return res


def control(repo):
    """Drop one argument of a format string in an overlay: R-FMTLINEAR must fire."""
    from ..pyfacts import replace_span
    m = repo.mod(G.FORMAT_EMB)
    f = m.funcs.get("_attribute_line")
    if f is None:
        for g in m.top_funcs():
            if len(g.node.args.args) >= 3 and not g.node.args.vararg and g.node.decorator_list:
                f = g
                break
    # rename the second parameter so that it no longer flows into the result
    a = f.node.args.args[1]
    new = replace_span(repo.read(G.FORMAT_EMB), a, "verif_unused_param")
    r2 = Repo(repo.root, overlay={G.FORMAT_EMB: new})
    return bool(fmtlinear(r2).findings)


# ---------------------------------------------------------------------------------------------------------
# R-FMTORDER: a formatter emits its children in the order of the production's right-hand side
def _content_sequence(node, fnode, params, depth=0, seen=()):
    """Parameter names in the order in which their text is placed into `node` (source order of the expression;
    locals assigned once are expanded in place; conditions of `x if c else y` carry no text)."""
    out = []

    class V(ast.NodeVisitor):
        def visit_Name(self, n):
            if n.id in params:
                out.append(n.id)
            elif n.id not in seen and depth < 6:
                defs = [x for x in walk_no_nested_funcs(fnode) if isinstance(x, ast.Assign)
                        and any(isinstance(t, ast.Name) and t.id == n.id for t in x.targets)]
                if len(defs) == 1:
                    out.extend(_content_sequence(defs[0].value, fnode, params, depth + 1, seen + (n.id,)))

        def visit_IfExp(self, n):
            self.visit(n.body)
            self.visit(n.orelse)

        def visit_Call(self, n):
            self.visit(n.func)
            for a in sorted(list(n.args) + [k.value for k in n.keywords], key=lambda x: (x.lineno, x.col_offset)):
                self.visit(a)

    V().visit(node)
    return out


def fmtorder(repo):
    """The formatter may change whitespace only, so the tokens under the children of a production must reach the
    output in the production's order.  Children are the positional parameters, in right-hand-side order; the
    text of every returned value must mention them in non-decreasing position (children that can only hold
    Indent/Dedent/newline are ignored)."""
    res = RuleResult("R-FMTORDER")
    g = G.ir_grammar(repo)
    nonblank = nonblank_symbols(g["productions"])
    fm = G.fmt_grammar(repo)
    done = set()
    for prod, f, dec, dnode in fm.entries:
        if f.node.args.vararg is not None:
            continue  # *elements helpers: order is checked by R-FMTLINEAR (no indexing, no reversed/sorted)
        lhs, rhs = prod
        pos = [a.arg for a in f.node.args.args]
        for n in walk_no_nested_funcs(f.node):
            if not (isinstance(n, ast.Return) and n.value is not None):
                continue
            res.instances += 1
            s = _content_sequence(n.value, f.node, pos)
            idx = [(pos.index(x), x) for x in s if pos.index(x) < len(rhs) and rhs[pos.index(x)] in nonblank]
            for (a, an), (b, bn) in zip(idx, idx[1:]):
                if a > b and (f.name, an, bn) not in done:
                    done.add((f.name, an, bn))
                    res.add(f"{G.FORMAT_EMB}|{f.name}|{lhs}|{an}>{bn}", f"formatter {f.name} for '{lhs} -> {' '.join(rhs)}' places "
                            f"`{an}` (child #{a}, {rhs[a]}) before `{bn}` (child #{b}, {rhs[b]}): the tokens of the formatted file "
                            "are no longer in the order of the source (a Documentation or Comment token runs to the end of "
                            "the line and swallows whatever is moved behind it)", G.FORMAT_EMB, n.lineno, f.name)
    res.samples = [f"{len(fm.entries)} formatter registrations, every return keeps children in right-hand-side order"]
    res.analysed = [G.FORMAT_EMB, G.MODULE_IR]
    return res


# ---------------------------------------------------------------------------------------------------------
# R-FMTINDENT: what stands between Indent and Dedent in the source is emitted one level deeper
def _indenters(m):
    """Functions of format_emb that return their argument one indentation level deeper: the one that builds a row
    with `indent=<row>.indent + 1`, and every function that applies an indenter to (parts of) its argument."""
    found = set()
    for f in m.top_funcs():
        for n in walk_no_nested_funcs(f.node):
            if isinstance(n, ast.keyword) and n.arg == "indent" and isinstance(n.value, ast.BinOp) and isinstance(n.value.op, ast.Add) \
                    and ast.unparse(n.value.right) == "1" and ast.unparse(n.value.left).endswith(".indent"):
                found.add(f.name)
    changed = True
    while changed:
        changed = False
        for f in m.top_funcs():
            if f.name in found or len(f.node.args.args) != 1:
                continue
            for n in walk_no_nested_funcs(f.node):
                if isinstance(n, ast.Call) and any(isinstance(x, ast.Name) and x.id in found for x in ast.walk(n.func)) or \
                        (isinstance(n, ast.Call) and call_name(n) == "map" and n.args and isinstance(n.args[0], ast.Name) and n.args[0].id in found):
                    if isinstance(n, ast.Call) and (call_name(n) in found or call_name(n) == "map"):
                        found.add(f.name)
                        changed = True
                        break
    return found


def fmtindent(repo):
    res = RuleResult("R-FMTINDENT")
    g = G.ir_grammar(repo)
    nonblank = nonblank_symbols(g["productions"])
    fm = G.fmt_grammar(repo)
    m = repo.mod(G.FORMAT_EMB)
    ind = _indenters(m)
    if len(ind) < 2:
        raise AnalysisError(f"format_emb: indenting helpers not recognised ({sorted(ind)})")
    done = set()

    def occurrences(node, fnode, params, inside, depth=0, seen=()):
        """[(param, inside an indenter?)] for content-carrying occurrences in `node`."""
        out = []
        if isinstance(node, ast.IfExp):
            return occurrences(node.body, fnode, params, inside, depth, seen) + occurrences(node.orelse, fnode, params, inside, depth, seen)
        if isinstance(node, ast.Call):
            cn = call_name(node) or ""
            now = inside or cn in ind
            for a in list(node.args) + [k.value for k in node.keywords]:
                out += occurrences(a, fnode, params, now, depth, seen)
            return out
        if isinstance(node, ast.Name):
            if node.id in params:
                return [(node.id, inside)]
            if node.id not in seen and depth < 6:
                defs = [x for x in walk_no_nested_funcs(fnode) if isinstance(x, ast.Assign)
                        and any(isinstance(t, ast.Name) and t.id == node.id for t in x.targets)]
                if len(defs) == 1:
                    return occurrences(defs[0].value, fnode, params, inside, depth + 1, seen + (node.id,))
            return []
        for ch in ast.iter_child_nodes(node):
            out += occurrences(ch, fnode, params, inside, depth, seen)
        return out

    for prod, f, dec, dnode in fm.entries:
        lhs, rhs = prod
        if "Indent" not in rhs or "Dedent" not in rhs or f.node.args.vararg is not None:
            continue
        i, j = rhs.index("Indent"), len(rhs) - 1 - rhs[::-1].index("Dedent")
        pos = [a.arg for a in f.node.args.args]
        inner = {pos[k]: rhs[k] for k in range(i + 1, j) if k < len(pos) and rhs[k] in nonblank}
        for n in walk_no_nested_funcs(f.node):
            if not (isinstance(n, ast.Return) and n.value is not None):
                continue
            for p, inside in occurrences(n.value, f.node, set(inner), False):
                if (f.name, p) in done:
                    continue
                done.add((f.name, p))
                res.instances += 1
                if not inside:
                    res.add(f"{G.FORMAT_EMB}|{f.name}|{lhs}|{p}", f"formatter {f.name} for '{lhs} -> {' '.join(rhs)}' emits `{p}` "
                            f"({inner[p]}), which stands between Indent and Dedent in the source, without one of the indenting helpers "
                            f"{sorted(ind)}: those lines come out at the indentation of the enclosing block, the Indent token moves "
                            "behind them and the file no longer parses to the same tokens", G.FORMAT_EMB, n.lineno, f.name)
    res.samples = [f"indenters: {sorted(ind)}"]
    res.analysed = [G.FORMAT_EMB, G.MODULE_IR]
    return res


# ---------------------------------------------------------------------------------------------------------
def fmtwidth(repo):
    """R-FMTWIDTH (C11): column widths are computed from the token texts the per-production formatters receive.  A token
    class whose pattern runs to the end of the line (`... .*`) can end in blanks, which are removed when the row is
    rendered; if they are still present when widths are measured, a second pass measures something narrower and the
    layout moves (formatting is not idempotent).  The function that hands token text to the formatters must strip
    those classes."""
    import re._parser as sre
    res = RuleResult("R-FMTWIDTH")
    lits, regs = G.tokenizer_tables(repo)
    eol_classes = set()
    for pat, sym, _ in regs:
        if not sym:
            continue
        try:
            parsed = list(sre.parse(pat))
        except Exception:
            continue
        if parsed:
            op, av = parsed[-1]
            if str(op) in ("MAX_REPEAT", "MIN_REPEAT") and av[1] > 1000 and any(str(o) == "ANY" for o, _ in av[2]):
                eol_classes.add(sym)
    g = G.ir_grammar(repo)
    lhs = {l for l, _ in g["productions"]}
    terminals = {s_ for _, rhs in g["productions"] for s_ in rhs if s_ not in lhs}
    eol_classes &= terminals  # classes that cannot occur in a parse tree (BadDocumentation) never reach the formatter
    if len(eol_classes) < 2:
        raise AnalysisError(f"tokenizer: token classes that run to the end of the line: {sorted(eol_classes)}")
    m = repo.mod(G.FORMAT_EMB)
    call = None
    for f in m.top_funcs():
        for n in walk_no_nested_funcs(f.node):
            if isinstance(n, ast.Call) and (call_name(n) or "").endswith("transform_parse_tree") and len(n.args) >= 2:
                call = (f, n)
    if call is None:
        raise AnalysisError("format_emb: transform_parse_tree call not found")
    f, n = call
    tf = n.args[1]
    res.instances += 1
    stripped = set()
    partial = []
    body = None
    if isinstance(tf, ast.Lambda):
        body = tf.body
        nodes = [tf.body]
    elif isinstance(tf, ast.Name):
        inner = [x for x in ast.walk(f.node) if isinstance(x, ast.FunctionDef) and x.name == tf.id]
        nodes = inner
    else:
        nodes = []
    for root in nodes:
        for x in ast.walk(root):
            if isinstance(x, ast.Call) and isinstance(x.func, ast.Attribute) and x.func.attr in ("rstrip", "strip") \
                    and ast.unparse(x.func.value).endswith(".text"):
                # the renderer strips *all* trailing whitespace from a line (str.rstrip()); a strip limited to some characters
                # (`rstrip(" ")`) leaves tabs etc. in the measured width
                if x.args and not (isinstance(x.args[0], ast.Constant) and x.args[0].value is None):
                    partial.append(ast.unparse(x))
                    continue
                # which classes does it apply to?  an enclosing `if <tok>.symbol in (...)` or unconditional
                cond = None
                for y in ast.walk(root):
                    if isinstance(y, ast.If) and any(x is z for z in ast.walk(y)):
                        cond = y.test
                if cond is None:
                    stripped |= eol_classes
                else:
                    stripped |= {c.value for c in ast.walk(cond) if isinstance(c, ast.Constant) and isinstance(c.value, str)}
    missing = sorted(eol_classes - stripped)
    if partial:
        res.add(f"{G.FORMAT_EMB}|{f.name}|token-text|partial-strip", f"{f.name} strips only some characters from the token text "
                f"(`{partial[0]}`) while the renderer removes all trailing whitespace from a line: a doc that ends in a tab is "
                "measured wider than it is rendered, and the second formatting pass moves the neighbouring comments",
                G.FORMAT_EMB, n.lineno, f.name)
    elif missing:
        res.add(f"{G.FORMAT_EMB}|{f.name}|token-text|{','.join(missing)}", f"{f.name} hands the text of {missing} tokens to the formatters with "
                "their trailing blanks: widths of the doc/comment columns are measured with blanks that are later removed, so "
                "formatting the output again moves the neighbouring rows' comments (not idempotent)", G.FORMAT_EMB, n.lineno, f.name)
    res.samples = [f"end-of-line token classes {sorted(eol_classes)} are stripped before formatting"]
    res.analysed = [G.FORMAT_EMB, G.TOKENIZER]
    return res


# ---------------------------------------------------------------------------------------------------------
def fmtblank(repo):
    """R-FMTBLANK (C11): the formatter may drop rows that carry no token (blank lines are not tokens).  Whether a row is
    blank has to be decided from its columns being empty or whitespace; a test that first strips *other* characters from
    the row's text (`.strip("# ")`, `.replace("#", "")`) calls a row blank although it holds a Comment token, and the
    token disappears from the formatted file."""
    res = RuleResult("R-FMTBLANK")
    m = repo.mod(G.FORMAT_EMB)
    for f in m.top_funcs():
        for n in walk_no_nested_funcs(f.node):
            if not (isinstance(n, ast.Call) and isinstance(n.func, ast.Attribute)):
                continue
            if ".columns" not in ast.unparse(n.func.value) and "columns" not in ast.unparse(n.func.value):
                continue
            if n.func.attr in ("strip", "lstrip", "rstrip"):
                res.instances += 1
                if n.args and isinstance(n.args[0], ast.Constant) and isinstance(n.args[0].value, str) and n.args[0].value.strip():
                    res.add(f"{G.FORMAT_EMB}|{f.name}|strip", f"{f.name} strips {n.args[0].value!r} from a row's text (`{ast.unparse(n)[:80]}`): "
                            "characters of tokens are treated as blank space, so a row holding only such a token (a bare `#` comment) "
                            "counts as empty and is dropped", G.FORMAT_EMB, n.lineno, f.name)
            elif n.func.attr == "replace" and len(n.args) == 2 and isinstance(n.args[0], ast.Constant) and isinstance(n.args[1], ast.Constant) \
                    and n.args[1].value == "" and str(n.args[0].value).strip():
                res.instances += 1
                res.add(f"{G.FORMAT_EMB}|{f.name}|replace", f"{f.name} deletes {n.args[0].value!r} from a row's text", G.FORMAT_EMB, n.lineno, f.name)
    # rows are tested for emptiness somewhere: count those tests so the rule is not vacuous
    tests = 0
    for f in m.top_funcs():
        for n in walk_no_nested_funcs(f.node):
            t = getattr(n, "test", None)
            if t is not None and "columns" in ast.unparse(t):
                tests += 1
    res.instances += tests
    if tests < 2:
        raise AnalysisError("format_emb: no emptiness tests on row columns found")
    res.samples = [f"{tests} tests on row columns; none strips token characters"]
    res.analysed = [G.FORMAT_EMB]
    return res


def fmtparts(repo):
    """R-FMTPARTS (C11): a formatted block has three parts -- prefix rows (comments before it), a header row and body rows
    (documentation, attributes, inline type bodies).  Wherever format_emb.py rebuilds a `_Block` from another block's
    parts and indents one of them (`_indent_row(s)(old.part)`), it indents all of them: a body left at its header's
    indentation loses the Indent token in front of it, the formatted text no longer parses (or parses differently) and
    emboss-format refuses the file.  Only fields nested in an `if` or an anonymous `bits:` with doc/attribute lines or an
    inline type under them are affected, which no golden file contains."""
    res = RuleResult("R-FMTPARTS")
    m = repo.mod("compiler/front_end/format_emb.py")
    n_blocks = 0
    for f in m.funcs.values():
        for c in walk_no_nested_funcs(f.node):
            if not (isinstance(c, ast.Call) and (call_name(c) or "").split(".")[-1] == "_Block" and c.keywords):
                continue
            parts = {}
            for k in c.keywords:
                srcs = [x for x in ast.walk(k.value) if isinstance(x, ast.Attribute) and x.attr in ("prefix", "header", "body")
                        and isinstance(x.value, ast.Name)]
                if not srcs:
                    continue
                indented = any(isinstance(x, ast.Call) and (call_name(x) or "").startswith("_indent") for x in ast.walk(k.value))
                parts[k.arg] = (indented, srcs[0].value.id, ast.unparse(k.value))
            if len(parts) < 2:
                continue
            n_blocks += 1
            res.instances += 1
            if any(v[0] for v in parts.values()) and not all(v[0] for v in parts.values()):
                plain = sorted(k for k, v in parts.items() if not v[0])
                res.add(f"{m.rel}|{f.qualname}|{','.join(plain)}", f"{f.qualname} rebuilds a block with {sorted(k for k, v in parts.items() if v[0])} indented but "
                        f"`{plain[0]}={parts[plain[0]][2]}` left as it was: rows under a nested field's header (docs, attributes, inline type "
                        "bodies) come out at the header's own indentation and the formatted text does not parse back", m.rel, c.lineno, f.qualname)
    if n_blocks < 1:
        raise AnalysisError("format_emb: no _Block rebuilt from another block's parts")
    res.analysed = [m.rel]
    return res
