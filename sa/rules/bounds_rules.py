"""C05 rules: R-BOUNDDIR / R-OPERANDS — bound-direction typing of expression_bounds transfer
functions by a small abstract interpretation; R-CONSTFOLD — constant folders agree with operator meaning."""
from __future__ import annotations

import ast
import re

from ..irschema import Schema
from ..pyfacts import Func, Repo, call_name, dotted_name, walk_no_nested_funcs
from ..report import AnalysisError, RuleResult
from . import dispatch as D

EB = "compiler/front_end/expression_bounds.py"
FM = D.FM

# how many leading operands are *value* operands of each operator (others, e.g. the condition of ?:, are not)
VALUE_OPERANDS = {
    "ADDITION": {0, 1}, "SUBTRACTION": {0, 1}, "MULTIPLICATION": {0, 1},
    "CHOICE": {1, 2}, "MAXIMUM": {"*"},
}


class Interp:
    """Symbolic evaluation of one transfer function for one operator."""

    def __init__(self, repo, f: Func, op: str):
        self.repo, self.f, self.op = repo, f, op
        self.env = {}
        params = [a.arg for a in f.node.args.args]
        if params:
            self.env[params[0]] = ("expr",)
        self.stores = []  # (attr, value, line)

    # ---- expressions
    def ev(self, e):
        if isinstance(e, ast.Name):
            v = self.env.get(e.id)
            if v is not None:
                return v
            r = self.repo.resolve(self.f.module, e, self.f)
            if isinstance(r, Func):
                return ("fn", r.name)
            return ("top", e.id)
        if isinstance(e, ast.Constant):
            return ("const", e.value)
        if isinstance(e, (ast.List, ast.Tuple)):
            return ("list", [self.ev(x) for x in e.elts])
        if isinstance(e, ast.Dict):
            d = {}
            for k, v in zip(e.keys, e.values):
                dn = dotted_name(k) or ""
                if dn.startswith(FM):
                    d[dn[len(FM):]] = self.ev(v)
            return ("dict", d)
        if isinstance(e, ast.Attribute):
            base = self.ev(e.value)
            a = e.attr
            if base[0] == "expr":
                if a == "function":
                    return ("exprfn",)
                if a == "type":
                    return ("exprtype",)
            if base[0] == "exprfn":
                if a == "args":
                    return ("args",)
                if a == "function":
                    return ("op",)
            if base[0] == "arg":
                if a == "type":
                    return ("argtype", base[1])
            if base[0] == "argtype" and a == "integer":
                return ("intof", base[1])
            if base[0] == "intof":
                m = {"minimum_value": "lo", "maximum_value": "hi", "modulus": "mod", "modular_value": "mv"}.get(a)
                if m:
                    return (m, base[1])
            return ("top", ast.unparse(e))
        if isinstance(e, ast.Subscript):
            base = self.ev(e.value)
            idx = e.slice
            if base[0] == "args":
                if isinstance(idx, ast.Constant) and isinstance(idx.value, int):
                    return ("arg", idx.value)
                if isinstance(idx, ast.Slice):
                    return ("args-slice",)
            if base[0] == "list" and isinstance(idx, ast.Constant) and isinstance(idx.value, int) and idx.value < len(base[1]):
                return base[1][idx.value]
            if base[0] == "each" and isinstance(idx, ast.Constant) and isinstance(idx.value, int):
                return self._instantiate(base[1], idx.value)
            if base[0] == "dict":
                k = self.ev(idx)
                if k[0] == "op" and self.op in base[1]:
                    return base[1][self.op]
            return ("top", ast.unparse(e))
        if isinstance(e, ast.ListComp) and len(e.generators) == 1 and isinstance(e.generators[0].target, ast.Name):
            it = self.ev(e.generators[0].iter)
            if it[0] in ("args", "args-slice"):
                saved = self.env.get(e.generators[0].target.id)
                self.env[e.generators[0].target.id] = ("arg", "*")
                v = self.ev(e.elt)
                if saved is None:
                    self.env.pop(e.generators[0].target.id, None)
                else:
                    self.env[e.generators[0].target.id] = saved
                return ("each", v)
            return ("top", "listcomp")
        if isinstance(e, ast.Call):
            fn = self.ev(e.func) if not isinstance(e.func, ast.Attribute) else None
            cn = call_name(e) or ""
            args = [self.ev(a) for a in e.args]
            if cn in ("str", "int") and args:
                return args[0]
            if cn.endswith((".reader", ".builder")) and args:
                return args[0]
            if fn is not None and fn[0] == "fn":
                return ("call", fn[1], args)
            return ("top", cn)
        if isinstance(e, ast.IfExp):
            return ("top", "ifexp")
        return ("top", type(e).__name__)

    def _instantiate(self, v, i):
        if isinstance(v, tuple):
            return tuple(self._instantiate(x, i) for x in v)
        if isinstance(v, list):
            return [self._instantiate(x, i) for x in v]
        return i if v == "*" else v

    # ---- statements
    def run(self):
        self._body(self.f.node.body)
        return self.stores

    def _assign(self, target, value):
        if isinstance(target, ast.Name):
            self.env[target.id] = value
        elif isinstance(target, (ast.Tuple, ast.List)):
            if value[0] == "list" and len(value[1]) == len(target.elts):
                for t, v in zip(target.elts, value[1]):
                    self._assign(t, v)
            elif value[0] == "args":
                for i, t in enumerate(target.elts):
                    self._assign(t, ("arg", i))
            elif value[0] == "each":
                for i, t in enumerate(target.elts):
                    self._assign(t, self._instantiate(value[1], i))
            else:
                for t in target.elts:
                    self._assign(t, ("top", "unpack"))
        elif isinstance(target, ast.Attribute):
            base = self.ev(target.value)
            # expression.type.integer.<attr> = value
            if isinstance(target.value, ast.Attribute) and target.value.attr == "integer":
                inner = self.ev(target.value.value)
                if inner[0] == "exprtype" and target.attr in ("minimum_value", "maximum_value", "modulus", "modular_value"):
                    self.stores.append((target.attr, value, target.lineno))

    def _op_test(self, test):
        """True/False if the test decides on the operator, else None."""
        p = D.parse_test(test)
        if p is not None and p.kind == "fm" and p.pure:
            return self.op in p.members
        return None

    def _body(self, body):
        for st in body:
            if isinstance(st, ast.Assign):
                v = self.ev(st.value)
                for t in st.targets:
                    self._assign(t, v)
            elif isinstance(st, ast.If):
                d = self._op_test(st.test)
                if d is True:
                    if self._body(st.body):
                        return True
                elif d is False:
                    if self._body(st.orelse):
                        return True
                else:
                    # data-dependent branch: both sides contribute stores; a side that returns does not
                    # end the other
                    saved = dict(self.env)
                    self._body(st.body)
                    env_a = self.env
                    self.env = dict(saved)
                    self._body(st.orelse)
                    # merge: keep bindings that agree
                    self.env = {k: v for k, v in self.env.items() if env_a.get(k) == v} | \
                               {k: v for k, v in saved.items() if k not in self.env}
            elif isinstance(st, ast.For):
                self._body(st.body)
            elif isinstance(st, ast.Return):
                return True
        return False


def classify(v):
    """-> (direction in {'Lo','Hi','Top'}, operand set)"""
    if v[0] == "lo":
        return "Lo", {v[1]}
    if v[0] == "hi":
        return "Hi", {v[1]}
    if v[0] == "call":
        name, args = v[1], v[2]
        if name in ("_add", "_sub") and len(args) == 2:
            (da, oa), (db, ob) = classify(args[0]), classify(args[1])
            if name == "_add" and da == db and da in ("Lo", "Hi"):
                return da, oa | ob
            if name == "_sub" and {da, db} == {"Lo", "Hi"}:
                return da, oa | ob
            return "Top", oa | ob
        if name in ("_min", "_max") and len(args) == 1:
            want = "Lo" if name == "_min" else "Hi"
            a = args[0]
            if a[0] == "each":
                d, o = classify(a[1])
                # n-ary maximum: max of all lower bounds is a lower bound, max of all upper bounds an upper bound
                if name == "_max" and d in ("Lo", "Hi"):
                    return d, o
                return "Top", o
            if a[0] == "list":
                xs = a[1]
                prods = [x for x in xs if x[0] == "call" and x[1] == "_mul" and len(x[2]) == 2]
                if prods and len(prods) == len(xs):
                    combos = set()
                    ops = set()
                    for x in prods:
                        (da, oa), (db, ob) = classify(x[2][0]), classify(x[2][1])
                        if da not in ("Lo", "Hi") or db not in ("Lo", "Hi") or len(oa) != 1 or len(ob) != 1:
                            return "Top", ops
                        combos.add((next(iter(oa)), da, next(iter(ob)), db))
                        ops |= oa | ob
                    need = {(0, a_, 1, b_) for a_ in ("Lo", "Hi") for b_ in ("Lo", "Hi")}
                    norm = {c if c[0] == 0 else (c[2], c[3], c[0], c[1]) for c in combos}
                    if norm == need:
                        return want, ops
                    return "Top", ops
                ds = [classify(x) for x in xs]
                if ds and all(d == want for d, _ in ds):
                    return want, set().union(*[o for _, o in ds])
                return "Top", set().union(*[o for _, o in ds]) if ds else set()
    return "Top", set()


def operands_in(v):
    out = set()
    if isinstance(v, tuple):
        if v and v[0] in ("lo", "hi", "mod", "mv", "intof", "arg", "argtype") and len(v) > 1:
            out.add(v[1])
        for x in v[1:]:
            out |= operands_in(x)
    elif isinstance(v, list):
        for x in v:
            out |= operands_in(x)
    return out


def _operator_functions(repo, schema):
    """(operator member, transfer Func) pairs through the dispatcher's branches."""
    flow = D.FMFlow(repo, schema, [repo.mod(EB)]).run()
    disp = None
    for fq, f in flow.aware.items():
        if len(flow._dispatch_members(f)) >= 10 and f.file == EB:
            disp = f
    if disp is None:
        raise AnalysisError("expression_bounds: operator dispatcher not found")
    pairs = []
    for n in walk_no_nested_funcs(disp.node):
        if isinstance(n, ast.If):
            tests, bodies, orelse = D._chain_branches(n)
            for t, b in zip(tests, bodies):
                p = D.parse_test(t)
                if p is None or p.kind != "fm":
                    continue
                for st in b:
                    for c in ast.walk(st):
                        if isinstance(c, ast.Call):
                            r = repo.resolve(disp.module, c.func, disp)
                            if isinstance(r, Func):
                                for mname in sorted(p.members):
                                    pairs.append((mname, r))
            break
    return disp, pairs


def bounddir(repo, schema=None):
    res = RuleResult("R-BOUNDDIR")
    schema = schema or Schema(repo)
    disp, pairs = _operator_functions(repo, schema)
    checked = 0
    for op, f in pairs:
        if op not in VALUE_OPERANDS:
            continue
        stores = Interp(repo, f, op).run()
        mins = [s for s in stores if s[0] == "minimum_value"]
        maxs = [s for s in stores if s[0] == "maximum_value"]
        if not mins or not maxs:
            raise AnalysisError(f"{f.name}: no minimum/maximum assignment could be interpreted for {op}")
        for attr, want, group in (("minimum_value", "Lo", mins), ("maximum_value", "Hi", maxs)):
            for _, v, line in group:
                res.instances += 1
                checked += 1
                d, ops = classify(v)
                if d != want:
                    res.add(f"{EB}|{f.name}|{op}|{attr}",
                            f"{f.name} ({op}): `{attr}` is assigned a value that is not a sound "
                            f"{'lower' if want == 'Lo' else 'upper'} bound by the interval rules "
                            f"(typed {d}; min needs Lo+Lo / Lo-Hi / min of all four products / min of lows, max the dual)",
                            EB, line, f.name)
                    continue
                need = VALUE_OPERANDS[op]
                if need == {"*"}:
                    ok = ops == {"*"}
                else:
                    ok = ops == need
                if not ok:
                    res.add(f"{EB}|{f.name}|{op}|{attr}|operands",
                            f"{f.name} ({op}): `{attr}` is computed from operands {sorted(map(str, ops))}, it must use "
                            f"the bounds of every value operand {sorted(map(str, need))}", EB, line, f.name)
        if len(res.samples) < 3:
            res.samples.append({"operator": op, "function": f.name,
                                "min": str(mins[0][1])[:120], "max": str(maxs[0][1])[:120]})
        res.analysed.append(f"{EB}:{f.name}[{op}]")
    res.detail = {"dispatcher": disp.name, "operators": sorted({op for op, _ in pairs if op in VALUE_OPERANDS})}
    if checked < 10:
        raise AnalysisError(f"only {checked} bound assignments interpreted")
    return res


def operands(repo, schema=None):
    """R-OPERANDS: modulus / modular_value of each operator depend on both attributes of every value operand."""
    res = RuleResult("R-OPERANDS")
    schema = schema or Schema(repo)
    disp, pairs = _operator_functions(repo, schema)
    for op, f in pairs:
        if op not in VALUE_OPERANDS:
            continue
        # syntactic dependency: names of operand-derived locals flowing into modulus / modular_value stores
        src_attrs = {"modulus": set(), "modular_value": set()}
        m = f.module
        # collect, for each store to expression.type.integer.<attr>, all attribute names read in the closure
        from .fmt_rules import returned_names  # def-use closure helper
        for attr in ("modulus", "modular_value"):
            reads = set()
            names = set()
            for n in walk_no_nested_funcs(f.node):
                if isinstance(n, ast.Assign):
                    for t in n.targets:
                        if isinstance(t, ast.Attribute) and t.attr == attr and "type.integer" in ast.unparse(t):
                            names |= {x.id for x in ast.walk(n.value) if isinstance(x, ast.Name)}
                            reads |= {x.attr for x in ast.walk(n.value) if isinstance(x, ast.Attribute)}
            changed = True
            while changed:
                changed = False
                for n in walk_no_nested_funcs(f.node):
                    tg = set()
                    val = None
                    if isinstance(n, ast.Assign):
                        tg = {x.id for t in n.targets for x in ast.walk(t) if isinstance(x, ast.Name)}
                        val = n.value
                    elif isinstance(n, ast.AugAssign):
                        tg = {x.id for x in ast.walk(n.target) if isinstance(x, ast.Name)}
                        val = n.value
                    elif isinstance(n, ast.For):
                        tg = {x.id for x in ast.walk(n.target) if isinstance(x, ast.Name)}
                        val = n.iter
                    elif isinstance(n, ast.Expr) and isinstance(n.value, ast.Call) and isinstance(n.value.func, ast.Attribute) \
                            and n.value.func.attr == "append":
                        tg = {x.id for x in ast.walk(n.value.func.value) if isinstance(x, ast.Name)}
                        val = n.value
                    if val is not None and tg & names:
                        nn = {x.id for x in ast.walk(val) if isinstance(x, ast.Name)}
                        rr = {x.attr for x in ast.walk(val) if isinstance(x, ast.Attribute)}
                        if not nn <= names or not rr <= reads:
                            names |= nn
                            reads |= rr
                            changed = True
            src_attrs[attr] = reads
        res.instances += 2
        for attr in ("modulus", "modular_value"):
            need = {"modulus", "modular_value"} if attr == "modular_value" else {"modulus"}
            have = src_attrs[attr]
            # copy-through functions (CopyFrom of one side) have no explicit stores for constant cases
            if not have:
                res.notes.append(f"{f.name}[{op}]: no explicit `{attr}` store (copied with the whole type)")
                continue
            if not need <= have:
                res.add(f"{EB}|{f.name}|{op}|{attr}",
                        f"{f.name} ({op}): result `{attr}` does not depend on the operands' {sorted(need - have)}",
                        EB, f.line, f.name)
        res.analysed.append(f"{EB}:{f.name}[{op}]")
    res.samples = [f"{op}: {f.name}" for op, f in pairs[:3]]
    return res


# ---- R-CONSTFOLD: Python half of the operator chain -----------------------------------------
PY_OPS = {
    "ADDITION": "add", "SUBTRACTION": "sub", "MULTIPLICATION": "mul", "EQUALITY": "eq", "INEQUALITY": "ne",
    "LESS": "lt", "LESS_OR_EQUAL": "le", "GREATER": "gt", "GREATER_OR_EQUAL": "ge", "AND": "and_", "OR": "or_",
}
TOKEN_OPS = {
    "+": "ADDITION", "-": "SUBTRACTION", "*": "MULTIPLICATION", "==": "EQUALITY", "!=": "INEQUALITY",
    "&&": "AND", "||": "OR", "<": "LESS", "<=": "LESS_OR_EQUAL", ">": "GREATER", ">=": "GREATER_OR_EQUAL",
}
LAMBDA_OPS = {ast.Add: "add", ast.Sub: "sub", ast.Mult: "mul", ast.Eq: "eq", ast.NotEq: "ne", ast.Lt: "lt",
              ast.LtE: "le", ast.Gt: "gt", ast.GtE: "ge", ast.And: "and_", ast.Or: "or_", ast.BitAnd: "and_", ast.BitOr: "or_"}


def _fold_meaning(v):
    """operator.X / lambda a, b: a OP b -> canonical operator name."""
    dn = dotted_name(v) if isinstance(v, (ast.Attribute, ast.Name)) else None
    if dn and dn.startswith("operator."):
        return dn.split(".", 1)[1]
    if isinstance(v, ast.Lambda):
        b = v.body
        params = [a.arg for a in v.args.args]
        if isinstance(b, ast.BinOp) and len(params) == 2:
            if isinstance(b.left, ast.Name) and isinstance(b.right, ast.Name) and [b.left.id, b.right.id] == params:
                return LAMBDA_OPS.get(type(b.op))
            return "swapped:" + str(LAMBDA_OPS.get(type(b.op)))
        if isinstance(b, ast.Compare) and len(params) == 2 and len(b.ops) == 1:
            if isinstance(b.left, ast.Name) and isinstance(b.comparators[0], ast.Name) and \
                    [b.left.id, b.comparators[0].id] == params:
                return LAMBDA_OPS.get(type(b.ops[0]))
            return "swapped:" + str(LAMBDA_OPS.get(type(b.ops[0])))
        if isinstance(b, ast.Call) and call_name(b) == "max":
            return "max"
    return None


def constfold(repo):
    res = RuleResult("R-CONSTFOLD")
    # 1. source token -> operator (module_ir)
    mi = repo.mod("compiler/front_end/module_ir.py")
    tok = {}
    for f in mi.top_funcs():
        for n in walk_no_nested_funcs(f.node):
            if isinstance(n, ast.Dict) and n.keys and all(isinstance(k, ast.Constant) and isinstance(k.value, str) for k in n.keys) \
                    and all((dotted_name(v) or "").startswith(FM) for v in n.values):
                for k, v in zip(n.keys, n.values):
                    tok[k.value] = (dotted_name(v)[len(FM):], f)
    if len(tok) < 11:
        raise AnalysisError("module_ir: operator text tables not found")
    for text, member in TOKEN_OPS.items():
        res.instances += 1
        if text not in tok:
            res.add(f"module_ir|token|{text}", f"operator '{text}' is not mapped to a FunctionMapping member", mi.rel)
        elif tok[text][0] != member:
            res.add(f"module_ir|token|{text}", f"source operator '{text}' is mapped to {tok[text][0]}, its meaning is {member}",
                    mi.rel, tok[text][1].line, tok[text][1].name)
    fnames = {"$max": "MAXIMUM", "$present": "PRESENCE", "$upper_bound": "UPPER_BOUND", "$lower_bound": "LOWER_BOUND"}
    for text, member in fnames.items():
        res.instances += 1
        if text in tok and tok[text][0] != member:
            res.add(f"module_ir|function|{text}", f"function '{text}' is mapped to {tok[text][0]}, not {member}", mi.rel)
    # 2. folding tables
    for rel in ("compiler/util/ir_util.py", EB):
        m = repo.mod(rel)
        for f in m.top_funcs():
            for n in walk_no_nested_funcs(f.node):
                if isinstance(n, ast.Dict) and n.keys and all(k is not None and (dotted_name(k) or "").startswith(FM) for k in n.keys):
                    for k, v in zip(n.keys, n.values):
                        member = dotted_name(k)[len(FM):]
                        meaning = _fold_meaning(v)
                        if meaning is None:
                            continue
                        res.instances += 1
                        want = PY_OPS.get(member)
                        if member == "MAXIMUM":
                            want = "max"
                        if member in ("UPPER_BOUND", "LOWER_BOUND"):
                            continue
                        if want and meaning != want:
                            res.add(f"{rel}|{f.name}|{member}", f"{f.name} folds {member} with `{ast.unparse(v)}` "
                                    f"(meaning {meaning}); the operator means {want}", rel, v.lineno, f.name)
                        elif len(res.samples) < 3:
                            res.samples.append(f"{f.name}: {member} -> {ast.unparse(v)}")
        res.analysed.append(rel)
    # 3. AND/OR/CHOICE special cases in ir_util: truth tables by structure
    iu = repo.mod("compiler/util/ir_util.py")
    f = iu.funcs.get("_constant_value_of_function")
    if f is None:
        raise AnalysisError("ir_util._constant_value_of_function vanished")
    for n in walk_no_nested_funcs(f.node):
        if isinstance(n, ast.If):
            tests, bodies, _ = D._chain_branches(n)
            for t, b in zip(tests, bodies):
                p = D.parse_test(t)
                if p is None or p.kind != "fm" or len(p.members) != 1:
                    continue
                member = next(iter(p.members))
                src = "\n".join(ast.unparse(s) for s in b)
                res.instances += 1
                if member == "AND":
                    # any False -> False ; any None -> None ; else True
                    if not ("value is False" in src and src.index("value is False") < src.index("value is None")
                            and "return False" in src.split("value is None")[0] and src.rstrip().endswith("return True")):
                        res.add(f"{iu.rel}|{f.name}|AND", "three-valued AND is not `any False -> False; any unknown -> unknown; "
                                "else True`", iu.rel, n.lineno, f.name)
                if member == "OR":
                    if not ("value is True" in src and src.index("value is True") < src.index("value is None")
                            and "return True" in src.split("value is None")[0] and src.rstrip().endswith("return False")):
                        res.add(f"{iu.rel}|{f.name}|OR", "three-valued OR is not `any True -> True; any unknown -> unknown; "
                                "else False`", iu.rel, n.lineno, f.name)
                if member == "CHOICE":
                    if "values[1] if values[0] else values[2]" not in src:
                        res.add(f"{iu.rel}|{f.name}|CHOICE", "constant choice is not `values[1] if values[0] else values[2]`",
                                iu.rel, n.lineno, f.name)
    return res


def control(repo):
    """Swap rmin/rmax in an overlay of expression_bounds: R-BOUNDDIR must fire."""
    src = repo.read(EB)
    a = "expression.type.integer.minimum_value = str(func(lmin, rmin))"
    if a not in src:
        return False
    new = src.replace(a, "expression.type.integer.minimum_value = str(func(lmin, rmax))", 1)
    r2 = Repo(repo.root, overlay={EB: new})
    return bool(bounddir(r2).findings)


def commsym(repo):
    """R-COMMSYM (C05/C04): multiplication and $max are commutative, so their transfer functions must treat operand 0 and
    operand 1 alike.  Whenever one operation (a call or a binary operator) combines an element `A[0]...` with an
    element `B[1]...`, A and B must be the same list and the two paths below the index the same: pairing the reduced
    modulus of one side with the raw modulus of the other (or a minimum with a maximum) gives a result that changes when
    the operands are swapped — for the modulus of a product it claims more alignment than the value has."""
    res = RuleResult("R-COMMSYM")
    m = repo.mod("compiler/front_end/expression_bounds.py")
    targets = [f for f in m.top_funcs() if f.name.startswith("_compute_constraints_of_") and
               any(k in f.name for k in ("multiplicative", "maximum"))]
    if not targets:
        raise AnalysisError("expression_bounds: transfer functions of the commutative operators not found")

    def indexed(e):
        """(list source, index, suffix source) for A[0].x / int(A[1].y) shapes; None otherwise."""
        wrappers = []
        while isinstance(e, ast.Call) and len(e.args) == 1 and isinstance(e.func, ast.Name) and e.func.id in ("int", "abs", "str"):
            wrappers.append(e.func.id)
            e = e.args[0]
        suffix = []
        cur = e
        while isinstance(cur, ast.Attribute):
            suffix.append(cur.attr)
            cur = cur.value
        if isinstance(cur, ast.Subscript) and isinstance(cur.slice, ast.Constant) and cur.slice.value in (0, 1):
            return ast.unparse(cur.value), cur.slice.value, ".".join(reversed(suffix)) + "|" + ",".join(wrappers)
        return None

    for f in targets:
        for n in walk_no_nested_funcs(f.node):
            pair = None
            if isinstance(n, ast.BinOp):
                pair = (n.left, n.right)
            elif isinstance(n, ast.Call) and len(n.args) == 2:
                pair = (n.args[0], n.args[1])
            if not pair:
                continue
            a, b = indexed(pair[0]), indexed(pair[1])
            if a is None and b is None:
                continue
            # one side indexed 0/1 of a list and the other not indexed at all, but derived from `bounds`/operands
            res.instances += 1
            if a is not None and b is not None and {a[1], b[1]} == {0, 1}:
                if a[0] != b[0] or a[2] != b[2]:
                    res.add(f"{m.rel}|{f.name}|{ast.unparse(n)[:60]}", f"{f.name}: `{ast.unparse(n)[:100]}` combines `{ast.unparse(pair[0])}` with "
                            f"`{ast.unparse(pair[1])}` — different quantities of the two operands of a commutative operator; the result "
                            "depends on operand order (for a product's modulus: a stronger alignment claim than the value supports)",
                            m.rel, n.lineno, f.name)
            elif (a is None) != (b is None):
                other = pair[1] if a is not None else pair[0]
                src = ast.unparse(other)
                ia = a or b
                if re.search(r"\[[01]\]", src) and ia[0] not in src:
                    res.add(f"{m.rel}|{f.name}|{ast.unparse(n)[:60]}", f"{f.name}: `{ast.unparse(n)[:100]}` mixes an element of `{ia[0]}` with "
                            f"`{src}`", m.rel, n.lineno, f.name)
    if res.instances < 2:
        raise AnalysisError(f"only {res.instances} paired-operand operations found")
    res.samples = [f"{[f.name for f in targets]}: operand pairs are symmetric"]
    res.analysed = [m.rel]
    return res



def boundinf(repo):
    """R-BOUNDINF (C16/C05): `$upper_bound(x)` / `$lower_bound(x)` copy a bound of x into the *value* of a constant
    expression.  A bound can be the string "infinity"; a constant whose value is "infinity" crashes every later
    `int(...)`.  In the function that implements the two builtins, the assignment that makes the result constant
    (`modulus = "infinity"`) must be dominated by a test that the copied bound is finite."""
    res = RuleResult("R-BOUNDINF")
    m = repo.mod("compiler/front_end/expression_bounds.py")
    f = None
    for g in m.top_funcs():
        src = m.seg(g.node)
        if "UPPER_BOUND" in src and "LOWER_BOUND" in src and "maximum_value" in src and "modular_value" in src:
            f = g
    if f is None:
        raise AnalysisError("expression_bounds: the $upper_bound/$lower_bound transfer function was not found")
    consts = [n for n in walk_no_nested_funcs(f.node) if isinstance(n, ast.Assign) and ast.unparse(n.targets[0]).endswith(".modulus")
              and isinstance(n.value, ast.Constant) and n.value.value == "infinity"]
    if not consts:
        raise AnalysisError(f"{f.name}: no assignment making the result constant")
    for a in consts:
        res.instances += 1
        guarded = False
        for st in f.node.body:
            if st.lineno >= a.lineno:
                break
            if isinstance(st, ast.If) and isinstance(st.body[-1], ast.Return) and "infinity" in ast.unparse(st.test):
                guarded = True
        cur = m.parent(a)
        while cur is not None and cur is not f.node:
            if isinstance(cur, ast.If) and "infinity" in ast.unparse(cur.test):
                guarded = True
            cur = m.parent(cur)
        if not guarded:
            res.add(f"{m.rel}|{f.name}|infinite-constant", f"{f.name} makes its result a constant whose value is a bound of the argument "
                    "without excluding \"infinity\"/\"-infinity\": for `1 [+n] UInt x`, `$upper_bound(x) * 2` ends in ValueError "
                    "(int(\"infinity\")) instead of a diagnostic", m.rel, a.lineno, f.name)
        else:
            res.samples.append(f"{f.name}: constant result only for finite bounds")
    res.analysed = [m.rel]
    return res


INFGUARD_REVIEWED = {
    ("_integer_bounds_errors_for_expression", "clause.type.integer"):
        "the expression itself passed _integer_bounds_errors a few lines above (errors -> return) and every argument passed "
        "it in the recursive call at the top of the function (errors -> return): all clauses are bounded here",
}


def infguard(repo):
    """R-INFGUARD (C16): the bounds of an IntegerType are strings and may be "infinity"/"-infinity" (an integer of width 0,
    an unbounded expression).  constraints.py runs before (and is) the gate that rejects unbounded integers, so there
    `int(<b>.minimum_value)` / `int(<b>.maximum_value)` must be dominated by a test of the same bounds against the
    infinity strings: an enclosing `if not (<b>.minimum_value == "-infinity" or ...)`, or an earlier `if <b>... ==
    "infinity": return`.  Otherwise `struct Foo(n: UInt:0)` / `0 [+n] UInt:8 x` is ValueError: int('-infinity')."""
    res = RuleResult("R-INFGUARD")
    m = repo.mod("compiler/front_end/constraints.py")

    def inf_bases(test):
        """bases whose bounds are compared with an infinity string somewhere in test."""
        out = set()
        for c in ast.walk(test):
            if isinstance(c, ast.Compare) and any(isinstance(k, ast.Constant) and k.value in ("infinity", "-infinity")
                                                  for k in [c.left] + c.comparators):
                for x in [c.left] + c.comparators:
                    if isinstance(x, ast.Attribute) and x.attr in ("minimum_value", "maximum_value"):
                        out.add(ast.unparse(x.value))
        return out

    for f in m.funcs.values():
        aliases = {}
        for n in walk_no_nested_funcs(f.node):
            if isinstance(n, ast.Assign) and len(n.targets) == 1 and isinstance(n.targets[0], ast.Name) and isinstance(n.value, ast.Attribute):
                aliases[n.targets[0].id] = ast.unparse(n.value)

        def canon(b):
            head = b.split(".")[0]
            return aliases[head] + b[len(head):] if head in aliases else b

        def scan(stmts, finite):
            finite = set(finite)
            for st in stmts:
                if isinstance(st, (ast.If, ast.While)):
                    check(st.test, finite)
                    bases = {canon(b) for b in inf_bases(st.test)}
                    negated = isinstance(st.test, ast.UnaryOp) and isinstance(st.test.op, ast.Not) or \
                        (isinstance(st.test, ast.BoolOp) and isinstance(st.test.op, ast.And)
                         and any(isinstance(v, ast.UnaryOp) and isinstance(v.op, ast.Not) and inf_bases(v) for v in st.test.values))
                    scan(st.body, finite | (bases if negated else set()))
                    scan(st.orelse, finite | (set() if negated else bases))
                    if isinstance(st, ast.If) and not negated and st.body and isinstance(st.body[-1], (ast.Return, ast.Raise, ast.Continue)):
                        finite |= bases
                    continue
                if isinstance(st, (ast.For, ast.With, ast.Try)):
                    for blk in ("body", "orelse", "finalbody"):
                        scan(getattr(st, blk, []) or [], finite)
                    for h in getattr(st, "handlers", []):
                        scan(h.body, finite)
                    continue
                if isinstance(st, (ast.FunctionDef, ast.ClassDef)):
                    continue
                check(st, finite)

        def check(e, finite):
            for c in ast.walk(e):
                if isinstance(c, ast.Call) and isinstance(c.func, ast.Name) and c.func.id == "int" and len(c.args) == 1 \
                        and isinstance(c.args[0], ast.Attribute) and c.args[0].attr in ("minimum_value", "maximum_value"):
                    base = canon(ast.unparse(c.args[0].value))
                    res.instances += 1
                    if base in finite or (f.name, ast.unparse(c.args[0].value)) in INFGUARD_REVIEWED:
                        continue
                    res.add(f"{m.rel}|{f.qualname}|{ast.unparse(c.args[0])}", f"{f.qualname} converts `{ast.unparse(c.args[0])}` with int() "
                            "without having excluded \"infinity\"/\"-infinity\": an unbounded value (a size read from a `UInt:0`) is a "
                            "ValueError traceback instead of the 'must not be unbounded' diagnostic", m.rel, c.lineno, f.qualname)
        scan(f.node.body, set())
    if res.instances < 6 and not res.findings:
        raise AnalysisError(f"constraints.py: only {res.instances} int(<bounds>) conversions found")
    res.analysed = [m.rel]
    return res


def constagree(repo):
    """R-CONSTAGREE (C05/C07): two notions of "constant" must not disagree.  constraints.py treats a field whose size has
    inferred minimum == maximum as fixed-size; the back end obtains that size from ir_util.constant_value.  So for the
    expression kinds whose value the bounds pass can pin down without constant_value being able to fold them -- references
    to constant virtual fields, and functions such as `$upper_bound(x) - 253` -- constant_value must consult the computed
    type (is_constant_type) instead of answering None.  Otherwise `let k = 2` / `1 [+k] UInt y` emits `None` into the
    header."""
    res = RuleResult("R-CONSTAGREE")
    m = repo.mod("compiler/util/ir_util.py")
    cv = [f for f in m.top_funcs() if f.name == "constant_value"]
    if not cv:
        raise AnalysisError("ir_util.constant_value not found")
    typed = {f.name for f in m.top_funcs() if "is_constant_type" in ast.unparse(f.node)}

    def consults_type(stmts):
        for st in stmts:
            for n in ast.walk(st):
                if isinstance(n, ast.Call) and (call_name(n) or "").split(".")[-1] in typed | {"is_constant_type"}:
                    return True
        return False
    branches = {}
    for n in ast.walk(cv[0].node):
        if isinstance(n, ast.If) and isinstance(n.test, ast.Compare) and "which_expression" in ast.unparse(n.test.left) \
                and isinstance(n.test.comparators[0], ast.Constant):
            branches[n.test.comparators[0].value] = n.body
    for kind in ("field_reference", "function", "constant_reference"):
        res.instances += 1
        if kind not in branches:
            raise AnalysisError(f"constant_value: no branch for {kind}")
        if not consults_type(branches[kind]):
            res.add(f"{m.rel}|constant_value|{kind}", f"constant_value never looks at the computed type of a {kind}: where the bounds "
                    "pass has established a single value (`let k = 2` / `[+k]`, `$upper_bound(x) - 253`) it still answers None, while "
                    "constraints.py already treats the field as fixed-size -- the back end writes `None` into the header",
                    m.rel, branches[kind][0].lineno, "constant_value")
    # precedence for the bound functions: `$upper_bound(e)` *is* the bound the bounds pass found for e, so where the folder
    # of this module has an entry for UPPER_BOUND / LOWER_BOUND (identity on the folded argument) the computed type must be
    # consulted first -- the folder knows `(false && a == 0) ? 16 : 8` is 8 while the inferred range is 8..16, and a
    # field of size `$upper_bound(...)` would get 16 bits of storage with a 9-bit inferred range
    fold = [f for f in m.top_funcs() if f.name == "_constant_value_of_function"]
    folds_bounds = bool(fold) and "UPPER_BOUND" in ast.unparse(fold[0].node)
    if folds_bounds:
        res.instances += 1
        fb = branches["function"]
        order_ok = False
        for st in fb:
            if isinstance(st, ast.If) and "UPPER_BOUND" in ast.unparse(st.test) and "LOWER_BOUND" in ast.unparse(st.test) and consults_type(st.body) \
                    and any(isinstance(x, ast.Return) for x in ast.walk(st)):
                # must come before the call of the folder
                first_fold = min([x.lineno for s2 in fb for x in ast.walk(s2) if isinstance(x, ast.Call)
                                  and (call_name(x) or "") == "_constant_value_of_function"] or [10**9])
                order_ok = st.lineno < first_fold
        if not order_ok:
            res.add(f"{m.rel}|constant_value|bound-functions-first", "constant_value folds `$upper_bound(e)` / `$lower_bound(e)` as the value of e before "
                    "looking at the computed type: the two evaluators disagree on `$upper_bound((false && a == 0) ? 16 : 8)` (8 vs 16), so one "
                    "expression has two values in one header and a field sized by it can read above its inferred maximum",
                    m.rel, fb[0].lineno, "constant_value")
    res.analysed = [m.rel]
    return res


def boundmemo(repo):
    """R-BOUNDMEMO (C16, termination in practical time): a reference to a virtual field makes the bounds pass compute the
    constraints of *that field's* expression, and only constant results short-circuit.  Without a record of what was
    already handled, k virtual fields that each mention the previous one twice cost 2^k computations (20 lines: minutes;
    40 lines: never).  Decided: compute_constraints_of_expression has a memo parameter, tests and extends it before
    dispatching; every recursive call in expression_bounds.py forwards it (a call that drops it restarts the blow-up
    below that point); compute_constants supplies a fresh set to its Expression traversal."""
    res = RuleResult("R-BOUNDMEMO")
    m = repo.mod("compiler/front_end/expression_bounds.py")
    f = m.funcs.get("compute_constraints_of_expression")
    if f is None:
        raise AnalysisError("expression_bounds.compute_constraints_of_expression not found")
    params = [a.arg for a in f.node.args.args]
    res.instances += 1
    if len(params) < 3:
        res.add(f"{m.rel}|compute_constraints_of_expression|no-memo", "compute_constraints_of_expression has no memo parameter: the "
                "constraints of a referenced virtual field are recomputed at every reference (exponential time for `let a1 = a0 + "
                "a0`, `let a2 = a1 + a1`, ...)", m.rel, f.node.lineno, f.name)
        res.analysed = [m.rel]
        return res
    memo = params[2]
    body = ast.unparse(f.node)
    if not (re.search(r"id\(\w+\) in " + memo, body) and re.search(memo + r"\.add\(id\(", body)):
        res.add(f"{m.rel}|compute_constraints_of_expression|memo-unused", f"the memo `{memo}` is not consulted and extended before the "
                "dispatch", m.rel, f.node.lineno, f.name)
    for g in m.funcs.values():
        for n in walk_no_nested_funcs(g.node):
            if isinstance(n, ast.Call) and isinstance(n.func, ast.Name) and n.func.id == "compute_constraints_of_expression":
                res.instances += 1
                gp = [a.arg for a in g.node.args.args]
                passed = [ast.unparse(a) for a in n.args[2:]] + [ast.unparse(k.value) for k in n.keywords if k.arg == memo]
                if not passed or passed[0] not in gp:
                    res.add(f"{m.rel}|{g.qualname}|drops-memo", f"{g.qualname} recurses into `{ast.unparse(n.args[0])[:50]}` without forwarding "
                            "the memo: everything below this call is recomputed on every visit", m.rel, n.lineno, g.qualname)
    cc = m.funcs.get("compute_constants")
    if cc is None:
        raise AnalysisError("expression_bounds.compute_constants not found")
    res.instances += 1
    ok = False
    for n in walk_no_nested_funcs(cc.node):
        if isinstance(n, ast.Call) and (call_name(n) or "").endswith("fast_traverse_ir_top_down") \
                and any(isinstance(a, ast.Name) and a.id == "compute_constraints_of_expression" for a in n.args):
            for k in n.keywords:
                if k.arg == "parameters" and isinstance(k.value, ast.Dict):
                    for kk, vv in zip(k.value.keys, k.value.values):
                        if isinstance(kk, ast.Constant) and kk.value == memo and isinstance(vv, ast.Call) and ast.unparse(vv) == "set()":
                            ok = True
    if not ok:
        res.add(f"{m.rel}|compute_constants|no-fresh-memo", f"compute_constants does not hand a fresh `{memo}` set to its Expression traversal",
                m.rel, cc.node.lineno, cc.name)
    res.analysed = [m.rel]
    return res


def modcombine(repo):
    """R-MODCOMBINE (C05): an inferred modulus m(e) is sound only if it divides every true modulus of e, so moduli of
    different operands are combined by greatest common divisors (and by products with the zero-congruence part, as in
    doc/modular_congruence_multiplication_proof.tex) -- never by an order comparison: `min(m1, m2)` equals `gcd(m1, m2)`
    only when one divides the other (4 and 6 give 4, the value is only even).  In expression_bounds.py no value derived
    from a `.modulus` (directly, through a name or through a list it was appended to) is an argument of min / max /
    sorted or an operand of an ordering comparison that selects between moduli; the combining operations that do occur
    (gcd helper calls over modulus-derived values) are counted, with a floor."""
    res = RuleResult("R-MODCOMBINE")
    m = repo.mod("compiler/front_end/expression_bounds.py")
    gcd_names = {f.name for f in m.top_funcs() if "common_divisor" in f.name or f.name in ("_gcd", "gcd")}
    if not gcd_names:
        raise AnalysisError("expression_bounds: the gcd helper was not found")
    order_calls = {"min", "max", "_min", "_max", "sorted"}
    for f in m.top_funcs():
        if f.name in gcd_names or f.name.startswith("_assert"):
            continue
        tainted = set()

        def is_tainted(e):
            for n in ast.walk(e):
                if isinstance(n, ast.Attribute) and n.attr == "modulus":
                    return True
                if isinstance(n, ast.Name) and (n.id in tainted or "modul" in n.id and "modular_value" not in n.id):
                    return True
            return False
        # two passes reach a fixed point for straight-line code with loops
        for _ in range(3):
            for n in walk_no_nested_funcs(f.node):
                if isinstance(n, (ast.Assign, ast.AugAssign, ast.AnnAssign)) and n.value is not None and is_tainted(n.value):
                    tgts = n.targets if isinstance(n, ast.Assign) else [n.target]
                    for t in tgts:
                        elts = t.elts if isinstance(t, (ast.Tuple, ast.List)) else [t]
                        for x in elts:
                            if isinstance(x, ast.Name) and "modular_value" not in x.id:
                                tainted.add(x.id)
                if isinstance(n, ast.Call) and isinstance(n.func, ast.Attribute) and n.func.attr in ("append", "extend", "add") \
                        and isinstance(n.func.value, ast.Name) and any(is_tainted(a) for a in n.args):
                    tainted.add(n.func.value.id)
        for n in walk_no_nested_funcs(f.node):
            if isinstance(n, ast.Call):
                cn = call_name(n) or ""
                base = cn.split(".")[-1]
                if base in gcd_names or cn in ("math.gcd",):
                    if any(is_tainted(a) for a in n.args):
                        res.instances += 1
                elif base in order_calls and any(is_tainted(a) for a in n.args):
                    res.add(f"{m.rel}|{f.name}|{base}", f"{f.name}: `{ast.unparse(n)[:90]}` orders moduli; the modulus of a combination "
                            "must divide the modulus of every operand (gcd): the smaller of 4 and 6 is 4, the values are only "
                            "congruent modulo 2, so the inferred alignment is claimed but not true", m.rel, n.lineno, f.name)
    if res.instances < 4 and not res.findings:
        raise AnalysisError(f"only {res.instances} gcd combinations of moduli recognised")
    res.analysed = [m.rel]
    return res


POWCAP_REVIEWED = {
    ("compiler/front_end/constraints.py", "_check_that_enum_values_are_representable", "max_enum_size"):
        "the value of [maximum_bits], which attribute_checker has verified to lie in 1..64 before check_constraints runs (R-BOUNDARY folds that test)",
    ("compiler/back_end/cpp/header_generator.py", "_generate_structure_virtual_field_methods", "bits"):
        "the digits of a C++ type name matched by `::std::(u?)int(\\d+)_t`, produced by _cpp_integer_type_for_range from (32, 64)",
}


def powcap(repo):
    """R-POWCAP (C16): `2 ** n` with n taken from the source text costs time and memory exponential in the number of
    digits the user typed: `0 [+40000000]  UInt  x` made expression_bounds compute and print a 12-million-digit number
    before the width could be rejected.  Every exponentiation (and left shift) in the compiler whose exponent is not a
    literal has an exponent that is bounded above on the way there: a terminating guard `n > K` / `n >= K` (possibly in a
    disjunction) earlier in the function, a loop variable over a tuple of literals, or a reviewed source (table)."""
    res = RuleResult("R-POWCAP")
    seen = set()
    for m in repo.compile_path_modules():
        for f in m.funcs.values():
            pows = [n for n in walk_no_nested_funcs(f.node) if isinstance(n, ast.BinOp) and isinstance(n.op, (ast.Pow, ast.LShift))
                    and not isinstance(n.right, ast.Constant)]
            if not pows:
                continue
            # upper-bound guards: `if <...> v > K <...>: return/raise/continue` (test may be an `or` chain)
            capped = {}
            for n in walk_no_nested_funcs(f.node):
                if isinstance(n, ast.If) and n.body and isinstance(n.body[-1], (ast.Return, ast.Raise, ast.Continue)):
                    tests = n.test.values if isinstance(n.test, ast.BoolOp) and isinstance(n.test.op, ast.Or) else [n.test]
                    for t in tests:
                        if isinstance(t, ast.Compare) and len(t.ops) == 1 and isinstance(t.left, ast.Name) and isinstance(t.ops[0], (ast.Gt, ast.GtE)) \
                                and isinstance(t.comparators[0], ast.Constant) and isinstance(t.comparators[0].value, int):
                            capped[t.left.id] = (t.comparators[0].value, n.lineno)
                if isinstance(n, ast.For) and isinstance(n.target, ast.Name) and isinstance(n.iter, (ast.Tuple, ast.List)) \
                        and all(isinstance(e, ast.Constant) for e in n.iter.elts):
                    capped[n.target.id] = (max(e.value for e in n.iter.elts), n.lineno)
            for p in pows:
                names = sorted({x.id for x in ast.walk(p.right) if isinstance(x, ast.Name)})
                res.instances += 1
                for v in names:
                    if v in capped and capped[v][1] <= p.lineno and capped[v][0] <= 4096:
                        continue
                    key = (m.rel, f.qualname, v)
                    if key in POWCAP_REVIEWED:
                        seen.add(key)
                        continue
                    res.add(f"{m.rel}|{f.qualname}|{v}", f"{f.qualname}: `{ast.unparse(p)[:50]}` raises to a power taken from `{v}` with no upper "
                            "bound on the path: a width mistyped as 40000000 makes the compiler build a number with millions of digits "
                            "(no diagnostic within hours) before the width is rejected", m.rel, p.lineno, f.qualname)
                if not names:
                    res.add(f"{m.rel}|{f.qualname}|expr", f"{f.qualname}: exponent `{ast.unparse(p.right)[:40]}` not understood", m.rel, p.lineno, f.qualname)
    for key in sorted(set(POWCAP_REVIEWED) - seen):
        raise AnalysisError(f"R-POWCAP: reviewed site {key} no longer exists")
    if res.instances < 8 and not res.findings:
        raise AnalysisError(f"only {res.instances} exponentiations found")
    return res


def boundorder(repo):
    """R-BOUNDORDER (C14 converse / C16): since the value of a constant that is not a literal is read from the *computed
    bounds* of its expression, `ir_util.constant_value(E)` in expression_bounds.py answers None for an expression E whose
    bounds have not been computed yet -- and E belongs to another object (found with find_object / find_parent_object),
    which the traversal may visit later: `struct Foo: 0 [+1] Inner i / let y = i.x + 1` before `struct Inner: let k = 1 /
    0 [+k] UInt x` was rejected ("must not be unbounded"), with the two structs swapped it was accepted.  For every
    `constant_value(<looked-up object>.<...expression field>)` the same function computes the bounds of that very
    expression first (`compute_constraints_of_expression(E, ir, computed)`).  Exempt: `size_in_bits` (the `:N` of a type
    is a numeric literal by grammar)."""
    res = RuleResult("R-BOUNDORDER")
    m = repo.mod("compiler/front_end/expression_bounds.py")
    for f in m.top_funcs():
        found = set()
        for n in walk_no_nested_funcs(f.node):
            if isinstance(n, ast.Assign) and isinstance(n.value, ast.Call) and (call_name(n.value) or "").split(".")[-1] in (
                    "find_object", "find_object_or_none", "find_parent_object"):
                found |= {t.id for t in n.targets if isinstance(t, ast.Name)}
        if not found:
            continue
        computed_at = {}
        for n in walk_no_nested_funcs(f.node):
            if isinstance(n, ast.Call) and (call_name(n) or "").split(".")[-1] == "compute_constraints_of_expression" and n.args:
                computed_at.setdefault(ast.unparse(n.args[0]), n.lineno)
        for n in walk_no_nested_funcs(f.node):
            if not (isinstance(n, ast.Call) and (call_name(n) or "").split(".")[-1] in ("constant_value", "is_constant") and n.args):
                continue
            e = n.args[0]
            root = e
            while isinstance(root, (ast.Attribute, ast.Subscript)):
                root = root.value
            if not (isinstance(root, ast.Name) and root.id in found) or not isinstance(e, ast.Attribute):
                continue
            if e.attr == "size_in_bits":
                continue
            res.instances += 1
            src = ast.unparse(e)
            if src not in computed_at or computed_at[src] > n.lineno:
                res.add(f"{m.rel}|{f.name}|{src}", f"{f.name} reads `{ast.unparse(n)[:70]}` of an object found by name without first computing the "
                        f"bounds of `{src}`: when that object comes later in the traversal the value is still unknown, so whether the "
                        "module is accepted depends on the order of its declarations (and the error for an anonymous `bits` member is "
                        "printed at `[compiler bug]`)", m.rel, n.lineno, f.name)
    if res.instances < 2 and not res.findings:
        raise AnalysisError(f"only {res.instances} constant reads of looked-up objects recognised")
    res.analysed = [m.rel]
    return res


def choiceconst(repo):
    """R-CHOICECONST (C05): when the condition of `c ? a : b` has a compile-time value the bounds pass copies the type
    (bounds, modulus, constant value) of the branch that is taken -- `a` for true, `b` for false.  In
    _compute_constraints_of_choice_operator, inside the block guarded by `<condition>.type.boolean.has_field("value")`,
    the object whose `.type` is copied is selected by that value: an `x if <...boolean.value> else y` (or an if/else
    over it) with x the second and y the third argument of the choice.  Copying one branch unconditionally makes
    `false ? 1000 : x` the constant 1000 and gives a structure with an `if false:` field the size of that dead field."""
    res = RuleResult("R-CHOICECONST")
    m = repo.mod("compiler/front_end/expression_bounds.py")
    fs = [f for f in m.top_funcs() if f.name == "_compute_constraints_of_choice_operator"]
    if not fs:
        raise AnalysisError("expression_bounds._compute_constraints_of_choice_operator not found")
    f = fs[0]
    names = None
    for n in walk_no_nested_funcs(f.node):
        if isinstance(n, ast.Assign) and isinstance(n.targets[0], ast.Tuple) and len(n.targets[0].elts) == 3 \
                and all(isinstance(e, ast.Name) for e in n.targets[0].elts) and "function.args" in ast.unparse(n.value):
            names = [e.id for e in n.targets[0].elts]
    if not names:
        raise AnalysisError("_compute_constraints_of_choice_operator: `condition, if_true, if_false = ...args` not found")
    cond, t_name, f_name = names
    block = None
    for n in walk_no_nested_funcs(f.node):
        if isinstance(n, ast.If) and re.search(re.escape(cond) + r"\.type\.boolean\.has_field\(['\"]value['\"]\)", ast.unparse(n.test)):
            block = n
    if block is None:
        raise AnalysisError("_compute_constraints_of_choice_operator: constant-condition block not found")
    res.instances = 2
    local = {}
    for st in block.body:
        if isinstance(st, ast.Assign) and len(st.targets) == 1 and isinstance(st.targets[0], ast.Name):
            local[st.targets[0].id] = st.value
    copies = [c for st in block.body for c in ast.walk(st) if isinstance(c, ast.Call) and isinstance(c.func, ast.Attribute)
              and c.func.attr == "CopyFrom" and ast.unparse(c.func.value).endswith(".type") and c.args]
    ok = False
    for c in copies:
        src = c.args[0]
        # <sel>.type
        if isinstance(src, ast.Attribute) and src.attr == "type":
            sel = src.value
            if isinstance(sel, ast.Name) and sel.id in local:
                sel = local[sel.id]
            if isinstance(sel, ast.IfExp) and "boolean.value" in ast.unparse(sel.test) and cond in ast.unparse(sel.test) \
                    and ast.unparse(sel.body) == t_name and ast.unparse(sel.orelse) == f_name:
                ok = True
            if isinstance(sel, ast.IfExp) and isinstance(sel.test, ast.UnaryOp) and isinstance(sel.test.op, ast.Not) \
                    and "boolean.value" in ast.unparse(sel.test) and ast.unparse(sel.body) == f_name and ast.unparse(sel.orelse) == t_name:
                ok = True
    # if/else form
    for st in block.body:
        if isinstance(st, ast.If) and "boolean.value" in ast.unparse(st.test) and st.orelse:
            b, o = ast.unparse(st.body[0]) if st.body else "", ast.unparse(st.orelse[0])
            if f"CopyFrom({t_name}.type)" in b and f"CopyFrom({f_name}.type)" in o and not ast.unparse(st.test).startswith("not "):
                ok = True
    if not ok:
        shown = ast.unparse(copies[0])[:80] if copies else "no CopyFrom"
        res.add(f"{m.rel}|{f.name}|constant-condition", f"{f.name}: with a compile-time condition the result takes `{shown}`, not the type of the "
                f"branch selected by `{cond}.type.boolean.value` (`{t_name}` for true, `{f_name}` for false): `false ? 1000 : x` is inferred "
                "as the constant 1000, and `$size_in_bytes` counts fields under `if false:`", m.rel, block.lineno, f.name)
    res.analysed = [m.rel]
    return res


def extint(repo):
    """R-EXTINT (C16/C13): `external` types with `[is_integer: true]` are user-declarable (documented attribute), so the
    leaf-range table of the bounds pass, which only knows the prelude's UInt / Int / Bcd, meets other names on accepted
    input.  Reaching its closing `assert False` (or the `assert not ...module_file` in front of it) is a traceback for
    `0 [+1] MyInt x` / `let y = x + 1`.  Decided: _set_integer_constraints_from_physical_type leaves with unbounded
    constraints for a type that is not one of the prelude's (a test of the canonical name's `module_file`) before the
    name dispatch, and no function of expression_bounds.py asserts that a referenced type lives in the prelude."""
    res = RuleResult("R-EXTINT")
    m = repo.mod("compiler/front_end/expression_bounds.py")
    f = m.funcs.get("_set_integer_constraints_from_physical_type")
    if f is None:
        raise AnalysisError("expression_bounds._set_integer_constraints_from_physical_type not found")
    res.instances = 2
    guarded = False
    for n in walk_no_nested_funcs(f.node):
        if isinstance(n, ast.If) and "module_file" in ast.unparse(n.test) and any(isinstance(x, ast.Return) for x in n.body) \
                and "infinity" in ast.unparse(n):
            guarded = True
    ends_in_assert = any(isinstance(n, ast.Assert) and isinstance(n.test, ast.Constant) and n.test.value is False for n in walk_no_nested_funcs(f.node))
    if ends_in_assert and not guarded:
        res.add(f"{m.rel}|{f.name}|unknown-integer-type", f"{f.name} ends in `assert False` for an integer type other than UInt/Int/Bcd and has no "
                "earlier exit for types outside the prelude: a field of a user-defined `external` with `[is_integer: true]` used in an "
                "expression ends the compiler with AssertionError", m.rel, f.node.lineno, f.name)
    for g in m.top_funcs():
        for n in walk_no_nested_funcs(g.node):
            if isinstance(n, ast.Assert) and "module_file" in ast.unparse(n.test):
                res.add(f"{m.rel}|{g.name}|assert-prelude", f"{g.name} asserts `{ast.unparse(n.test)[:70]}`: a referenced integer type defined in a user "
                        "module (an `external` with `[is_integer: true]`) fails the assertion instead of getting a diagnostic",
                        m.rel, n.lineno, g.name)
    res.analysed = [m.rel]
    return res
