"""R-ADJACENCY (C11): the formatter glues some neighbouring children together without whitespace.  For every
pair of terminals that can meet at such a seam (LAST of the left child x FIRST of the right child, computed on
the grammar), the concatenation of the two token texts must tokenize back into the same two tokens —
otherwise the formatted file no longer parses to the same token stream.  Decided with the checker's own
tokenizer over the *extracted* pattern tables and one witness text per token class."""
from __future__ import annotations

import ast
import re

from .. import grammar as G
from .. import toksim
from ..pyfacts import func_params, walk_no_nested_funcs
from ..report import AnalysisError, RuleResult


def _first_last(prods):
    lhs = {l for l, _ in prods}
    nullable = set()
    changed = True
    while changed:
        changed = False
        for l, r in prods:
            if l not in nullable and all(s in nullable for s in r):
                nullable.add(l)
                changed = True
    first = {s: set() for s in lhs}
    last = {s: set() for s in lhs}
    changed = True
    while changed:
        changed = False
        for l, r in prods:
            for seq, table in ((r, first), (tuple(reversed(r)), last)):
                for s in seq:
                    add = table[s] if s in lhs else {s}
                    if not add <= table[l]:
                        table[l] |= add
                        changed = True
                    if s not in nullable:
                        break
    return nullable, first, last, lhs


def _witnesses(repo):
    lits, regs = G.tokenizer_tables(repo)
    m = repo.mod(G.TOKENIZER)
    examples = {}
    for name, vals in m.assigns.items():
        if name == "REGEX_TOKEN_PATTERNS":
            for e in vals[-1].elts:
                if isinstance(e, ast.Call) and len(e.args) >= 3 and isinstance(e.args[1], ast.Constant) \
                        and isinstance(e.args[2], ast.Constant) and e.args[1].value:
                    examples.setdefault(e.args[1].value, []).append(e.args[2].value)
    w = {}
    for l in lits:
        w['"' + l + '"'] = [l]
    for sym, exs in examples.items():
        w[sym] = exs
    return w, lits, regs


def _glued_pairs(fnode):
    """Index pairs (i, j) of positional parameters whose texts are placed next to each other with nothing
    between them.  Recognises `_concatenate`-style bodies (''.join(elements)) and literal format strings."""
    pos = [a.arg for a in fnode.args.args]
    if fnode.args.vararg is not None:
        for n in walk_no_nested_funcs(fnode):
            if isinstance(n, ast.Return) and isinstance(n.value, ast.Call) and isinstance(n.value.func, ast.Attribute) \
                    and n.value.func.attr == "join" and isinstance(n.value.func.value, ast.Constant) and n.value.func.value.value == "" \
                    and n.value.args and isinstance(n.value.args[0], ast.Name) and n.value.args[0].id == fnode.args.vararg.arg:
                return "all"
        return []
    pairs = []
    for n in walk_no_nested_funcs(fnode):
        if isinstance(n, ast.Call) and isinstance(n.func, ast.Attribute) and n.func.attr == "format" \
                and isinstance(n.func.value, ast.Constant) and isinstance(n.func.value.value, str):
            fmt = n.func.value.value
            args = [a.id if isinstance(a, ast.Name) else None for a in n.args]
            parts = re.split(r"(\{\})", fmt)
            idx = 0
            prev = None
            gap = None
            for p in parts:
                if p == "{}":
                    cur = args[idx] if idx < len(args) else None
                    if prev is not None and cur is not None and gap == "" and prev in pos and cur in pos:
                        pairs.append((pos.index(prev), pos.index(cur)))
                    prev = cur
                    gap = ""
                    idx += 1
                else:
                    if gap is not None:
                        gap += p
        if isinstance(n, ast.BinOp) and isinstance(n.op, ast.Add) and isinstance(n.left, ast.Name) and isinstance(n.right, ast.Name) \
                and n.left.id in pos and n.right.id in pos:
            pairs.append((pos.index(n.left.id), pos.index(n.right.id)))
    return pairs


def _seam_guards(fnode):
    """[(left literal or None, right prefix literal)]: branches that return the two children *with* a whitespace
    separator when `left == <lit>` and/or `right.startswith(<lit>)` — at those seams the glue does not apply."""
    pos = [a.arg for a in fnode.args.args]
    out = []
    for n in walk_no_nested_funcs(fnode):
        if not isinstance(n, ast.If):
            continue
        left_lit = right_pref = None
        conj = n.test.values if isinstance(n.test, ast.BoolOp) and isinstance(n.test.op, ast.And) else [n.test]
        for c in conj:
            if isinstance(c, ast.Compare) and isinstance(c.left, ast.Name) and c.left.id in pos and isinstance(c.ops[0], ast.Eq) \
                    and isinstance(c.comparators[0], ast.Constant):
                left_lit = c.comparators[0].value
            if isinstance(c, ast.Call) and isinstance(c.func, ast.Attribute) and c.func.attr == "startswith" \
                    and isinstance(c.func.value, ast.Name) and c.func.value.id in pos and c.args and isinstance(c.args[0], ast.Constant):
                right_pref = c.args[0].value
        if right_pref is None:
            continue
        padded = False
        for st in n.body:
            if isinstance(st, ast.Return) and st.value is not None:
                consts = [x.value for x in ast.walk(st.value) if isinstance(x, ast.Constant) and isinstance(x.value, str)]
                if any(c and c.strip() == "" for c in consts):
                    padded = True
        if padded:
            out.append((left_lit, right_pref))
    return out


def adjacency(repo):
    res = RuleResult("R-ADJACENCY")
    g = G.ir_grammar(repo)
    prods = g["productions"]
    nullable, first, last, lhs = _first_last(prods)
    wit, lits, regs = _witnesses(repo)
    fm = G.fmt_grammar(repo)
    seams = {}
    for (l, rhs), f, dec, dnode in fm.entries:
        gp = _glued_pairs(f.node)
        if gp == "all":
            pairs = []
            for i in range(len(rhs)):
                for j in range(i + 1, len(rhs)):
                    if all(rhs[k] in nullable for k in range(i + 1, j)):
                        pairs.append((i, j))
        else:
            pairs = [(i, j) for i, j in gp if i < len(rhs) and j < len(rhs) and j == i + 1]
        for i, j in pairs:
            A = last[rhs[i]] if rhs[i] in lhs else {rhs[i]}
            B = first[rhs[j]] if rhs[j] in lhs else {rhs[j]}
            for a in A:
                for b in B:
                    seams.setdefault((a, b), []).append((f"{l} -> {' '.join(rhs)}", f.name, i, j, tuple(_seam_guards(f.node))))
    hazards = []
    for (a, b), where in sorted(seams.items()):
        if a not in wit or b not in wit:
            continue
        res.instances += 1
        bad = None
        # a seam is a hazard only through formatters that do not pad it for these two tokens
        def padded(w, wa, wb):
            return any((ll is None or ll == wa) and wb.startswith(rp) for ll, rp in w[4])
        for wa in wit[a][:2]:
            for wb in wit[b][:2]:
                if all(padded(w, wa, wb) for w in where):
                    continue
                try:
                    toks = [t for t in toksim.tokenize(wa + wb, lits, regs) if t[0] not in ('"\\n"',)]
                except toksim.TokErr:
                    toks = None
                if toks is None or [(t[0], t[1]) for t in toks] != [(a, wa), (b, wb)]:
                    bad = (wa, wb, toks)
                    break
            if bad:
                break
        if bad:
            hazards.append(((a, b), where, bad))
    # only seams whose both sides reach the seam through glue (the child formatters themselves do not pad) are certain;
    # report those where the production itself glues two *terminals or operator nonterminals* directly
    for (a, b), where, (wa, wb, toks) in hazards:
        prod, fname, i, j, _ = where[0]
        got = [(t[0], t[1]) for t in toks] if toks else "does not tokenize"
        res.add(f"{G.FORMAT_EMB}|{fname}|{a}|{b}", f"formatter {fname} places the children of `{prod}` next to each other "
                f"without a separator; a {a} token can be followed directly by a {b} token there, and `{wa}{wb}` tokenizes as "
                f"{got} instead of [{a}, {b}]: the formatted text no longer has the original token stream",
                G.FORMAT_EMB, 0, fname)
    res.detail = {"seams": len(seams), "hazards": len(hazards)}
    res.samples = [f"{a} | {b} at {w[0][0]}" for (a, b), w in list(seams.items())[:3]]
    res.analysed = [G.FORMAT_EMB, G.MODULE_IR, G.TOKENIZER]
    return res
