"""R-SYNTH (C01): the expressions synthetics.py builds from skeleton strings.

The skeletons are Emboss expressions given as text with placeholder names; the pass copies IR into the
placeholders by position (`.function.args[i]...`).  The rule parses each skeleton with a small
expression parser and checks (a) role agreement: the placeholder at each filled position is named like
the attribute copied into it (`start` <- `.location.start`), (b) shape: the size of a structure is
`$max(0, exists ? start + size : 0, ...)` over every non-virtual field, (c) the size-bound table maps
max -> $upper_bound, min -> $lower_bound over the same unit, and BIT/BYTE select *_in_bits/*_in_bytes."""
from __future__ import annotations

import ast
import re

from ..pyfacts import call_name, dotted_name, walk_no_nested_funcs
from ..report import AnalysisError, RuleResult

SYN = "compiler/front_end/synthetics.py"
_TOK = re.compile(r"\s*(\$?[A-Za-z_][A-Za-z_0-9.]*|\d+|&&|\|\||==|!=|<=|>=|[-+*?:(),<>])")


def parse_expr(text):
    """Tiny Emboss expression parser -> nested tuples ('fn', name, [args]) / ('id', name) / ('num', n)."""
    toks = _TOK.findall(text)
    pos = [0]

    def peek():
        return toks[pos[0]] if pos[0] < len(toks) else None

    def take(t=None):
        v = peek()
        if t is not None and v != t:
            raise ValueError(f"expected {t} got {v}")
        pos[0] += 1
        return v

    def primary():
        t = take()
        if t == "(":
            e = ternary()
            take(")")
            return e
        if t.isdigit():
            return ("num", int(t))
        if peek() == "(":
            take("(")
            args = []
            if peek() != ")":
                args.append(ternary())
                while peek() == ",":
                    take(",")
                    args.append(ternary())
            take(")")
            return ("fn", t, args)
        return ("id", t)

    def binary(level=0):
        ops = [["||"], ["&&"], ["==", "!=", "<", "<=", ">", ">="], ["+", "-"], ["*"]]
        if level == len(ops):
            return primary()
        left = binary(level + 1)
        while peek() in ops[level]:
            op = take()
            right = binary(level + 1)
            left = ("fn", op, [left, right])
        return left

    def ternary():
        c = binary()
        if peek() == "?":
            take("?")
            a = ternary()
            take(":")
            b = ternary()
            return ("fn", "?:", [c, a, b])
        return c

    e = ternary()
    if pos[0] != len(toks):
        raise ValueError("trailing tokens")
    return e


def _path_of(node):
    """`.function.args[i].function.args[j]` chain below a skeleton variable -> (root name, [i, j])."""
    idx = []
    cur = node
    while True:
        if isinstance(cur, ast.Subscript) and isinstance(cur.value, ast.Attribute) and cur.value.attr == "args" \
                and isinstance(cur.slice, ast.Constant):
            idx.append(cur.slice.value)
            cur = cur.value.value  # .function
            if isinstance(cur, ast.Attribute) and cur.attr == "function":
                cur = cur.value
                continue
            return None
        if isinstance(cur, ast.Attribute) and cur.attr == "field_reference":
            cur = cur.value
            continue
        break
    if isinstance(cur, ast.Name):
        return cur.id, list(reversed(idx))
    return None


def _node_at(tree, path):
    cur = tree
    for i in path:
        if cur[0] != "fn" or i >= len(cur[2]):
            return None
        cur = cur[2][i]
    return cur


def synth(repo):
    res = RuleResult("R-SYNTH")
    m = repo.mod(SYN)
    # skeleton constants: NAME = expression_parser.parse("<text>")
    skel = {}
    for name, vals in m.assigns.items():
        v = vals[-1]
        if isinstance(v, ast.Call) and (call_name(v) or "").endswith("expression_parser.parse") and v.args \
                and isinstance(v.args[0], ast.Constant):
            skel[name] = parse_expr(v.args[0].value)
    if len(skel) < 4:
        raise AnalysisError(f"synthetics: only {len(skel)} expression skeletons found")
    # (a) role agreement at every CopyFrom into a skeleton position
    sums = {}
    for f in m.top_funcs():
        # local = copy(SKELETON) / builder(local)
        binding = {}
        nodes = sorted((n for n in walk_no_nested_funcs(f.node) if hasattr(n, "lineno")), key=lambda n: (n.lineno, n.col_offset))
        for n in nodes + nodes:
            if isinstance(n, ast.Assign) and isinstance(n.targets[0], ast.Name) and isinstance(n.value, ast.Call):
                args = n.value.args
                cn = call_name(n.value) or ""
                if cn.endswith(("ir_data_utils.copy", "ir_data_utils.builder")) and args:
                    a = args[0]
                    if isinstance(a, ast.Name) and a.id in skel:
                        binding[n.targets[0].id] = a.id
                    elif isinstance(a, ast.Name) and a.id in binding:
                        binding[n.targets[0].id] = binding[a.id]
                # existence_clauses = builder(x).function.args
            if isinstance(n, ast.Assign) and isinstance(n.targets[0], ast.Name) and isinstance(n.value, ast.Attribute) \
                    and n.value.attr == "args":
                inner = n.value.value
                if isinstance(inner, ast.Attribute) and inner.attr == "function" and isinstance(inner.value, ast.Call) \
                        and inner.value.args and isinstance(inner.value.args[0], ast.Name) and inner.value.args[0].id in binding:
                    binding[n.targets[0].id] = ("args", binding[inner.value.args[0].id])
        for n in walk_no_nested_funcs(f.node):
            if isinstance(n, ast.Call) and isinstance(n.func, ast.Attribute) and n.func.attr == "CopyFrom" and n.args:
                tgt = n.func.value
                # clauses[i].function.args[j]...  where clauses is ("args", skeleton)
                p = _path_of(tgt)
                root = path = None
                if p and p[0] in binding:
                    b = binding[p[0]]
                    if isinstance(b, tuple):
                        continue
                    root, path = b, p[1]
                else:
                    # existence_clauses[0].function.args[0].field_reference
                    cur = tgt
                    idx = []
                    while isinstance(cur, (ast.Attribute, ast.Subscript)):
                        if isinstance(cur, ast.Subscript) and isinstance(cur.slice, ast.Constant):
                            idx.append(cur.slice.value)
                            cur = cur.value
                            if isinstance(cur, ast.Attribute) and cur.attr == "args":
                                cur = cur.value
                                if isinstance(cur, ast.Attribute) and cur.attr == "function":
                                    cur = cur.value
                            continue
                        cur = cur.value
                    if isinstance(cur, ast.Name) and isinstance(binding.get(cur.id), tuple):
                        root, path = binding[cur.id][1], list(reversed(idx))
                if root is None:
                    continue
                node = _node_at(skel[root], path)
                src = n.args[0]
                src_role = src.attr if isinstance(src, ast.Attribute) else (src.id if isinstance(src, ast.Name) else None)
                res.instances += 1
                if node is None or node[0] != "id":
                    res.add(f"{SYN}|{f.name}|{root}|{path}", f"{f.name} copies into position {path} of skeleton {root}, which is "
                            "not a placeholder", SYN, n.lineno, f.name)
                    continue
                ph = node[1]
                parent = _node_at(skel[root], path[:-1]) if path else None
                if parent is not None and parent[0] == "fn" and parent[1] == "+":
                    # operands of a commutative sum: only the *set* of quantities matters
                    sums.setdefault((f.name, root, tuple(path[:-1])), []).append((ph, src_role, n.lineno, ast.unparse(src)))
                    continue
                if src_role and ph in ("start", "size", "existence_condition") and src_role != ph:
                    res.add(f"{SYN}|{f.name}|{root}|{ph}", f"{f.name} fills placeholder `{ph}` of {root} with "
                            f"`{ast.unparse(src)}`: the synthesised size/location expression uses the wrong quantity",
                            SYN, n.lineno, f.name)
                elif len(res.samples) < 4:
                    res.samples.append(f"{root}{path} `{ph}` <- {ast.unparse(src)}")
    for (fname, root, path), fills in sums.items():
        res.instances += 1
        roles = sorted(r for _, r, _, _ in fills)
        bases = {t.rsplit(".", 1)[0] for _, _, _, t in fills}
        if roles != ["size", "start"] or len(bases) != 1:
            res.add(f"{SYN}|{fname}|{root}|sum", f"{fname} fills the sum at {list(path)} of {root} with "
                    f"{[t for _, _, _, t in fills]}; the end of a field is the `start` plus the `size` of one location",
                    SYN, fills[0][2], fname)
        elif len(res.samples) < 6:
            res.samples.append(f"{root}{list(path)}: start + size of {next(iter(bases))}")
    # (b) shape of the structure-size expression
    size_clause = next((t for n, t in skel.items() if "CLAUSE" in n), None)
    size_skel = next((t for n, t in skel.items() if n.endswith("_SIZE_SKELETON")), None)
    res.instances += 2
    want_clause = ("fn", "?:", [("id", "existence_condition"), ("fn", "+", [("id", "start"), ("id", "size")]), ("num", 0)])
    if size_clause != want_clause:
        res.add(f"{SYN}|size-clause", f"the per-field size clause is {size_clause}; the size of a structure is the largest end "
                "`exists ? start + size : 0` of its present fields", SYN)
    if size_skel != ("fn", "$max", [("num", 0)]):
        res.add(f"{SYN}|size-skeleton", f"the structure size skeleton is {size_skel}, not `$max(0, ...)`", SYN)
    # only virtual fields are skipped when the size is assembled
    for f in m.top_funcs():
        if "_SIZE_CLAUSE_SKELETON" in m.seg(f.node):
            for n in walk_no_nested_funcs(f.node):
                if isinstance(n, ast.For):
                    for st in n.body:
                        if isinstance(st, ast.If) and any(isinstance(x, ast.Continue) for x in st.body):
                            res.instances += 1
                            if ast.unparse(st.test) != "ir_util.field_is_virtual(field)":
                                res.add(f"{SYN}|{f.name}|skip", f"{f.name} leaves fields out of the structure size when "
                                        f"`{ast.unparse(st.test)}`; only virtual fields may be skipped", SYN, st.lineno, f.name)
            src = m.seg(f.node)
            if "size_expression.function.args.extend(size_clauses)" not in src.replace("\n", ""):
                res.add(f"{SYN}|{f.name}|extend", "the size clauses are not all appended to the $max expression", SYN, f.line, f.name)
    # (c) bound table and unit tables
    for name, vals in m.assigns.items():
        v = vals[-1]
        if isinstance(v, ast.Dict) and v.keys and all(isinstance(k, ast.Constant) and str(k.value).startswith("$") for k in v.keys):
            for k, val in zip(v.keys, v.values):
                if isinstance(val, ast.Call) and val.args and isinstance(val.args[0], ast.Constant):
                    res.instances += 1
                    key = k.value
                    t = parse_expr(val.args[0].value)
                    want_fn = "$upper_bound" if "max" in key else "$lower_bound"
                    unit = "bits" if key.endswith("bits") else "bytes"
                    if not (t[0] == "fn" and t[1] == want_fn and t[2] == [("id", f"$size_in_{unit}")]):
                        res.add(f"{SYN}|bounds|{key}", f"{key} is defined as `{val.args[0].value}`; it must be "
                                f"{want_fn}($size_in_{unit})", SYN, val.lineno)
    for f in m.top_funcs():
        for n in walk_no_nested_funcs(f.node):
            if isinstance(n, ast.Dict) and n.keys and all((dotted_name(k) or "").startswith("ir_data.AddressableUnit.") for k in n.keys):
                for k, val in zip(n.keys, n.values):
                    unit = "bits" if dotted_name(k).endswith(".BIT") else "bytes"
                    names = [c.value for c in ast.walk(val) if isinstance(c, ast.Constant) and isinstance(c.value, str)]
                    for nm in names:
                        res.instances += 1
                        if not nm.endswith("_in_" + unit):
                            res.add(f"{SYN}|{f.name}|unit|{nm}", f"{f.name}: {dotted_name(k)} structures get `{nm}` "
                                    f"(expected a *_in_{unit} field)", SYN, val.lineno, f.name)
    res.detail = {"skeletons": sorted(skel)}
    res.analysed = [SYN]
    return res


def synthmark(repo):
    """R-SYNTHMARK (C16): `_mark_as_synthetic(x)` stamps x *and everything below it* as compiler-generated; errors located
    there are deferred and printed as `[compiler bug]`.  A node whose own source_location the same function has just
    set to a user-written location (the replaced `$next` keyword keeps the position of the `$next` token) must
    therefore not be handed to `_mark_as_synthetic` afterwards — only its synthesised parts may."""
    res = RuleResult("R-SYNTHMARK")
    m = repo.mod(SYN)
    ncalls = 0
    for f in m.top_funcs():
        alias = {}
        for n in walk_no_nested_funcs(f.node):
            if isinstance(n, ast.Assign) and isinstance(n.targets[0], ast.Name) and isinstance(n.value, ast.Call) \
                    and (call_name(n.value) or "").endswith(("ir_data_utils.builder", "ir_data_utils.reader")) and n.value.args \
                    and isinstance(n.value.args[0], ast.Name):
                alias[n.targets[0].id] = n.value.args[0].id
        root = lambda name: alias.get(name, name)
        restored = {}
        for n in walk_no_nested_funcs(f.node):
            if isinstance(n, ast.Assign) and isinstance(n.targets[0], ast.Attribute) and n.targets[0].attr == "source_location" \
                    and isinstance(n.targets[0].value, ast.Name) and "synthetic" not in ast.unparse(n.value):
                restored[root(n.targets[0].value.id)] = n.lineno
        for n in walk_no_nested_funcs(f.node):
            if isinstance(n, ast.Call) and isinstance(n.func, ast.Name) and n.func.id == "_mark_as_synthetic" and n.args:
                ncalls += 1
                res.instances += 1
                a = n.args[0]
                if isinstance(a, ast.Name) and root(a.id) in restored and restored[root(a.id)] <= n.lineno:
                    res.add(f"{SYN}|{f.name}|{root(a.id)}", f"{f.name} sets `{root(a.id)}`'s source_location to a user-written location "
                            f"(line {restored[root(a.id)]}) and then marks the whole node synthetic: errors at that position (the user's own "
                            "`$next`) are deferred and reported as `[compiler bug]` instead of file:line:column", SYN, n.lineno, f.name)
    if ncalls < 5:
        raise AnalysisError(f"synthetics: only {ncalls} _mark_as_synthetic calls found")
    res.samples = [f"{ncalls} _mark_as_synthetic calls, none on a node whose location was restored"]
    res.analysed = [SYN]
    return res


def aliasattr(repo, clauses=("carry", "attribute_clauses", "anonymous_own")):
    """R-ALIASATTR (C06): an anonymous `bits:` field is rewritten into a hidden field (always `[text_output: "Skip"]`) plus
    one alias per member, and it is the alias that text output prints.  What the user wrote on the member and that
    governs text output therefore has to be carried to the alias: inside the member loop of _add_anonymous_aliases the
    new Field takes the member's name, its abbreviation, and its text_output attribute (a statement that appends to the
    alias's `attribute` list from `<member>.attribute`, selected by attributes.TEXT_OUTPUT)."""
    res = RuleResult("R-ALIASATTR")
    m = repo.mod("compiler/front_end/synthetics.py")
    fs = [f for f in m.top_funcs() if f.name == "_add_anonymous_aliases"]
    if not fs:
        raise AnalysisError("synthetics._add_anonymous_aliases not found")
    f = fs[0]
    loop = None
    for n in walk_no_nested_funcs(f.node):
        if isinstance(n, ast.For) and isinstance(n.target, ast.Name) and ast.unparse(n.iter).endswith("structure.field") \
                and any(isinstance(x, ast.Call) and (call_name(x) or "").endswith("ir_data.Field") for x in ast.walk(n)):
            loop = n
    if loop is None:
        raise AnalysisError("_add_anonymous_aliases: the loop creating one alias per member was not found")
    mem = loop.target.id
    alias = None
    for n in ast.walk(loop):
        if isinstance(n, ast.Assign) and isinstance(n.value, ast.Call) and (call_name(n.value) or "").endswith("ir_data.Field") \
                and isinstance(n.targets[0], ast.Name):
            alias = n.targets[0].id
            ctor = n.value
    if alias is None:
        raise AnalysisError("_add_anonymous_aliases: alias construction not found")
    body = ast.unparse(loop)
    res.instances = 3 if "carry" in clauses else 0
    if "carry" not in clauses:
        pass
    elif not any(k.arg == "name" and mem in ast.unparse(k.value) for k in ctor.keywords):
        res.add(f"{m.rel}|_add_anonymous_aliases|name", "the alias does not take the member's name", m.rel, ctor.lineno, f.name)
    if "carry" in clauses and not re.search(r"builder\(" + alias + r"\)\.abbreviation\.CopyFrom\(\s*" + mem + r"\.abbreviation", body):
        res.add(f"{m.rel}|_add_anonymous_aliases|abbreviation", "the alias does not take the member's abbreviation", m.rel, ctor.lineno, f.name)
    carried = False
    for n in ast.walk(loop):
        if isinstance(n, ast.For) and ast.unparse(n.iter) == f"{mem}.attribute":
            t = ast.unparse(n)
            if "TEXT_OUTPUT" in t and re.search(alias + r"\.attribute\.(append|extend)\(", t):
                carried = True
                # what is copied is a *synthetic* twin: anything wrong with it is reported a second time at a
                # synthetic location, which hides the group (a lookup that fails first on the twin leaves the
                # original unresolved -> AttributeError later) or, in the back end, prints `[compiler bug]`.  The
                # copy is therefore limited to what cannot be diagnosed: the core attribute (no back-end qualifier)
                # with a literal string value.
                if "attribute_clauses" in clauses:
                    res.instances += 2
                    guards = [ast.unparse(x.test) for x in ast.walk(n) if isinstance(x, ast.If) and "TEXT_OUTPUT" in ast.unparse(x.test)]
                    g = " ".join(guards)
                    if "back_end" not in g:
                        res.add(f"{m.rel}|_add_anonymous_aliases|copy-qualified", "a back-end-qualified `(cpp) text_output` on a member of an "
                                "anonymous bits is copied to the synthetic alias: the back end rejects both and prints the copy's error "
                                "at `[compiler bug]`", m.rel, n.lineno, f.name)
                    if "string_constant" not in g:
                        res.add(f"{m.rel}|_add_anonymous_aliases|copy-reference", "`[text_output: Foo.skipp]` (a reference instead of a string) "
                                "is copied to the synthetic alias: the failed lookup is reported on the copy only, the group is hidden and "
                                "the next pass dereferences the unresolved reference", m.rel, n.lineno, f.name)
    if not carried and "carry" in clauses:
        res.add(f"{m.rel}|_add_anonymous_aliases|text_output", f"the aliases created for the members of an anonymous bits do not inherit "
                f"`[text_output: ...]` from `{mem}.attribute`: `[text_output: \"Skip\"]` on such a member is accepted and ignored (the "
                "hidden bits field is skipped, the alias is printed)", m.rel, ctor.lineno, f.name)
    # the anonymous field itself: the pass appends a synthetic `[text_output: "Skip"]` to it.  A text_output the user
    # wrote there would be a duplicate whose error group mentions the synthetic twin (hidden; attribute_checker returns
    # before normalising and check_constraints crashes on the half-finished IR), so the pass has to report it itself:
    # the loop over the anonymous field's own attributes appends to `errors`.
    if "anonymous_own" in clauses:
        res.instances += 1
        outer = None
        for n in walk_no_nested_funcs(f.node):
            if isinstance(n, ast.For) and ast.unparse(n.iter).endswith("structure.field") and loop in list(ast.walk(n)) and n is not loop:
                outer = n
        own = False
        if outer is not None:
            fld = outer.target.id if isinstance(outer.target, ast.Name) else None
            for n in ast.walk(outer):
                if isinstance(n, ast.For) and fld and ast.unparse(n.iter) == f"{fld}.attribute" and "TEXT_OUTPUT" in ast.unparse(n) \
                        and "errors.append" in ast.unparse(n):
                    own = True
        if not own:
            res.add(f"{m.rel}|_add_anonymous_aliases|own-text_output", "a `[text_output: ...]` written at the top of an anonymous `bits:` body "
                    "collides with the synthetic Skip the pass adds: the duplicate-attribute group is hidden and "
                    "constraints._check_allowed_in_bits ends in TypeError; the pass must report the attribute itself",
                    m.rel, f.node.lineno, f.name)
    res.analysed = [m.rel]
    return res


def anonhome(repo):
    """R-ANONHOME (C16/C01): producer/consumer agreement on where the type of an anonymous `bits:` field lives.
    synthetics._add_anonymous_aliases looks the type up among the *subtypes of the type definition that holds the field*
    (`for subtype in type_definition.subtype`) and asserts that it finds it.  module_ir creates that type as a subtype of
    the enclosing body; any module_ir function that empties a body's subtype list to hoist the nested types outwards
    (`del body.subtype[:]`) must therefore keep the types referenced by the body's own anonymous fields (select by
    `.is_anonymous` and put them back with `body.subtype.extend(...)`)."""
    res = RuleResult("R-ANONHOME")
    syn = repo.mod("compiler/front_end/synthetics.py")
    cons = [f for f in syn.top_funcs() if f.name == "_add_anonymous_aliases"]
    if not cons or "type_definition.subtype" not in ast.unparse(cons[0].node):
        raise AnalysisError("synthetics._add_anonymous_aliases no longer searches type_definition.subtype")
    mi = repo.mod("compiler/front_end/module_ir.py")
    for f in mi.funcs.values():
        for n in walk_no_nested_funcs(f.node):
            if isinstance(n, ast.Delete) and any(isinstance(t, ast.Subscript) and isinstance(t.value, ast.Attribute) and t.value.attr == "subtype"
                                                 for t in n.targets):
                owner = ast.unparse(n.targets[0].value.value)
                res.instances += 1
                src = ast.unparse(f.node)
                keeps = ".is_anonymous" in src and re.search(re.escape(owner) + r"\.subtype\.(extend|append)\(", src)
                if not keeps:
                    res.add(f"{mi.rel}|{f.qualname}|hoists-anonymous-types", f"{f.qualname} moves every subtype of `{owner}` out "
                            f"(`{ast.unparse(n)}`) including the types of `{owner}`'s own anonymous bits fields; "
                            "synthetics._add_anonymous_aliases then cannot find the type next to its field: AssertionError on "
                            "`0 [+2] struct payload:` containing `0 [+2] bits:`", mi.rel, n.lineno, f.qualname)
    if res.instances < 1 and not res.findings:
        raise AnalysisError("module_ir: no function hoisting subtypes found")
    res.analysed = [mi.rel, syn.rel]
    return res


def leafcheck(repo):
    """R-LEAFCHECK (C16): a function that only looks at the *leaf kind* of the expression it is given (it returns at once
    unless the expression is a `builtin_reference`) says nothing about expressions nested below it.  Such a function
    checks a whole expression tree only when it is run as a traversal action over [Expression]; a direct call with the
    root (`field.location.size`) sees `$next + 1` as a function node and lets the nested `$next` through -- the
    replacement of the following field's `$next` then recurses until RecursionError."""
    res = RuleResult("R-LEAFCHECK")
    m = repo.mod("compiler/front_end/synthetics.py")
    leaf = set()
    for f in m.top_funcs():
        body = f.node.body
        first = next((st for st in body if not (isinstance(st, ast.Expr) and isinstance(st.value, ast.Constant))), None)
        params = [a.arg for a in f.node.args.args]
        if isinstance(first, ast.If) and params and any(isinstance(x, ast.Return) for x in first.body):
            t = ast.unparse(first.test)
            if "builtin_reference" in t and params[0] in t and "not" in t:
                leaf.add(f.name)
    if not leaf:
        raise AnalysisError("synthetics: no leaf-kind check (returns unless builtin_reference) found")
    for f in m.funcs.values():
        for n in walk_no_nested_funcs(f.node):
            if isinstance(n, ast.Call):
                cn = (call_name(n) or "")
                if cn in leaf:
                    res.instances += 1
                    res.add(f"{m.rel}|{f.qualname}|{cn}|direct-call", f"{f.qualname} calls {cn}({ast.unparse(n.args[0]) if n.args else ''}) "
                            "directly: the check only recognises a bare builtin reference, so a keyword nested in the expression "
                            "(`[+$next + 1]`) is not seen; it has to run as a traversal action over [Expression]", m.rel, n.lineno, f.qualname)
                elif cn.split(".")[-1].startswith("fast_traverse") and any(isinstance(a, ast.Name) and a.id in leaf for a in n.args):
                    res.instances += 1
                    pat = n.args[1] if len(n.args) > 1 else None
                    if not (isinstance(pat, ast.List) and pat.elts and ast.unparse(pat.elts[-1]).endswith("Expression")):
                        res.add(f"{m.rel}|{f.qualname}|pattern", f"{f.qualname} runs a leaf check over pattern {ast.unparse(pat) if pat else '?'}, "
                                "not over [Expression]", m.rel, n.lineno, f.qualname)
    if res.instances < 2 and not res.findings:
        raise AnalysisError(f"only {res.instances} uses of the leaf checks {sorted(leaf)} found")
    res.samples = [f"leaf checks: {sorted(leaf)}"]
    res.analysed = [m.rel]
    return res


def skelmut(repo):
    """R-SKELMUT (C17): the expression skeletons of synthetics.py (`NAME = expression_parser.parse("...")`, or a dict of
    them) are created once per process.  A use that goes through `ir_data_utils.copy(SKEL)` is private to the call;
    a use that puts the skeleton itself into a freshly built holder (`ir_data.Field(read_transform=SKEL[name])`) shares
    it with every later call.  For such a shared use the only write that keeps compilation a function of its inputs is
    an idempotent marker (a function whose stores assign constants only -- `_mark_as_synthetic`) that runs *before* the
    holder is copied into the IR (repeated IR fields copy on insert): written after the insert, the first structure of
    a process gets the unmarked skeleton and every later one the marked one.  Decided per function, in statement order
    of the enclosing block."""
    res = RuleResult("R-SKELMUT")
    m = repo.mod(SYN)

    def is_parse(v):
        return isinstance(v, ast.Call) and (call_name(v) or "").endswith(".parse")
    skels = set()
    for name, vals in m.assigns.items():
        v = vals[-1]
        if is_parse(v) or (isinstance(v, ast.Dict) and v.values and all(is_parse(x) for x in v.values)) or \
                (isinstance(v, (ast.List, ast.Tuple)) and v.elts and all(is_parse(x) for x in v.elts)):
            skels.add(name)
    if len(skels) < 4:
        raise AnalysisError(f"synthetics: only {len(skels)} module-level skeletons found")
    # idempotent markers: functions of the module whose stores (transitively through self calls) assign constants only
    funcs = {f.name: f for f in m.top_funcs()}

    def const_only(f, seen=()):
        ok = False
        for n in walk_no_nested_funcs(f.node):
            if isinstance(n, (ast.Assign, ast.AugAssign)):
                tg = n.targets if isinstance(n, ast.Assign) else [n.target]
                for t in tg:
                    if isinstance(t, (ast.Attribute, ast.Subscript)):
                        replace_const = isinstance(n, ast.Assign) and isinstance(n.value, ast.Call) and isinstance(n.value.func, ast.Attribute) \
                            and n.value.func.attr == "_replace" and not n.value.args and n.value.keywords \
                            and all(isinstance(k.value, ast.Constant) for k in n.value.keywords)
                        if isinstance(n, ast.AugAssign) or not (isinstance(n.value, ast.Constant) or replace_const):
                            return False
                        ok = True
            elif isinstance(n, ast.Call):
                cn = call_name(n) or ""
                if cn.endswith(("CopyFrom", ".extend", ".append", ".update", ".clear", ".pop", ".insert")):
                    return False
                if cn in funcs and cn != f.name and cn not in seen:
                    if not const_only(funcs[cn], seen + (f.name,)):
                        return False
        return ok
    markers = {n for n, f in funcs.items() if const_only(f)}

    def mentions(e, names):
        return any(isinstance(x, ast.Name) and x.id in names for x in ast.walk(e))

    def is_copy(call):
        cn = call_name(call) or ""
        return cn.endswith((".copy", "deepcopy", ".CopyFrom")) or cn == "copy"
    for f in m.top_funcs():
        for n in walk_no_nested_funcs(f.node):
            if not (isinstance(n, ast.Name) and n.id in skels and isinstance(n.ctx, ast.Load)):
                continue
            res.instances += 1
            # climb to the statement; a copy call on the way makes the use private
            private = False
            holder = None
            node = n
            stmt = None
            while node is not None and node is not f.node:
                parent = m.parent(node)
                if isinstance(parent, ast.Call) and is_copy(parent) and node in parent.args:
                    private = True
                if isinstance(parent, ast.stmt):
                    stmt = parent
                    break
                node = parent
            if private or stmt is None:
                continue
            if isinstance(stmt, ast.Assign) and len(stmt.targets) == 1 and isinstance(stmt.targets[0], ast.Name):
                holder = stmt.targets[0].id
            elif isinstance(stmt, (ast.For, ast.If, ast.While, ast.Return, ast.Assert, ast.Expr)) and not isinstance(stmt, ast.Expr):
                # read-only uses: iteration over the table, membership tests
                if isinstance(stmt, ast.Return):
                    res.add(f"{m.rel}|{f.name}|{n.id}|return", f"{f.name} returns the module-level skeleton `{n.id}` itself (no copy): "
                            "callers share one object across compilations", m.rel, stmt.lineno, f.name)
                continue
            if holder is None:
                # skeleton handed directly to a call statement
                if isinstance(stmt, ast.Expr) and isinstance(stmt.value, ast.Call) and (call_name(stmt.value) or "") not in markers:
                    res.add(f"{m.rel}|{f.name}|{n.id}|direct", f"{f.name}: `{ast.unparse(stmt)[:80]}` hands the module-level skeleton "
                            f"`{n.id}` to code that may write to it", m.rel, stmt.lineno, f.name)
                continue
            # the holder shares the skeleton: look at the rest of the block in order
            block = None
            for b in ast.walk(f.node):
                for fld in ("body", "orelse", "finalbody"):
                    if isinstance(getattr(b, fld, None), list) and stmt in getattr(b, fld):
                        block = getattr(b, fld)
            rest = block[block.index(stmt) + 1:] if block else []
            inserted_at = None
            holders = {holder}
            for st in rest:
                # views of the holder (`b = ir_data_utils.builder(h)`, `x = h.function`) reach the same skeleton
                if isinstance(st, ast.Assign) and len(st.targets) == 1 and isinstance(st.targets[0], ast.Name) \
                        and mentions(st.value, holders) and not (isinstance(st.value, ast.Call) and is_copy(st.value)):
                    holders.add(st.targets[0].id)
                    continue
                for c in ast.walk(st):
                    if not isinstance(c, ast.Call):
                        continue
                    cn = call_name(c) or (c.func.attr if isinstance(c.func, ast.Attribute) else "")
                    args_m = any(mentions(a, holders) for a in c.args) or any(mentions(k.value, holders) for k in c.keywords)
                    recv_m = isinstance(c.func, ast.Attribute) and mentions(c.func.value, holders)
                    if cn in markers and args_m:
                        if inserted_at is not None:
                            res.add(f"{m.rel}|{f.name}|{n.id}|mark-after-insert", f"{f.name}: `{ast.unparse(c)[:70]}` marks the shared skeleton "
                                    f"`{n.id}` (held by `{holder}` without a copy) after `{holder}` was copied into the IR at line "
                                    f"{inserted_at}: the first structure compiled in a process gets the unmarked expression, later ones "
                                    "the marked one -- output depends on what was compiled before", m.rel, c.lineno, f.name)
                        continue
                    if args_m and cn.split(".")[-1] in ("extend", "append", "insert", "CopyFrom") or (args_m and is_copy(c)):
                        if inserted_at is None:
                            inserted_at = c.lineno
                        continue
                    if recv_m and cn.split(".")[-1] in ("CopyFrom", "extend", "append", "insert", "clear", "pop", "update"):
                        res.add(f"{m.rel}|{f.name}|{n.id}|write", f"{f.name}: `{ast.unparse(c)[:70]}` writes call-dependent data through "
                                f"`{holder}`, which holds the module-level skeleton `{n.id}` without a copy", m.rel, c.lineno, f.name)
                    elif args_m and cn in funcs and cn not in markers and not const_only(funcs[cn]) and any(
                            isinstance(x, (ast.Assign, ast.AugAssign)) for x in ast.walk(funcs[cn].node)):
                        pass  # helper functions that read the holder: not decided here
                for c in ast.walk(st):
                    if isinstance(c, (ast.Assign, ast.AugAssign)):
                        tg = c.targets if isinstance(c, ast.Assign) else [c.target]
                        for t in tg:
                            if isinstance(t, (ast.Attribute, ast.Subscript)) and mentions(t, holders) and not isinstance(t, ast.Name):
                                root = t
                                while isinstance(root, (ast.Attribute, ast.Subscript)):
                                    root = root.value
                                if isinstance(root, ast.Name) and root.id == holder and isinstance(t, ast.Attribute) and isinstance(t.value, ast.Name) \
                                        and not (isinstance(stmt.value, (ast.Name, ast.Subscript))):
                                    continue  # holder.x = ...: rebinding a member of the fresh holder, not a write into the skeleton
                                res.add(f"{m.rel}|{f.name}|{n.id}|store", f"{f.name}: `{ast.unparse(c)[:70]}` stores into the module-level "
                                        f"skeleton `{n.id}` reached through `{holder}`", m.rel, c.lineno, f.name)
    if res.instances < 5 and not res.findings:
        raise AnalysisError(f"only {res.instances} uses of module-level skeletons recognised")
    res.detail = {"skeletons": sorted(skels), "markers": sorted(markers)}
    res.analysed = [m.rel]
    return res


def nextprev(repo):
    """R-NEXTPREV (C01): `$next` is the end of the previous *physical* field, present at run time or not (language
    reference).  In the function that replaces `$next`, the loop over the structure's fields carries the previous
    location in a variable that is handed to the replacement as `last_location`; that variable is updated from
    `field.location` by a direct statement of the loop body (after the `continue` for virtual fields), not under any
    further condition on the field -- a conditional update makes `$next` skip some physical fields."""
    res = RuleResult("R-NEXTPREV")
    m = repo.mod(SYN)
    found = 0
    for f in m.top_funcs():
        for lp in [n for n in walk_no_nested_funcs(f.node) if isinstance(n, ast.For)]:
            carried = None
            for c in ast.walk(lp):
                if isinstance(c, ast.Dict):
                    for k, v in zip(c.keys, c.values):
                        if isinstance(k, ast.Constant) and k.value == "last_location" and isinstance(v, ast.Name):
                            carried = v.id
            if carried is None:
                continue
            found += 1
            res.instances += 1
            loopvar = lp.target.id if isinstance(lp.target, ast.Name) else None
            updates = [n for n in ast.walk(lp) if isinstance(n, ast.Assign) and any(isinstance(t, ast.Name) and t.id == carried for t in n.targets)]
            direct = [u for u in updates if u in lp.body and ast.unparse(u.value) == f"{loopvar}.location"]
            if len(direct) != 1 or len(updates) != 1:
                where = updates[0] if updates else lp
                par = m.parent(where) if updates else None
                cond = f" under `{ast.unparse(par.test)[:60]}`" if isinstance(par, ast.If) else ""
                res.add(f"{SYN}|{f.name}|{carried}", f"{f.name}: `{carried}` (handed to the replacement of `$next` as last_location) is "
                        f"updated {len(updates)} time(s){cond}, not once and unconditionally from `{loopvar}.location` in the loop body: "
                        "`$next` then continues from a field other than the previous physical one (fields inside `if` blocks are "
                        "skipped, later fields overlap them and $size_in_bytes is too small)", SYN, where.lineno, f.name)
            else:
                # the only way past the update for a physical field is an error return
                res.samples.append(f"{f.name}: {carried} = {loopvar}.location at line {direct[0].lineno}")
    if not found:
        raise AnalysisError("synthetics: the loop that hands `last_location` to the `$next` replacement was not found")
    res.analysed = [SYN]
    return res
