"""R-PIPE, R-PASSRET, R-VALIDATORS, R-NAMEDKINDS, R-GATE, R-DEPTWIN."""
from __future__ import annotations

import ast
import re

from ..irschema import Schema
from ..pyfacts import Func, Repo, call_name, dotted_name, walk_no_nested_funcs
from ..report import AnalysisError, RuleResult
from . import traversal as T

GLUE = "compiler/front_end/glue.py"

# Confirmed pass order (glue.process_ir) with the reason each pass must follow its predecessors.
PASS_ORDER = [
    ("desugar", "synthesised fields/$next replacement must exist before names are tabled"),
    ("resolve_symbols", "dependency extraction and everything later is keyed by canonical names"),
    ("find_dependency_cycles", "later passes recurse through references and do not terminate on cycles"),
    ("set_dependency_order", "ordering assumes an acyclic graph"),
    ("resolve_field_references", "member lookup follows aliases; needs cycle-free virtual fields"),
    ("annotate_types", "needs resolved references"),
    ("check_types", "positional requirements read the annotations"),
    ("check_early_constraints", "parameter types must be known before bounds are computed"),
    ("compute_constants", "bounds recursion relies on type-correct expressions"),
    ("normalize_and_verify", "attribute defaults/validation read constant values"),
    ("check_constraints", "constraints read normalised attributes and bounds"),
    ("set_write_methods", "synthesises $logical_value expressions no earlier pass may see"),
]


def find_passes(repo):
    """Locates the function holding the tuple of pass functions; returns (Func, [Func], assign)."""
    m = repo.mod(GLUE)
    best = None
    for f in m.top_funcs():
        for n in walk_no_nested_funcs(f.node):
            if isinstance(n, ast.Assign) and isinstance(n.value, (ast.Tuple, ast.List)) and len(n.value.elts) >= 5:
                fs = [repo.resolve(m, e, f) for e in n.value.elts]
                if all(isinstance(x, Func) for x in fs):
                    best = (f, fs, n)
    if best is None:
        raise AnalysisError("glue.py: the tuple of pass functions was not found")
    return best


def pipe(repo):
    res = RuleResult("R-PIPE")
    m = repo.mod(GLUE)
    f, passes, assign = find_passes(repo)
    names = [p.name for p in passes]
    res.detail["passes"] = names
    # order
    known = [n for n, _ in PASS_ORDER]
    idx = {n: i for i, n in enumerate(names)}
    for i, (a, _) in enumerate(PASS_ORDER):
        res.instances += 1
        if a not in idx:
            res.add(f"glue|missing|{a}", f"pass {a} is no longer in the pipeline tuple", m.rel, assign.lineno, f.name)
            continue
        for b, why in PASS_ORDER[i + 1:]:
            if b in idx and idx[b] < idx[a]:
                res.add(f"glue|order|{a}<{b}", f"pass {b} runs before {a}: {why}", m.rel, assign.lineno, f.name)
    dup = {n for n in names if names.count(n) > 1}
    # loop discipline
    var = assign.targets[0].id if isinstance(assign.targets[0], ast.Name) else None
    loop = None
    for n in walk_no_nested_funcs(f.node):
        if isinstance(n, ast.For) and isinstance(n.iter, ast.Name) and n.iter.id == var:
            loop = n
    res.instances += 4
    if loop is None:
        res.add("glue|loop", "no loop over the pass tuple found", m.rel, f.line, f.name)
        return res
    fvar = loop.target.id if isinstance(loop.target, ast.Name) else None
    split = None
    for st in loop.body:
        if isinstance(st, ast.Assign) and isinstance(st.value, ast.Call) and (call_name(st.value) or "").endswith("split_errors"):
            inner = st.value.args[0] if st.value.args else None
            if isinstance(inner, ast.Call) and isinstance(inner.func, ast.Name) and inner.func.id == fvar \
                    and isinstance(st.targets[0], ast.Tuple) and len(st.targets[0].elts) == 2:
                split = st
    if split is None:
        res.add("glue|split", "pass results are not routed through error.split_errors(function(ir)) into "
                "(errors, hidden_errors)", m.rel, loop.lineno, f.name)
        return res
    evar, hvar = (e.id for e in split.targets[0].elts)
    after = loop.body[loop.body.index(split) + 1:]
    early = False
    deferred = None
    for st in after:
        if isinstance(st, ast.If) and isinstance(st.test, ast.Name) and st.test.id == evar:
            r = st.body[0] if st.body else None
            if isinstance(r, ast.Return) and isinstance(r.value, ast.Tuple) and len(r.value.elts) == 2 \
                    and isinstance(r.value.elts[0], ast.Constant) and r.value.elts[0].value is None \
                    and isinstance(r.value.elts[1], ast.Name) and r.value.elts[1].id == evar:
                early = True
        if isinstance(st, ast.Expr) and isinstance(st.value, ast.Call) and isinstance(st.value.func, ast.Attribute) \
                and st.value.func.attr == "extend" and st.value.args and isinstance(st.value.args[0], ast.Name) \
                and st.value.args[0].id == hvar:
            deferred = dotted_name(st.value.func.value)
    if not early:
        res.add("glue|early-exit", "user-visible errors of a pass do not end the pipeline with (None, errors) "
                "before the next pass runs", m.rel, loop.lineno, f.name)
    if deferred is None:
        res.add("glue|defer", "hidden (synthetic) errors are not accumulated", m.rel, loop.lineno, f.name)
    else:
        ok = False
        body = f.node.body
        li = body.index(loop) if loop in body else None
        for st in (body[li + 1:] if li is not None else []):
            if isinstance(st, ast.If) and isinstance(st.test, ast.Name) and st.test.id == deferred:
                r = st.body[0] if st.body else None
                if isinstance(r, ast.Return) and isinstance(r.value, ast.Tuple) and isinstance(r.value.elts[0], ast.Constant) \
                        and r.value.elts[0].value is None and isinstance(r.value.elts[1], ast.Name) and r.value.elts[1].id == deferred:
                    ok = True
        if not ok:
            res.add("glue|deferred-return", "deferred synthetic errors are not returned as (None, deferred) after the "
                    "loop: an IR with only synthetic errors would be accepted", m.rel, f.line, f.name)
    res.samples = [" < ".join(names)]
    res.analysed = [m.rel]
    return res


# ---------------------------------------------------------------------------------------
class ListTyping:
    def __init__(self, repo):
        self.repo = repo
        self.memo = {}

    def func_returns_list(self, f: Func, index=None):
        key = (f.fq, index)
        if key in self.memo:
            return self.memo[key]
        self.memo[key] = (True, None)  # optimistic for recursion
        bad = None
        rets = [n for n in walk_no_nested_funcs(f.node) if isinstance(n, ast.Return)]
        if T._can_fall_off(f.node.body):
            bad = (f.node.lineno, "a path falls off the end (returns None)")
        for r in rets:
            if bad:
                break
            v = r.value
            if v is None:
                bad = (r.lineno, "bare return")
                break
            if index is not None:
                if isinstance(v, ast.Tuple) and len(v.elts) > index:
                    v = v.elts[index]
                else:
                    bad = (r.lineno, "not a tuple literal")
                    break
            ok, why = self.expr_is_list(f, v)
            if not ok:
                bad = (r.lineno, why)
        self.memo[key] = (bad is None, bad)
        return self.memo[key]

    def expr_is_list(self, f, v, depth=0):
        m = f.module
        if isinstance(v, (ast.List, ast.ListComp)):
            return True, None
        if isinstance(v, ast.BinOp) and isinstance(v.op, ast.Add):
            a, wa = self.expr_is_list(f, v.left, depth)
            b, wb = self.expr_is_list(f, v.right, depth)
            return (a and b), (wa or wb)
        if isinstance(v, ast.Call):
            if isinstance(v.func, ast.Name) and v.func.id in ("list", "sorted"):
                return True, None
            r = self.repo.resolve(m, v.func, f)
            if isinstance(r, Func):
                ok, bad = self.func_returns_list(r)
                return ok, (None if ok else f"{r.name} may return a non-list ({bad[1]} at line {bad[0]})")
            return False, f"call to {ast.unparse(v.func)} is not resolvable"
        if isinstance(v, ast.Name):
            if depth > 3:
                return False, "assignment chain too deep"
            assigns = []
            for n in walk_no_nested_funcs(f.node):
                if isinstance(n, ast.Assign):
                    for t in n.targets:
                        if isinstance(t, ast.Name) and t.id == v.id:
                            assigns.append(("val", n.value))
                        elif isinstance(t, ast.Tuple):
                            for i, e in enumerate(t.elts):
                                if isinstance(e, ast.Name) and e.id == v.id:
                                    assigns.append(("idx", n.value, i))
                elif isinstance(n, ast.AugAssign) and isinstance(n.target, ast.Name) and n.target.id == v.id:
                    assigns.append(("val", n.value))
                elif isinstance(n, ast.NamedExpr) and n.target.id == v.id:
                    assigns.append(("val", n.value))
            if not assigns:
                return False, f"{v.id} is never assigned in {f.name}"
            for a in assigns:
                if a[0] == "val":
                    ok, why = self.expr_is_list(f, a[1], depth + 1)
                else:
                    call = a[1]
                    if isinstance(call, ast.Call):
                        r = self.repo.resolve(m, call.func, f)
                        if isinstance(r, Func):
                            ok, bad = self.func_returns_list(r, a[2])
                            why = None if ok else f"{r.name} element {a[2]}: {bad[1]}"
                        else:
                            ok, why = False, "unresolvable call in tuple assignment"
                    elif isinstance(call, ast.Tuple) and len(call.elts) > a[2]:
                        ok, why = self.expr_is_list(f, call.elts[a[2]], depth + 1)
                    else:
                        ok, why = False, "opaque tuple assignment"
                if not ok:
                    return False, why
            return True, None
        if isinstance(v, ast.IfExp):
            a, wa = self.expr_is_list(f, v.body, depth)
            b, wb = self.expr_is_list(f, v.orelse, depth)
            return (a and b), (wa or wb)
        return False, f"expression {ast.unparse(v)[:40]} is not list-typed"


def passret(repo):
    res = RuleResult("R-PASSRET")
    _, passes, _ = find_passes(repo)
    lt = ListTyping(repo)
    for p in passes:
        res.instances += 1
        ok, bad = lt.func_returns_list(p)
        if not ok:
            res.add(f"{p.file}|{p.name}", f"pass {p.name} does not return a list on every path: {bad[1]} "
                    "(error.split_errors would raise TypeError)", p.file, bad[0], p.name)
    res.samples = [p.fq for p in passes[:3]]
    res.analysed = sorted({p.file for p in passes})
    return res


# ---------------------------------------------------------------------------------------
VALIDATOR_PREFIXES = ("_check_", "_verify_", "_type_check_")
VALIDATOR_MODULES = {
    "compiler/front_end/constraints.py": 15,
    "compiler/front_end/attribute_checker.py": 6,
    "compiler/front_end/type_check.py": 14,
}


def validators(repo):
    """Every module-level validator function of a pass module is reachable from the pipeline."""
    res = RuleResult("R-VALIDATORS")
    reach, _ = repo.reachable_funcs()
    _, passes, _ = find_passes(repo)
    # reachability restricted to the pass entry points
    refs = repo.refs()
    seen = set()
    work = [p.fq for p in passes]
    hg = repo.mod("compiler/back_end/cpp/header_generator.py")
    if "generate_header" in hg.funcs:
        work.append(hg.funcs["generate_header"].fq)
    while work:
        k = work.pop()
        if k in seen:
            continue
        seen.add(k)
        for f in refs.get(k, ()):
            work.append(f.fq)
    for rel, floor in VALIDATOR_MODULES.items():
        m = repo.mod(rel)
        n = 0
        for f in m.top_funcs():
            if f.name.startswith(VALIDATOR_PREFIXES):
                n += 1
                res.instances += 1
                if f.fq not in seen:
                    res.add(f"{rel}|{f.name}", f"validator {f.name} is not reachable from any compiler pass "
                            "(its rule is no longer enforced)", rel, f.line, f.name)
        res.detail[rel] = n
        if n < floor:
            raise AnalysisError(f"{rel}: only {n} validator functions found, floor {floor}")
    # back-end verifiers
    n = 0
    for f in hg.top_funcs():
        if f.name.startswith(("_verify_", "_check_")):
            n += 1
            res.instances += 1
            if f.fq not in seen:
                res.add(f"{hg.rel}|{f.name}", f"back-end validator {f.name} is not reachable from generate_header",
                        hg.rel, f.line, f.name)
    res.samples = ["constraints._check_size_of_bits reachable via check_constraints traversal"]
    res.analysed = list(VALIDATOR_MODULES) + [hg.rel]
    return res


# ---------------------------------------------------------------------------------------
def named_kinds(schema):
    """Node kinds that carry a NameDefinition field called `name`."""
    return sorted(c for c, fs in schema.classes.items()
                  if "name" in fs and fs["name"].type == "NameDefinition")


_LOCFLAGS_CTL = '''
def shown(message):
    return not (message.location and message.location.is_synthetic)
def hidden(loc):
    if loc:
        return loc.is_synthetic
    return False
'''


def locflags(repo, modules=None):
    """R-LOCFLAGS (C16): SourceLocation.__bool__ looks at the coordinates only, and the flags are independent of them --
    the location of a synthesized node is `0:0-0:0*`: false, and synthetic.  A read of `.is_synthetic` /
    `.is_disjoint_from_parent` that is conditional on the truth of the same location therefore reads False exactly for
    the locations that the flag exists for; diagnostics on synthesized nodes are then shown to the user at
    `file:[compiler bug]`."""
    res = RuleResult("R-LOCFLAGS")
    pt = repo.mod("compiler/util/parser_types.py")
    b = pt.funcs.get("SourceLocation.__bool__")
    if b is None:
        raise AnalysisError("parser_types: SourceLocation.__bool__ vanished")
    if "is_synthetic" in pt.seg(b.node).split("return", 1)[-1]:
        res.samples.append("SourceLocation.__bool__ now looks at the flags as well: rule is moot")
        res.instances = 1
        return res
    mods = modules if modules is not None else [m for m in repo.modules.values()
                                                if m.rel.startswith("compiler/") and not m.rel.endswith("_test.py")]
    FLAGS = ("is_synthetic", "is_disjoint_from_parent")
    for m in mods:
        for n in ast.walk(m.tree):
            if not (isinstance(n, ast.Attribute) and n.attr in FLAGS and isinstance(n.ctx, ast.Load)):
                continue
            base = ast.unparse(n.value)
            if base in ("self",):
                continue
            res.instances += 1
            cur, why = n, None
            while cur is not None and why is None:
                par = m.parent(cur)
                if isinstance(par, ast.BoolOp) and isinstance(par.op, ast.And):
                    idx = par.values.index(cur) if cur in par.values else -1
                    if any(ast.unparse(v) == base for v in par.values[:max(idx, 0)]):
                        why = ast.unparse(par)
                if isinstance(par, (ast.If, ast.IfExp)) and cur is not par.test and ast.unparse(par.test) == base \
                        and (cur in getattr(par, "body", []) or cur is getattr(par, "body", None)):
                    why = f"if {base}: ..."
                if isinstance(par, (ast.FunctionDef, ast.Module)):
                    break
                cur = par
            if why:
                f = m.enclosing_func(n)
                res.add(f"{m.rel}|{f.qualname if f else ''}|{n.attr}", f"`{why[:80]}` reads {n.attr} only when the location has "
                        "coordinates; SourceLocation.__bool__ ignores the flags, so a synthesized node (0:0-0:0*) counts as not "
                        "synthetic and its diagnostics are shown to the user at `[compiler bug]`", m.rel, n.lineno,
                        f.qualname if f else "")
    return res


def control_locflags(repo):
    r2 = Repo(repo.root, overlay={"compiler/front_end/zz_verif_control.py": _LOCFLAGS_CTL})
    g = locflags(r2, [r2.mod("compiler/front_end/zz_verif_control.py")])
    return len(g.findings) == 2


def namedkinds(repo, schema=None, sites=None):
    res = RuleResult("R-NAMEDKINDS")
    schema = schema or Schema(repo)
    sites = sites if sites is not None else T.collect_sites(repo, schema)
    kinds = named_kinds(schema)
    if len(kinds) < 4:
        raise AnalysisError(f"only {kinds} carry a NameDefinition")
    res.detail["kinds"] = kinds

    def covered_by(pred):
        cov = {}
        for s in sites:
            if s.pattern and s.action and pred(s):
                cov.setdefault(s.pattern[-1], []).append(s)
        return cov

    # (a) reserved-word checking: actions whose call graph reaches a function that consults the
    # reserved-word list
    cons = repo.mod("compiler/front_end/constraints.py")
    refs = repo.refs()
    rw_funcs = set()
    for f in cons.funcs.values():
        src = cons.seg(f.node)
        if "get_reserved_word_list" in src and f.name != "get_reserved_word_list":
            rw_funcs.add(f.fq)
    if not rw_funcs:
        raise AnalysisError("constraints.py: no function consults get_reserved_word_list()")

    def reaches(f, targets, seen=None):
        seen = seen if seen is not None else set()
        if f.fq in targets:
            return True
        if f.fq in seen:
            return False
        seen.add(f.fq)
        return any(reaches(g, targets, seen) for g in refs.get(f.fq, ()))

    cov = covered_by(lambda s: s.module.rel == cons.rel and reaches(s.action, rw_funcs))
    for k in kinds:
        res.instances += 1
        if k not in cov:
            res.add(f"reserved-words|{k}", f"reserved-word check is registered for {sorted(cov)} but not for "
                    f"{k}: a {k} named with a reserved word (e.g. 'class') is accepted and the generated "
                    "header does not compile", cons.rel, 0, "check_constraints")
    # (a') the reserved-word check is reached on every path of the registered action: no
    # conditional exit (return/raise/continue) precedes the call that leads to the list
    def must_call(f, seen=None):
        seen = seen if seen is not None else set()
        if f.fq in rw_funcs:
            return True, None
        if f.fq in seen:
            return False, None
        seen.add(f.fq)
        by_name = {g.name: g for g in refs.get(f.fq, ())}
        for st in f.node.body:
            if isinstance(st, (ast.Return, ast.Expr, ast.Assign)):
                for c in ast.walk(st):
                    if isinstance(c, ast.Call) and (call_name(c) or "").split(".")[-1] in by_name:
                        g = by_name[(call_name(c) or "").split(".")[-1]]
                        if reaches(g, rw_funcs):
                            ok, why = must_call(g, seen)
                            if ok:
                                return True, None
                            return False, why
            for c in ast.walk(st):
                if isinstance(c, (ast.Return, ast.Raise, ast.Continue)):
                    return False, (f, c)
            if isinstance(st, (ast.If, ast.For, ast.While, ast.Try)) and any(
                    isinstance(c, ast.Call) and (call_name(c) or "").split(".")[-1] in by_name
                    and reaches(by_name[(call_name(c) or "").split(".")[-1]], rw_funcs) for c in ast.walk(st)):
                return False, (f, st)
        return False, (f, f.node)

    for k in kinds:
        for s in cov.get(k, ()):
            res.instances += 1
            ok, why = must_call(s.action)
            if not ok:
                wf, wn = why if why else (s.action, s.action.node)
                res.add(f"reserved-words-total|{k}|{s.action.name}", f"the reserved-word check registered for {k} "
                        f"({s.action.name}) does not reach the reserved-word list on every path: "
                        f"`{ast.unparse(wn).splitlines()[0][:80]}` in {wf.name} leaves first, so some {k} names are never checked",
                        cons.rel, getattr(wn, "lineno", 0), wf.name)
    # (b) symbol-table registration in symbol_resolver: traversals that add names to a scope
    sr = repo.mod("compiler/front_end/symbol_resolver.py")
    add_funcs = {f.fq for f in sr.funcs.values() if f.name in ("_add_name_to_scope", "_add_name_to_scope_and_normalize")}
    if not add_funcs:
        raise AnalysisError("symbol_resolver.py: _add_name_to_scope vanished")
    cov = covered_by(lambda s: s.module.rel == sr.rel and reaches(s.action, add_funcs))
    for k in kinds:
        res.instances += 1
        if k not in cov:
            res.add(f"symbol-table|{k}", f"no symbol-table registration traversal for {k} "
                    f"(registered: {sorted(cov)})", sr.rel, 0, "_construct_symbol_tables")
    # (c) dependency naming: incidental actions named _add_name_to_dependencies for value-bearing kinds
    dc = repo.mod("compiler/front_end/dependency_checker.py")
    value_kinds = [k for k in kinds if k != "TypeDefinition"]
    for s in sites:
        if s.module.rel != dc.rel or not s.pattern:
            continue
        named = {t for t, fs in s.incidental.items() if any(f is not None and "name" in f.name for f in fs)}
        if not named:
            continue
        res.instances += 1
        for k in value_kinds:
            if k not in named:
                res.add(f"dependency-naming|{s.pattern[-1]}|{k}", f"dependency traversal over {s.pattern} names the "
                        f"dependent object for {sorted(named)} but not for {k}: references inside a {k} are "
                        "attributed to nothing and its cycles go undetected", dc.rel, s.call.lineno,
                        s.func.qualname if s.func else "")
    res.samples = [f"kinds={kinds}"]
    res.analysed = [cons.rel, sr.rel, dc.rel]
    return res


# ---------------------------------------------------------------------------------------
def gate(repo, schema=None, sites=None):
    """The 64-bit range gate: registered over [Expression], exempting only EnumValue subtrees
    and [static_requirements]; recursion into arguments of non-constant functions."""
    res = RuleResult("R-GATE")
    schema = schema or Schema(repo)
    sites = sites if sites is not None else T.collect_sites(repo, schema)
    cons = repo.mod("compiler/front_end/constraints.py")
    refs = repo.refs()
    # the per-expression gate function: it takes an expression, mentions the 64-bit limit and the bounds, and calls itself
    # on sub-expressions.  Other checks that merely *use* the 64-bit predicates (the end-of-field check) are not the gate.
    core = [f for f in cons.top_funcs() if "64-bit" in cons.seg(f.node) and "minimum_value" in cons.seg(f.node)
            and f.node.args.args and f.node.args.args[0].arg == "expression"
            and any(isinstance(n, ast.Call) and call_name(n) == f.name for n in walk_no_nested_funcs(f.node))]
    if len(core) != 1:
        raise AnalysisError(f"constraints.py: 64-bit gate function not identified ({[f.name for f in core]})")
    core = core[0]
    gate_sites = [s for s in sites if s.module.rel == cons.rel and s.action is not None
                  and (s.action is core or core in refs.get(s.action.fq, ()))]
    res.instances += 1
    if not gate_sites:
        res.add("gate|unregistered", f"{core.name} is not registered as a traversal action: the 64-bit range "
                "gate is never applied", cons.rel, core.line, core.name)
        return res
    s = gate_sites[0]
    res.samples = [{"site": s.where, "pattern": s.pattern, "skip": sorted(s.skip or []), "action": s.action.name}]
    res.instances += 3
    if s.pattern != ["Expression"]:
        res.add("gate|pattern", f"gate traversal pattern is {s.pattern}, not every Expression position",
                cons.rel, s.call.lineno)
    extra = (s.skip or set()) - {"EnumValue", "Expression"}
    if extra:
        res.add("gate|skip", f"gate traversal additionally skips {sorted(extra)}: run-time expressions under "
                "those nodes are never range-checked", cons.rel, s.call.lineno)
    # exemptions inside the action: only static_requirements
    act_src = cons.seg(s.action.node)
    early_returns = [n for n in walk_no_nested_funcs(s.action.node) if isinstance(n, ast.Return)]
    for r in early_returns:
        p = cons.parent(r)
        if isinstance(p, ast.If):
            cond = ast.unparse(p.test)
            if "STATIC_REQUIREMENTS" not in cond:
                res.add("gate|exemption", f"gate action skips expressions when '{cond}'", cons.rel, r.lineno, s.action.name)
    # recursion into sub-expressions
    csrc = cons.seg(core.node)
    res.instances += 1
    if f"{core.name}(" not in csrc.split("\n", 1)[1]:
        res.add("gate|recursion", f"{core.name} no longer recurses into sub-expressions", cons.rel, core.line, core.name)
    # the core verdict function gives up early only with errors: `return []` (no error) must be its last statement,
    # every other return hands back a non-empty error value
    res.instances += 3
    last = core.node.body[-1]
    for n in walk_no_nested_funcs(core.node):
        if isinstance(n, ast.Return) and n is not last:
            v = n.value
            guarded = False
            p = cons.parent(n)
            if isinstance(v, ast.Name) and isinstance(p, ast.If) and isinstance(p.test, ast.Name) and p.test.id == v.id and n in p.body:
                guarded = True
            if isinstance(v, ast.List) and v.elts:
                guarded = True
            if not guarded:
                res.add("gate|early-ok", f"{core.name} returns `{ast.unparse(v) if v else 'None'}` before all of its checks ran: "
                        "some expressions are declared in range without being examined", cons.rel, n.lineno, core.name)
    if not (isinstance(last, ast.Return) and isinstance(last.value, ast.List) and not last.value.elts):
        res.add("gate|final", f"{core.name} does not end in `return []`", cons.rel, core.line, core.name)
    csrc2 = " ".join(csrc.split())
    if "_integer_bounds_errors(" not in csrc2:
        res.add("gate|range", f"{core.name} no longer checks the expression's own range", cons.rel, core.line, core.name)
    if "[expression] + list(expression.function.args)" not in csrc2:
        res.add("gate|operands", f"{core.name} no longer checks that an operator and all its operands fit one 64-bit type",
                cons.rel, core.line, core.name)
    res.analysed = [cons.rel]
    return res


def deptwin(repo, schema=None, sites=None):
    """Cycle detection and ordering use the same FieldReference dependency traversal."""
    res = RuleResult("R-DEPTWIN")
    schema = schema or Schema(repo)
    sites = sites if sites is not None else T.collect_sites(repo, schema)
    dc = repo.mod("compiler/front_end/dependency_checker.py")
    fr = [s for s in sites if s.module.rel == dc.rel and s.pattern == ["FieldReference"]]
    res.instances = len(fr)
    if len(fr) < 2:
        raise AnalysisError("dependency_checker: fewer than two FieldReference traversals")

    def sig(s):
        return (s.action.name if s.action else None, tuple(sorted(s.skip or [])),
                tuple(sorted((t, tuple(f.name if f else None for f in fs)) for t, fs in s.incidental.items())),
                tuple(sorted(s.params or [])))

    # the second cycle search (after the later path components are resolved) uses an action that records *every*
    # resolved component -- a superset of the edges; its traversal configuration (skips, incidental actions, parameters)
    # must still be the twins'.  It is recognised by its body: a loop over `reference.path` adding each component.
    def superset_action(s):
        if s.action is None:
            return False
        src = ast.unparse(s.action.node)
        return bool(re.search(r"for \w+ in reference\.path", src)) and "hashable_form_of_reference" in src and "|=" in src
    base_sites = [s for s in fr if not superset_action(s)]
    if len(base_sites) < 2:
        raise AnalysisError("dependency_checker: fewer than two first-component FieldReference traversals")
    base = sig(base_sites[0])
    for s in fr:
        if s is base_sites[0]:
            continue
        mine = sig(s)
        if superset_action(s):
            mine = (base[0],) + mine[1:]
        if mine != base:
            res.add(f"deptwin|{s.func.qualname if s.func else ''}", "the FieldReference dependency traversal used for "
                    f"ordering differs from the one used for cycle detection: {sig(s)} vs {base}",
                    dc.rel, s.call.lineno, s.func.qualname if s.func else "")
    res.samples = [{"site": s.where, "signature": str(sig(s))} for s in fr[:2]]
    res.analysed = [dc.rel]
    return res


# --- controls ---------------------------------------------------------------------------
def control_pipe(repo):
    """Swap two passes in an overlay of glue.py."""
    from ..pyfacts import replace_span
    f, passes, assign = find_passes(repo)
    elts = assign.value.elts
    src = repo.read(GLUE)
    a, b = elts[2], elts[5]
    ta, tb = ast.get_source_segment(src, a), ast.get_source_segment(src, b)
    new = replace_span(src, b, ta)
    new = replace_span(new, a, tb)
    r2 = Repo(repo.root, overlay={GLUE: new})
    return bool(pipe(r2).findings)


def control_passret(repo):
    src = repo.read("compiler/front_end/write_inference.py")
    m = repo.mod("compiler/front_end/write_inference.py")
    f = m.funcs.get("set_write_methods")
    if f is None:
        return False
    from ..pyfacts import replace_span
    rets = [n for n in ast.walk(f.node) if isinstance(n, ast.Return)]
    new = replace_span(src, rets[-1], "return None")
    r2 = Repo(repo.root, overlay={m.rel: new})
    return bool(passret(r2).findings)


def synthloc(repo, schema=None, sites=None):
    """R-SYNTHLOC (C16): the 64-bit gate visits every expression, including the ones synthetics.py builds from
    user-written quantities (`$size_in_bytes = $max(0, start + size, ...)`).  Whether such an expression overflows is
    decided by the user's field locations, yet the error is placed at the synthetic expression's own location, which
    prints as `[compiler bug]`; when it is the only error of the module, the user gets no position at all.  Decided:
    whether anything reachable from the gate's action looks at `is_synthetic` to choose another location."""
    from . import traversal as T
    res = RuleResult("R-SYNTHLOC")
    schema = schema or Schema(repo)
    sites = sites if sites is not None else T.collect_sites(repo, schema)
    gate = [s for s in sites if s.action is not None and s.action.name == "_check_bounds_on_runtime_integer_expressions"]
    if not gate:
        raise AnalysisError("constraints: the 64-bit gate traversal was not found")
    act = gate[0].action
    refs = repo.refs()
    seen, work = set(), [act.fq]
    funcs = {}
    while work:
        k = work.pop()
        if k in seen:
            continue
        seen.add(k)
        for g in refs.get(k, ()):
            funcs[g.fq] = g
            work.append(g.fq)
    funcs[act.fq] = act
    local = [f for f in funcs.values() if f.file.endswith("constraints.py")]
    res.instances += 1
    aware = any("is_synthetic" in repo.mod(f.file).seg(f.node) for f in local)
    reports = [f for f in local if "error.error(" in repo.mod(f.file).seg(f.node)]
    # compensation: everything synthetics.py adds to the user's arithmetic is `start + size` of a physical field
    # ($size_in_*, the replacement of $next).  If check_constraints bounds that sum for every Field at the field's own
    # location, an overflow of the synthesised expressions always has a natural, located counterpart.
    natural = False
    for s_ in sites:
        if s_.action is None or not s_.module.rel.endswith("front_end/constraints.py") or s_.pattern != ["Field"]:
            continue
        src_ = repo.mod(s_.action.file).seg(s_.action.node)
        if "location.start" in src_ and "location.size" in src_ and "_bounds_can_fit_any_64_bit_integer_type" in src_ \
                and "errors.append" in src_ and re.search(r"\[0\]\[1\]\s*\+\s*\w+\[1\]\[1\]|maximum\w*\s*\+\s*\w*maximum", src_):
            natural = True
    if reports and not aware and not natural:
        f = reports[0]
        res.add(f"compiler/front_end/constraints.py|{act.name}|synthetic-location", f"{act.name} (through {', '.join(sorted(x.name for x in reports))}) "
                "reports range errors at the expression's own source location without regard to is_synthetic: for a structure whose "
                "synthesised `$size_in_bytes` overflows 64 bits the only diagnostics are located at `[compiler bug]`",
                "compiler/front_end/constraints.py", f.line, act.name)
    # (b) the default for a missing location keeps the is_synthetic flag: a synthetic location without coordinates is
    # falsy, and a fresh (0,0) location would turn a deferred synthetic error into a user error at `file:0:0`
    em = repo.mod("compiler/util/error.py")
    lod = [f for f in em.top_funcs() if f.name == "location_or_default"]
    if not lod:
        raise AnalysisError("error.location_or_default not found")
    res.instances += 1
    made = [n for n in walk_no_nested_funcs(lod[0].node) if isinstance(n, ast.Call) and (call_name(n) or "").endswith("SourceLocation")]
    if made and not all(any(k.arg == "is_synthetic" and "location" in ast.unparse(k.value) for k in c.keywords) for c in made):
        res.add("compiler/util/error.py|location_or_default|drops-synthetic", "location_or_default builds a fresh SourceLocation for a "
                "falsy location without carrying over its is_synthetic flag: synthetic locations without coordinates (aliases of "
                "anonymous bits) become user-visible errors at `file.emb:0:0`", em.rel, lod[0].node.lineno, "location_or_default")
    # (c) objects named by dependency-cycle nodes include synthesized fields ($size_in_bytes, ...) that have no location:
    # the cycle report must not use `<object>.source_location` directly
    dc = repo.mod("compiler/front_end/dependency_checker.py")
    fc = [f for f in dc.top_funcs() if f.name == "_find_object_dependency_cycles"]
    if not fc:
        raise AnalysisError("dependency_checker._find_object_dependency_cycles not found")
    for n in walk_no_nested_funcs(fc[0].node):
        if isinstance(n, ast.Call) and (call_name(n) or "") in ("error.error", "error.note") and len(n.args) >= 2:
            res.instances += 1
            a = n.args[1]
            if isinstance(a, ast.Attribute) and a.attr == "source_location":
                res.add(f"{dc.rel}|_find_object_dependency_cycles|bare-location", f"a dependency cycle member is reported at "
                        f"`{ast.unparse(a)}`; synthesized fields ($size_in_bytes in `if $size_in_bytes > 10:`) have no location, so "
                        "the cycle is printed at `file.emb:0:0`", dc.rel, n.lineno, fc[0].name)
    res.analysed = ["compiler/front_end/constraints.py", "compiler/front_end/synthetics.py", em.rel, dc.rel]
    return res


def errsink(repo):
    """R-ERRSINK (C13/C16): diagnostics are collected in an `errors` list that is threaded through the checking functions.
    A call that hands a callee's `errors` parameter a fresh empty list (`[]`, `list()`) throws that callee's diagnostics
    away; combined with the "already typed, skip" shortcut of the type checker, an ill-typed expression is then never
    reported.  Every argument bound to a parameter named `errors` must be the caller's own list (or a name that is
    later merged into it)."""
    res = RuleResult("R-ERRSINK")
    for m in repo.compile_path_modules():
        if not m.rel.startswith("compiler/front_end/") and not m.rel.startswith("compiler/util/"):
            continue
        for f in m.funcs.values():
            for n in walk_no_nested_funcs(f.node):
                if not isinstance(n, ast.Call):
                    continue
                callee = repo.resolve(m, n.func) if hasattr(repo, "resolve") else None
                if not isinstance(callee, Func):
                    continue
                params = [a.arg for a in callee.node.args.args]
                if "errors" not in params:
                    continue
                idx = params.index("errors")
                arg = None
                if idx < len(n.args):
                    arg = n.args[idx]
                for k in n.keywords:
                    if k.arg == "errors":
                        arg = k.value
                if arg is None:
                    continue
                res.instances += 1
                fresh = (isinstance(arg, ast.List) and not arg.elts) or \
                        (isinstance(arg, ast.Call) and isinstance(arg.func, ast.Name) and arg.func.id == "list" and not arg.args)
                if fresh:
                    res.add(f"{m.rel}|{f.qualname}|{callee.name}", f"{f.qualname} calls {callee.name} with a fresh empty list as `errors`: whatever "
                            f"{callee.name} reports is discarded, and because expressions that already carry a type are skipped later, the "
                            "error is never reported at all", m.rel, n.lineno, f.qualname)
    if res.instances < 20:
        raise AnalysisError(f"only {res.instances} calls passing `errors` on were resolved")
    res.samples = [f"{res.instances} calls hand their caller's error list on"]
    res.analysed = ["compiler/front_end/*.py"]
    return res


def intdigits(repo):
    """R-INTDIGITS (C16): the IR keeps integers of arbitrary size as decimal strings (`str(n)`, `int(text)`), and CPython
    3.11+ raises ValueError for such conversions beyond 4300 digits.  A lexically valid Number token (or a range bound
    like 2**16000) must end in a diagnostic, so a module on the import path of every front-end entry point lifts the limit
    at import time: a module-level `sys.set_int_max_str_digits(0)` (guarded for older interpreters) in a module that
    glue.py imports."""
    res = RuleResult("R-INTDIGITS")
    glue = repo.mod("compiler/front_end/glue.py")
    imported = {a.name for n in glue.tree.body if isinstance(n, ast.ImportFrom) and n.module and n.module.startswith("compiler")
                for a in n.names}
    found = None
    for m in repo.modules.values():
        if not m.rel.startswith("compiler/") or m.rel.split("/")[-1][:-3] not in imported | {"glue"}:
            continue
        for n in m.tree.body:
            for c in ast.walk(n) if not isinstance(n, (ast.FunctionDef, ast.ClassDef)) else []:
                if isinstance(c, ast.Call) and (call_name(c) or "") == "sys.set_int_max_str_digits" and c.args \
                        and isinstance(c.args[0], ast.Constant) and c.args[0].value == 0:
                    found = m.rel
    res.instances = 1
    if found is None:
        res.add("compiler/front_end/glue.py|import-path|int-digit-limit", "no module imported by glue.py lifts CPython's 4300-digit limit on "
                "int <-> str conversions at import time: a Number token with 4301 digits, or `0 [+2000] UInt x` used in an "
                "expression, ends in ValueError instead of a diagnostic", "compiler/front_end/glue.py", 1, "import")
    else:
        res.samples.append(f"limit lifted in {found}")
    res.analysed = ["compiler/front_end/glue.py"] + sorted(imported)[:0]
    return res


def sharederr(repo):
    """R-SHAREDERR (C16): every pass hands one `errors` list to all of its per-node functions.  A function that *receives*
    that list may append to it, but whether it finishes its own node must not depend on what other nodes reported: with
    `if not errors:` a reference is silently left unresolved once anything -- including an error at a synthetic
    location, which glue.process_ir hides and survives -- was reported earlier in the pass, and the next pass
    dereferences the unresolved reference.  Accepted: a comparison of `len(errors)` with a length the function recorded
    itself.  Second clause: an error group is hidden as soon as one of its messages has a synthetic location, so a
    function of symbol_resolver that turns a list of candidate locations into notes skips the synthetic ones (the
    built-in `this`), otherwise the only error of the pass disappears."""
    res = RuleResult("R-SHAREDERR")
    mods = [m for m in repo.compile_path_modules() if m.rel.startswith(("compiler/front_end/", "compiler/util/", "compiler/back_end/"))]
    for m in mods:
        for f in m.funcs.values():
            params = {a.arg for a in f.node.args.args + f.node.args.kwonlyargs}
            if "errors" not in params:
                continue
            res.instances += 1
            recorded = set()
            for n in walk_no_nested_funcs(f.node):
                if isinstance(n, ast.Assign) and len(n.targets) == 1 and isinstance(n.targets[0], ast.Name) \
                        and ast.unparse(n.value) == "len(errors)":
                    recorded.add(n.targets[0].id)
            for n in walk_no_nested_funcs(f.node):
                test = n.test if isinstance(n, (ast.If, ast.While, ast.IfExp, ast.Assert)) else None
                if test is None:
                    continue
                for x in ast.walk(test):
                    bad = None
                    if isinstance(x, ast.UnaryOp) and isinstance(x.op, ast.Not) and isinstance(x.operand, ast.Name) and x.operand.id == "errors":
                        bad = "not errors"
                    elif isinstance(x, ast.Compare) and "len(errors)" in ast.unparse(x):
                        others = [ast.unparse(c) for c in [x.left] + x.comparators if ast.unparse(c) != "len(errors)"]
                        if not all(o in recorded for o in others):
                            bad = ast.unparse(x)
                    if bad is None and x is test and isinstance(x, ast.Name) and x.id == "errors":
                        bad = "errors"
                    if bad is None and isinstance(x, ast.BoolOp) and any(isinstance(v, ast.Name) and v.id == "errors" for v in x.values):
                        bad = "errors"
                    if bad:
                        res.add(f"{m.rel}|{f.qualname}|{bad}", f"{f.qualname} tests the shared error list (`{bad}`) to decide how to treat its "
                                "own node: after an earlier (possibly hidden, synthetic) error elsewhere in the pass the node is left "
                                "unfinished without a diagnostic, and later passes dereference it", m.rel, n.lineno, f.qualname)
                        break
    sr = repo.mod("compiler/front_end/symbol_resolver.py")
    nnote = 0
    for f in sr.top_funcs():
        for n in walk_no_nested_funcs(f.node):
            if isinstance(n, ast.For) and any(isinstance(c, ast.Call) and (call_name(c) or "") == "error.note" for c in ast.walk(n)):
                itn = {x.id for x in ast.walk(n.iter) if isinstance(x, ast.Name)}
                if not (itn & {a.arg for a in f.node.args.args}):
                    continue
                nnote += 1
                res.instances += 1
                if "is_synthetic" not in ast.unparse(n):
                    res.add(f"{sr.rel}|{f.name}|synthetic-note", f"{f.name} turns every candidate location into a note; a candidate with a "
                            "synthetic location (the built-in `this` against `import ... as this`) makes error.split_errors hide the "
                            "whole group, the reference stays unresolved and dependency_checker ends in AttributeError",
                            sr.rel, n.lineno, f.name)
    if nnote < 1:
        raise AnalysisError("symbol_resolver: no function builds notes from a list of candidate locations")
    res.analysed = sorted(m.rel for m in mods)
    return res


FOUNDLOC_REVIEWED = {
    ("compiler/front_end/type_check.py", "_type_check_passed_parameters", "referenced_type"):
        "found through the reference of an atomic type: a TypeDefinition, which always carries the location of its definition "
        "(inline types keep the location of the field that declares them)",
    ("compiler/front_end/dependency_checker.py", "_find_module_dependency_cycles", "module"):
        "a node of the import graph: an ir_data.Module, whose location is set by module_ir",
}


def foundloc(repo):
    """R-FOUNDLOC (C16): a message that points at an object looked up by canonical name (`ir_util.find_object*`) uses that
    object's `source_location`.  Objects the compiler generated have none -- `$size_in_bytes`, the aliases of the members
    of an anonymous `bits` (only their name has one) -- and `error.location_or_default` then prints `file:0:0` with an
    unrelated source line.  Every such location is therefore either (a) a fallback chain (`x.source_location or
    x.name.source_location or <parent>.source_location`), (b) used where the kind of the object is established on the
    path (`isinstance(x, TypeDefinition | RuntimeParameter | EnumValue)`, `not field_is_virtual(x)`: kinds the user
    always writes), or (c) a reviewed site, with the reason in the table."""
    res = RuleResult("R-FOUNDLOC")
    written_kinds = ("TypeDefinition", "RuntimeParameter", "EnumValue", "Module")
    seen_reviewed = set()
    for m in repo.compile_path_modules():
        if not m.rel.startswith("compiler/front_end/"):
            continue
        for f in m.funcs.values():
            found = set()
            for n in walk_no_nested_funcs(f.node):
                if isinstance(n, ast.Assign) and isinstance(n.value, ast.Call) and (call_name(n.value) or "").split(".")[-1] in (
                        "find_object", "find_object_or_none", "find_parent_object"):
                    found |= {t.id for t in n.targets if isinstance(t, ast.Name)}
            if not found:
                continue
            for c in walk_no_nested_funcs(f.node):
                if not (isinstance(c, ast.Call) and (call_name(c) or "") in ("error.error", "error.note", "error.warn") and len(c.args) >= 2):
                    continue
                loc = c.args[1]
                vs = {x.value.id for x in ast.walk(loc) if isinstance(x, ast.Attribute) and x.attr == "source_location"
                      and isinstance(x.value, ast.Name) and x.value.id in found}
                # a local that holds the location
                if isinstance(loc, ast.Name):
                    lname = loc.id
                    for n in walk_no_nested_funcs(f.node):
                        if isinstance(n, ast.Assign) and len(n.targets) == 1 and isinstance(n.targets[0], ast.Name) and n.targets[0].id == lname:
                            loc = n.value
                            vs = {x.value.id for x in ast.walk(loc) if isinstance(x, ast.Attribute) and x.attr == "source_location"
                                  and isinstance(x.value, ast.Name) and x.value.id in found}
                for v in sorted(vs):
                    res.instances += 1
                    if isinstance(loc, ast.BoolOp) and isinstance(loc.op, ast.Or) and len(loc.values) >= 2:
                        continue
                    # guards on the path
                    ok = False
                    node = c
                    while node is not None and node is not f.node:
                        parent = m.parent(node)
                        if isinstance(parent, ast.If):
                            t = ast.unparse(parent.test)
                            in_body = any(node is st or node in ast.walk(st) for st in parent.body)
                            if in_body and any(f"isinstance({v}, ir_data.{k})" in t for k in written_kinds):
                                ok = True
                            if in_body and f"not ir_util.field_is_virtual({v})" in t:
                                ok = True
                        node = parent
                    key = (m.rel, f.qualname, v)
                    if not ok and key in FOUNDLOC_REVIEWED:
                        seen_reviewed.add(key)
                        res.notes.append(f"{m.rel}:{f.qualname}:{v} -- {FOUNDLOC_REVIEWED[key]}")
                        ok = True
                    if not ok:
                        res.add(f"{m.rel}|{f.qualname}|{v}", f"{f.qualname} reports at `{ast.unparse(c.args[1])[:60]}`: `{v}` was looked up by name and "
                                "may be a generated field (`$size_in_bytes`, an alias of an anonymous `bits` member) without a "
                                "location; the message is then printed at `file:0:0` with the last line of the file as its snippet",
                                m.rel, c.lineno, f.qualname)
    stale = set(FOUNDLOC_REVIEWED) - seen_reviewed
    for key in sorted(stale):
        raise AnalysisError(f"R-FOUNDLOC: reviewed site {key} no longer exists")
    if res.instances < 5 and not res.findings:
        raise AnalysisError(f"only {res.instances} messages located at looked-up objects")
    return res
